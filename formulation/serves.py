"""Which property each constraint family serves: (class, method, regex on the family id) -> property ids.
The family id of an effect is: kind + ':' + (constraint name template | variable family | flag name)."""
import re

RULES = [
    # class, method regex, id regex, properties
    ("AbstractPathModelDAG", r"_encode_paths", r"add_variables:self\.edge_vars|add_constraint:.*10[ac]", ["C01"]),
    ("AbstractPathModelDAG", r"_encode_paths", r"subpaths_vars|7[ab]_", ["C10", "C05"]),
    ("AbstractPathModelDAG", r"_encode_paths", r"position|path_length", ["C08"]),
    # (the fixings and prunings are rows of every model built on the base class: one that cuts off a route makes the true k infeasible or
    #  the reported optimum too large in the minimising / error / cover models as well)
    ("AbstractPathModelDAG", r"_apply_safety", r".*", ["C05", "C03", "C07", "C08", "C09"]),
    ("AbstractWalkModelDiGraph", r"_encode_walks", r".*", ["C01"]),
    ("AbstractWalkModelDiGraph", r"_encode_walks", r"add_variables:self\.edge_vars|22a", ["C04"]),
    ("AbstractWalkModelDiGraph", r"_encode_subset_constraints", r".*", ["C10", "C05", "C04"]),     # (C04: the minimum of MinFlowDecompCycles is taken over walks that satisfy them)
    ("AbstractWalkModelDiGraph", r"_apply_safety", r".*", ["C05", "C04", "C07", "C08", "C09"]),
    ("kFlowDecomp", r".*", r".*", ["C02"]),
    ("kFlowDecompCycles", r".*", r".*", ["C02"]),
    ("kFlowDecomp", r"given_weights", r".*", ["C05"]),
    ("kFlowDecomp", r"given_weights", r"max_paths_original_k", ["C01"]),
    ("kLeastAbsErrors", r"given_weights", r"max_paths_original_k", ["C01"]),
    ("kMinPathError", r"given_weights", r"max_paths_original_k", ["C01"]),
    ("kFlowDecompCycles", r"given_weights", r".*", ["C05"]),
    ("kLeastAbsErrors", r".*", r".*", ["C07"]),
    ("kLeastAbsErrorsCycles", r".*", r".*", ["C07"]),
    ("kMinPathError", r".*", r".*", ["C08"]),
    ("kMinPathErrorCycles", r".*", r".*", ["C08"]),
    ("kPathCover", r".*", r".*", ["C09"]),
    ("kPathCoverCycles", r".*", r".*", ["C09"]),
    ("MinGenSet", r".*", r".*", ["C15"]),
    ("MinSetCover", r".*", r".*", ["C15"]),
    ("MinErrorFlow", r".*", r".*", ["C16"]),
    ("SolverWrapper", r".*", r".*", ["C12"]),
    # the product helpers carry weight * multiplicity in every cyclic model and the slack products of kMinPathError(.Cycles)
    ("SolverWrapper", r"add_(integer|binary)_continuous_product_constraint", r".*", ["C08", "C07", "C04"]),
]


def serves(cls: str, method: str, fid: str):
    out = []
    for c, m, i, props in RULES:
        if c == cls and re.search(m, method) and re.search(i, fid):
            for p in props:
                if p not in out:
                    out.append(p)
    return out
