"""C07 demo 2: kLeastAbsErrorsCycles caps how often a walk may traverse an edge inside a strongly
connected component by *flow values* (per-edge bound = largest flow value reachable around the edge, and
number of multiplicity bits = ceil(log2(k*max_flow+1))).  A flow value is not a bound on a traversal count:
with non-conserving weights (explicitly allowed by the docs) or with weights smaller than 1, the optimum
needs more traversals, so the "solved" model returns a non-optimal decomposition (or is reported infeasible).

For every instance we exhibit an explicit witness walk whose total absolute error (recomputed here from
scratch) is strictly smaller than the objective value the library reports as optimal.

Exit code 0 = property holds, 1 = property violated.
"""
import sys
import networkx as nx
import flowpaths as fp


def total_abs_error(G, walks, weights):
    tot = 0
    for (u, v, data) in G.edges(data=True):
        load = 0
        for walk, w in zip(walks, weights):
            load += w * sum(1 for e in zip(walk[:-1], walk[1:]) if e == (u, v))
        tot += abs(data["flow"] - load)
    return tot


def is_walk(G, walk, starts, ends):
    return (all(G.has_edge(a, b) for a, b in zip(walk[:-1], walk[1:]))
            and walk[0] in starts and walk[-1] in ends)


def check(name, G, k, weight_type, witness_walks, witness_weights):
    problems = []
    starts = {u for u in G.nodes if G.in_degree(u) == 0}
    ends = {u for u in G.nodes if G.out_degree(u) == 0}
    assert len(witness_walks) == k and all(is_walk(G, w, starts, ends) for w in witness_walks)
    witness_error = total_abs_error(G, witness_walks, witness_weights)

    model = fp.kLeastAbsErrorsCycles(G, flow_attr="flow", k=k, weight_type=weight_type)
    model.solve()
    status = model.solver.get_model_status()
    if not model.is_solved():
        print(f"{name}: solver status {status}; a feasible decomposition with error {witness_error} exists: "
              f"{witness_walks} weights {witness_weights}")
        problems.append(f"{name}: model reported {status} although k-LAE is always feasible "
                        f"(witness with error {witness_error})")
        return problems
    sol = model.get_solution()
    obj = model.get_objective_value()
    recomputed = total_abs_error(G, sol["walks"], sol["weights"])
    print(f"{name}: library walks={sol['walks']} weights={sol['weights']} reported optimum={obj} "
          f"(recomputed {recomputed}); witness {witness_walks} weights {witness_weights} has error {witness_error}")
    if abs(recomputed - obj) > 1e-6:
        problems.append(f"{name}: reported objective {obj} != recomputed {recomputed}")
    if obj > witness_error + 1e-6:
        problems.append(f"{name}: reported 'optimal' error {obj} but the witness {witness_walks} with weights "
                        f"{witness_weights} has error {witness_error}")
    if not model.is_valid_solution():
        problems.append(f"{name}: is_valid_solution() rejects the model's own solution")
    return problems


def main():
    problems = []

    # Instance 1: integer weights, all edge weights 1, not flow conserving (docs: "do not need to satisfy
    # flow conservation").  Two cycles a->b->c->a and a->b->d->a share the edge (a,b).
    # Witness: s a b c a b d a b t with weight 1: only (a,b) is off (load 3 vs 1) -> error 2.
    G1 = nx.DiGraph()
    for e in [("s", "a"), ("a", "b"), ("b", "c"), ("c", "a"), ("b", "d"), ("d", "a"), ("b", "t")]:
        G1.add_edge(*e, flow=1)
    w1 = [["s", "a", "b", "c", "a", "b", "d", "a", "b", "t"]]
    problems += check("int/non-conserving", G1, 1, int, w1, [1])
    problems += check("float/non-conserving", G1, 1, float, w1, [1.0])

    # Instance 2: a *conserving* flow with values below 1 (float weights, the default weight_type):
    # s->a 0.5, a->b 1.0, b->a 0.5, b->t 0.5 is exactly the walk s a b a b t with weight 0.5 -> error 0.
    G2 = nx.DiGraph()
    G2.add_edge("s", "a", flow=0.5)
    G2.add_edge("a", "b", flow=1.0)
    G2.add_edge("b", "a", flow=0.5)
    G2.add_edge("b", "t", flow=0.5)
    problems += check("float/conserving<1", G2, 1, float, [["s", "a", "b", "a", "b", "t"]], [0.5])

    # Instance 3: the same shape with 0.25 / 0.5: the traversal bound of the cycle edges becomes 0.5, i.e. the
    # integer traversal variables are forced to 0 and the model is reported infeasible.
    G3 = nx.DiGraph()
    G3.add_edge("s", "a", flow=0.25)
    G3.add_edge("a", "b", flow=0.5)
    G3.add_edge("b", "a", flow=0.25)
    G3.add_edge("b", "t", flow=0.25)
    problems += check("float/conserving<1 (b)", G3, 1, float, [["s", "a", "b", "a", "b", "t"]], [0.25])

    if problems:
        print("PROPERTY C07 VIOLATED:")
        for p in problems:
            print("  -", p)
        sys.exit(1)
    print("property holds on these instances")
    sys.exit(0)


if __name__ == "__main__":
    main()
