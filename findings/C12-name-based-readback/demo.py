"""C12 demo 1: SolverWrapper.get_variable_values does not read back exactly the variables asked for.

Four integer variables edge(u, v, i) are created through the public wrapper API, fixed to the
known values 3, 4, 5 and 6 and the (trivial) model is solved.  The name based getter
get_variable_values("edge", [str, str, int]) is documented to return "a dictionary where the keys
are the indices of the variables ... and the values are the corresponding variable values".
Hand-computed expectation: exactly the four indices used at creation, with values 3, 4, 5, 6
(the index based getter get_values returns exactly that and is printed for comparison).

Observed: the variable whose node name contains an apostrophe is silently missing, and the one
whose node name contains a blank is reported under the key of ANOTHER variable ('ab' instead of
'a b'), so that the two variables ('a b','c',0)=4 and ('ab','c',0)=6 collapse into one entry.
"""
import sys
import warnings

import flowpaths
from flowpaths.utils.solverwrapper import SolverWrapper

warnings.simplefilter("ignore")

indexes = [("a'b", "c", 0), ("a b", "c", 0), ("a", "c", 0), ("ab", "c", 0)]
fixed = {indexes[0]: 3, indexes[1]: 4, indexes[2]: 5, indexes[3]: 6}

s = SolverWrapper()
v = s.add_variables(indexes, name_prefix="edge", lb=0, ub=10, var_type="integer")
for idx, val in fixed.items():
    s.fix_variable(v[idx], val)
s.set_objective(s.quicksum(v[idx] for idx in indexes), sense="minimize")
s.optimize()
if s.get_model_status() != "kOptimal":
    print("unexpected status", s.get_model_status())
    sys.exit(2)

expected = {idx: float(val) for idx, val in fixed.items()}
by_index = {k: float(round(x, 6)) for k, x in s.get_values(v).items()}
by_name = {k: float(round(x, 6)) for k, x in s.get_variable_values("edge", [str, str, int]).items()}

print("library        :", flowpaths.__file__)
print("variable names :", s.get_all_variable_names())
print("expected       :", expected)
print("get_values     :", by_index)
print("get_variable_values:", by_name)

if by_index != expected:
    print("FAIL: index based getter differs from the fixed values")
    sys.exit(1)
if by_name != expected:
    missing = [k for k in expected if k not in by_name]
    extra = [k for k in by_name if k not in expected]
    print(f"FAIL: name based getter: missing indices {missing}, unknown indices {extra}")
    sys.exit(1)
print("OK")
sys.exit(0)
