"""C04 demo 1: scaling all flow values by a common factor < 1 (float weights) makes MinFlowDecompCycles unsolvable.

Instance A: s->a (1), a->a (5), a->t (1).  One walk s,a,a,a,a,a,a,t of weight 1 decomposes it (hand check), so the
minimum is 1 walk; after multiplying every flow by c the same walk with weight c still decomposes it.
Instance B: s->a (2), a->b (3), b->a (3), a->t (2).  One walk would need weight 2 and 1.5 rounds of the cycle, so the
minimum is 2 walks (weights 1,1 with 3 and 0 rounds), for every scale factor.
The property demands the same number of walks (and solvability) for every positive scale factor with weight_type=float.
Exit 0 if that holds, exit 1 otherwise.
"""
import sys
import networkx as nx
import flowpaths as fp

# ---------------------------------------------------------------------------------------------
# Independent brute-force reference (no flowpaths code): minimum number of positive-integer-weighted
# source-to-sink walks whose superposition equals the given integer edge flow, such that every subset
# constraint is contained in the edge set of at least one walk. Sources = nodes without in-edges,
# sinks = nodes without out-edges. Iterative deepening over the number of walks.
# ---------------------------------------------------------------------------------------------
def brute_min_walks(edges_flow, constraints=(), kmax=10):
    nodes = {x for e in edges_flow for x in e}
    indeg = {n: 0 for n in nodes}; outdeg = {n: 0 for n in nodes}
    inflow = {n: 0 for n in nodes}; outflow = {n: 0 for n in nodes}
    for (u, v), f in edges_flow.items():
        outdeg[u] += 1; indeg[v] += 1; outflow[u] += f; inflow[v] += f
    S, T = "__S", "__T"
    E = dict(edges_flow)
    for n in nodes:
        if indeg[n] == 0: E[(S, n)] = outflow[n]
        if outdeg[n] == 0: E[(n, T)] = inflow[n]
        if indeg[n] > 0 and outdeg[n] > 0: assert inflow[n] == outflow[n], "flow not conserved"
    edges = list(E); idx = {e: i for i, e in enumerate(edges)}
    out_adj = {}
    for i, (u, v) in enumerate(edges):
        out_adj.setdefault(u, []).append(i); out_adj.setdefault(v, [])
    cons = [frozenset(idx[e] for e in c) for c in constraints]
    full = (1 << len(cons)) - 1
    def covered(m):
        return sum(1 << j for j, c in enumerate(cons) if all(m[i] > 0 for i in c))
    cache = {}
    def vectors(r, w):  # all edge-multiplicity vectors of S-T walks that fit w times into the residual r
        if (r, w) not in cache:
            cap = [x // w for x in r]
            res, seen, stack = set(), set(), [(S, tuple([0] * len(edges)))]
            while stack:
                node, used = stack.pop()
                if node == T: res.add(used); continue
                for ei in out_adj[node]:
                    if used[ei] < cap[ei]:
                        u2 = list(used); u2[ei] += 1; st = (edges[ei][1], tuple(u2))
                        if st not in seen: seen.add(st); stack.append(st)
            cache[(r, w)] = sorted(res)
        return cache[(r, w)]
    fail = set()
    def rec(r, k, mask, last):
        if not any(r): return mask == full
        if k == 0: return False
        key = (r, k, mask, last)
        if key in fail: return False
        wmax = min(max(r), last[0]) if last else max(r)
        for w in range(wmax, 0, -1):
            for m in reversed(vectors(r, w)):
                if last and (w, m) > last: continue   # canonical (non-increasing) order of the walks
                if rec(tuple(x - w * y for x, y in zip(r, m)), k - 1, mask | covered(m), (w, m)): return True
        fail.add(key); return False
    f0 = tuple(E[e] for e in edges)
    for k in range(1, kmax + 1):
        fail.clear()
        if rec(f0, k, 0, None): return k
    return None

def lib_count(flow, scale, weight_type):
    G = nx.DiGraph()
    for (u, v), f in flow.items():
        G.add_edge(u, v, flow=f * scale)
    m = fp.MinFlowDecompCycles(G, flow_attr="flow", weight_type=weight_type, solver_options={"threads": 1})
    if not m.solve():
        return None, None
    sol = m.get_solution()
    return len(sol["walks"]), sol

INSTANCES = {
    "A": ({("s", "a"): 1, ("a", "a"): 5, ("a", "t"): 1}, 1),
    "B": ({("s", "a"): 2, ("a", "b"): 3, ("b", "a"): 3, ("a", "t"): 2}, 2),
}
bad = False
for name, (flow, hand) in INSTANCES.items():
    ref = brute_min_walks(flow)
    assert ref == hand, (name, ref, hand)
    got_int, _ = lib_count(flow, 1, int)
    print(f"instance {name}: brute force = {ref}, library (int, unscaled) = {got_int}")
    if got_int != ref:
        bad = True
    for scale in [4.0, 2.0, 0.5, 0.25]:   # dyadic factors: every scaled value is exact in binary floating point
        got, sol = lib_count(flow, scale, float)
        status = "ok" if got == ref else "VIOLATION"
        print(f"  scale {scale}: library (float) -> {got} walks  [{status}]  {sol}")
        if got != ref:
            bad = True
if bad:
    print("FAIL: number of walks / solvability changed under a common positive scale factor")
    sys.exit(1)
print("PASS")
sys.exit(0)
