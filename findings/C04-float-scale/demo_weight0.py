#!/usr/bin/env python
"""
C04 demo 2: a subset constraint that only a weight-0 walk can cover is declared unsolvable, because the
walk model caps the traversals of every edge by its flow value - also for a walk of weight 0, whose
traversals are not limited by any flow value.

Graph (all flow values 1):   s->a, s->b, a->b, b->a, a->t, b->t
Subset constraint:           {(s,b), (b,a), (a,b), (a,t)}

The only walk containing the four edges of the constraint is a walk like s b a b a t, which crosses
(b,a) twice. With a positive integer weight w this needs 2*w <= flow(b,a) = 1, so no walk of positive
weight can cover the constraint. flowpaths lets walks of weight 0 cover subset constraints (it returns
such walks whenever they are needed and the traversal caps do not bite), hence the answer is
2 walks of weight 1 + 1 walk of weight 0 = 3 walks. The brute force below confirms: minimum 3.

MinFlowDecompCycles.solve() returns False instead (every k up to |E| + #constraints is "kInfeasible").

Exit code 0: the library returns 3 walks that are a valid solution; exit code 1 otherwise.
"""
import sys
import itertools
import networkx as nx
import flowpaths as fp

G = nx.DiGraph()
for u, v in [("s", "a"), ("s", "b"), ("a", "b"), ("b", "a"), ("a", "t"), ("b", "t")]:
    G.add_edge(u, v, flow=1)
constraint = [("s", "b"), ("b", "a"), ("a", "b"), ("a", "t")]
edges = list(G.edges)
flow = {e: G.edges[e]["flow"] for e in edges}
sources = [v for v in G if G.in_degree(v) == 0]
sinks = {v for v in G if G.out_degree(v) == 0}


# ----------------------------------------------------------------------------- independent reference
def walk_vectors():
    """Traversal vectors of all source-to-sink walks that use every edge e at most flow(e) times
    (a walk of integer weight >= 1 cannot use an edge more often)."""
    idx = {e: i for i, e in enumerate(edges)}
    seen, out = set(), set()
    stack = [(s, (0,) * len(edges)) for s in sources]
    while stack:
        v, x = stack.pop()
        if (v, x) in seen:
            continue
        seen.add((v, x))
        if v in sinks:
            out.add(x)
            continue
        for w in G.successors(v):
            i = idx[(v, w)]
            if x[i] < flow[(v, w)]:
                stack.append((w, x[:i] + (x[i] + 1,) + x[i + 1:]))
    return sorted(out)


def some_walk_contains(edge_set):
    """Is there a source-to-sink walk (any number of traversals) through all the given edges?"""
    reach = {v: set(nx.descendants(G, v)) | {v} for v in G}
    return any(all(b[0] in reach[a[1]] for a, b in zip(p, p[1:])) for p in itertools.permutations(edge_set))


def reference_minimum(kmax=8):
    vecs = walk_vectors()
    f = [flow[e] for e in edges]
    cset = set(constraint)
    best = None

    def rec(res, chosen):
        nonlocal best
        if best is not None and len(chosen) >= best:
            return
        if not any(res):
            covered = any(cset <= {edges[i] for i in range(len(edges)) if x[i]} for x, _ in chosen)
            extra = 0 if covered else (1 if some_walk_contains(constraint) else None)
            if extra is not None and (best is None or len(chosen) + extra < best):
                best = len(chosen) + extra
            return
        if len(chosen) >= kmax:
            return
        first = next(i for i, r in enumerate(res) if r > 0)
        for x in vecs:
            if x[first] == 0:
                continue
            wmax = min(res[i] // x[i] for i in range(len(edges)) if x[i])
            for w in range(1, wmax + 1):
                rec([res[i] - w * x[i] for i in range(len(edges))], chosen + [(x, w)])

    rec(f, [])
    return best


expected = reference_minimum()
print("reference minimum number of walks:", expected)
assert expected == 3

# explicit witness with 3 walks, checked by plain arithmetic
witness = [(["s", "b", "a", "t"], 1), (["s", "a", "b", "t"], 1), (["s", "b", "a", "b", "a", "t"], 0)]
load = {e: 0 for e in edges}
for walk, weight in witness:
    assert walk[0] in sources and walk[-1] in sinks
    for e in zip(walk, walk[1:]):
        load[e] += weight
assert load == flow
assert set(constraint) <= set(zip(witness[2][0], witness[2][0][1:]))

# ----------------------------------------------------------------------------- the library
# control: the library does cover constraints with weight-0 walks when positive walks cannot
# (s1->m, s2->m, m->t1, m->t2 with flow 1; both (s1,m,t1) and (s1,m,t2) requested: 2 walks + one of weight 0)
H = nx.DiGraph()
for u, v in [("s1", "m"), ("s2", "m"), ("m", "t1"), ("m", "t2")]:
    H.add_edge(u, v, flow=1)
control = fp.MinFlowDecompCycles(H, flow_attr="flow", subset_constraints=[[("s1", "m"), ("m", "t1")], [("s1", "m"), ("m", "t2")]])
print("control (weight-0 walk used by the library):", control.solve(), control.get_solution() if control.is_solved() else None)

model = fp.MinFlowDecompCycles(G, flow_attr="flow", weight_type=int, subset_constraints=[constraint])
solved = model.solve()
print("MinFlowDecompCycles.solve():", solved)
if not solved:
    print("PROPERTY C04 VIOLATED: solve() fails although the 3 walks", witness, "are a valid solution")
    sys.exit(1)
sol = model.get_solution()
print(sol)
if len(sol["walks"]) != expected:
    print(f"PROPERTY C04 VIOLATED: {len(sol['walks'])} walks returned, minimum is {expected}")
    sys.exit(1)
print("ok")
sys.exit(0)
