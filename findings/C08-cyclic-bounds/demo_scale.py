"""kMinPathErrorCycles, float weights: the optimum total slack must scale with the flow values.
s->a 1, a->b 2, b->a 1, a->t 1 has optimum total slack 0.25 (walk s,a,b,a,b,a,t with weight 0.75); with all values halved the
optimum is 0.125, but the repetition cap (largest reachable flow value = 1) allows one traversal per edge only.
Exit 1 = defect present."""
import sys, warnings
warnings.filterwarnings("ignore")
import networkx as nx
import flowpaths as fp

def total_slack(scale):
    G = nx.DiGraph()
    for u, v, f in (("s", "a", 1), ("a", "b", 2), ("b", "a", 1), ("a", "t", 1)):
        G.add_edge(u, v, flow=f * scale)
    m = fp.kMinPathErrorCycles(G, flow_attr="flow", k=1, weight_type=float)
    m.solve()
    return sum(m.get_solution()["slacks"]) if m.is_solved() else None

a, b = total_slack(1), total_slack(0.5)
print("total slack at scale 1:", a, " at scale 0.5:", b)
sys.exit(0 if a is not None and b is not None and abs(b - a / 2) < 1e-6 else 1)
