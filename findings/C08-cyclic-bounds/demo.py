#!/usr/bin/env python
"""
C08 demo 1 - kMinPathErrorCycles: the traversal-count bound and the big-M / variable bounds taken from the
flow values cut off feasible (and optimal) solutions when the weights are not a conserving flow.

The documentation (docs/k-min-path-error-cycles.md) says that the weights "are arbitrary non-negative numbers and
do not need to satisfy flow conservation" and that any k >= width "always gives a feasible model".

Every instance below comes with a hand-made WITNESS (walks, weights, slacks). The witness is verified here with an
independent checker (plain Python, no solver), so its total slack T is an upper bound on the true optimum.
The property then requires: the model is solved, the returned solution passes the same checker, and the returned
total slack is <= T.  For the k=1 instances a small exhaustive search (all walks up to a length bound, all integer
weights) additionally confirms that T is the optimum among those candidates.

Exit code 0: property holds on all instances. Exit code 1: violated (prints what went wrong).
"""
import sys
import math
from collections import Counter
import networkx as nx
import flowpaths as fp


def edge_counts(walk):
    return Counter(zip(walk[:-1], walk[1:]))


def check_solution(G, walks, weights, slacks, ignore=()):
    """Independent check of the k-MinPathError constraint with multiplicities (docs, section 1)."""
    starts = {v for v in G.nodes if G.in_degree(v) == 0}
    ends = {v for v in G.nodes if G.out_degree(v) == 0}
    cnts = []
    for w in walks:
        if len(w) < 2 or w[0] not in starts or w[-1] not in ends:
            return f"walk {w} is not a source-to-sink walk"
        if any(not G.has_edge(a, b) for a, b in zip(w[:-1], w[1:])):
            return f"walk {w} uses a non-edge"
        cnts.append(edge_counts(w))
    for (u, v, f) in G.edges(data="flow"):
        if (u, v) in ignore:
            continue
        explained = sum(c[(u, v)] * wt for c, wt in zip(cnts, weights))
        slack = sum(c[(u, v)] * sl for c, sl in zip(cnts, slacks))
        if abs(f - explained) > slack + 1e-6:
            return f"edge {(u, v)}: |{f} - {explained}| > {slack}"
    if any(s < -1e-9 for s in slacks) or any(w < -1e-9 for w in weights):
        return "negative weight or slack"
    return None


def brute_force_k1(G, max_len, ignore=()):
    """min slack over ALL source-to-sink walks with <= max_len edges and all integer weights (k = 1)."""
    starts = [v for v in G.nodes if G.in_degree(v) == 0]
    ends = {v for v in G.nodes if G.out_degree(v) == 0}
    need = [(u, v, f) for (u, v, f) in G.edges(data="flow") if (u, v) not in ignore]
    fmax = max(f for _, _, f in need)
    best = math.inf
    stack = [[s] for s in starts]
    while stack:
        w = stack.pop()
        if w[-1] in ends:
            c = edge_counts(w)
            if all(c[(u, v)] > 0 or f == 0 for (u, v, f) in need):
                for wt in range(0, fmax + 2):
                    s = 0
                    for (u, v, f) in need:
                        if c[(u, v)] > 0:
                            s = max(s, math.ceil(abs(f - c[(u, v)] * wt) / c[(u, v)]))
                    best = min(best, s)
        if len(w) - 1 < max_len:
            for x in G.successors(w[-1]):
                stack.append(w + [x])
    return best


def graph(edges):
    G = nx.DiGraph()
    for u, v, f in edges:
        G.add_edge(u, v, flow=f)
    return G


UNIT = [("a", "b", 1), ("b", "c", 1), ("c", "b", 1), ("c", "d", 1)]
PATHCYC = [("s", "a", 2), ("a", "b", 3), ("b", "a", 5), ("b", "t", 3)]
FIG8 = [("s", "a", 1), ("a", "b", 0), ("b", "c", 10), ("c", "a", 10), ("b", "d", 10), ("d", "a", 10), ("a", "t", 1)]

INSTANCES = [
    # name, edges, k, ignore, witness (walks, weights, slacks), brute force length (or None)
    ("unit-weight cycle, k=1 (= width)", UNIT, 1, [],
     ([["a", "b", "c", "b", "c", "d"]], [1], [1]), 9),
    ("unit-weight cycle, k=None", UNIT, None, [],
     ([["a", "b", "c", "b", "c", "d"]], [1], [1]), 9),
    ("unit-weight cycle, k=2", UNIT, 2, [],
     ([["a", "b", "c", "b", "c", "d"], ["a", "b", "c", "d"]], [1, 0], [1, 0]), None),
    ("path with a 2-cycle, weights 2,3,5,3, k=1", PATHCYC, 1, [],
     ([["s", "a", "b", "a", "b", "a", "b", "t"]], [2], [1]), 11),
    ("figure-eight, shared edge (a,b) ignored, k=1", FIG8, 1, [("a", "b")],
     ([["s", "a"] + ["b", "c", "a"] * 10 + ["b", "d", "a"] * 10 + ["t"]], [1], [0]), None),
]


def main():
    failures = 0
    for name, edges, k, ignore, (wwalks, wweights, wslacks), bf_len in INSTANCES:
        G = graph(edges)
        err = check_solution(G, wwalks, wweights, wslacks, ignore)
        assert err is None, f"witness of '{name}' is wrong: {err}"
        T = sum(wslacks)
        if bf_len is not None:
            bf = brute_force_k1(G, bf_len, ignore)
            assert bf == T, f"brute force {bf} != witness {T} for '{name}'"

        model = fp.kMinPathErrorCycles(G, flow_attr="flow", k=k, weight_type=int, elements_to_ignore=ignore)
        model.solve()
        if not model.is_solved():
            print(f"FAIL [{name}]: model not solved (status {model.solver.get_model_status()}), "
                  f"but a feasible solution with total slack {T} exists: walks={wwalks} weights={wweights} slacks={wslacks}")
            failures += 1
            continue
        sol = model.get_solution()
        err = check_solution(G, sol["walks"], sol["weights"], sol["slacks"], ignore)
        if err is not None:
            print(f"FAIL [{name}]: returned solution violates the constraint: {err}; solution={sol}")
            failures += 1
            continue
        obj = sum(sol["slacks"])
        if obj > T + 1e-6:
            print(f"FAIL [{name}]: returned total slack {obj} is not minimum; a feasible solution with total slack {T} exists "
                  f"(weights={wweights}, slacks={wslacks}, walk lengths={[len(w) - 1 for w in wwalks]}); returned={sol}")
            failures += 1
            continue
        print(f"ok   [{name}]: total slack {obj}")
    return 1 if failures else 0


if __name__ == "__main__":
    sys.exit(main())
