"""
C12 (model level) - the x handed to add_piecewise_constant_constraint by kMinPathError is not the length of the
solution path: path_length_vars sums the lengths of ALL edges of the internal graph used by the path, including
the synthetic (source, first node) and (last node, sink) edges, which have no length attribute and count 1 each.
The factor selected is therefore the one of the range containing |P| + 2, not of the range containing |P|.

Documentation (docs/k-min-path-error.md, item 5, and the kMinPathError docstring): the slack of path P_i is
multiplied by alpha(|P_i|), "where |P_i| denotes the length of solution path P_i"; path_length_ranges are
"ranges for the solution path lengths".

Reference: brute force over all source-to-sink paths, all integer weights and all integer slacks, with the
factor looked up for the true length of the path (number of edges, or the sum of the length attribute).

Exit code 0: property holds.  Exit code 1: violated.
"""
import itertools
import sys
import warnings

import networkx as nx

import flowpaths as fp

warnings.simplefilter("ignore")
failures = []


def brute_force(G, ranges, factors, length_attr=None):
    """Minimum total slack of one path (k = 1), integer weight and integer slack; None if no path has a length in a range."""
    sources = [v for v in G if G.in_degree(v) == 0]
    sinks = [v for v in G if G.out_degree(v) == 0]
    w_top = max(d for _, _, d in G.edges(data="flow"))
    best = None
    for s, t in itertools.product(sources, sinks):
        for path in nx.all_simple_paths(G, s, t):
            path_edges = list(zip(path[:-1], path[1:]))
            length = sum(G[u][v].get(length_attr, 1) if length_attr else 1 for u, v in path_edges)
            alpha = next((f for r, f in zip(ranges, factors) if r[0] <= length <= r[1]), None)
            if alpha is None:
                continue
            for w in range(0, w_top + 1):
                # every edge of the graph must be explained: an edge off the path has load 0 and no slack
                worst = 0
                feasible = True
                for u, v, f in G.edges(data="flow"):
                    if (u, v) in path_edges:
                        worst = max(worst, abs(f - w))
                    elif f != 0:
                        feasible = False
                if not feasible:
                    continue
                rho = 0
                while rho * alpha < worst - 1e-9:
                    rho += 1
                if best is None or rho < best:
                    best = rho
    return best


def model_value(G, ranges, factors, length_attr=None):
    model = fp.kMinPathError(
        G, flow_attr="flow", k=1, weight_type=int, length_attr=length_attr,
        path_length_ranges=ranges, path_length_factors=factors,
    )
    model.solve()
    if not model.is_solved():
        return None, None
    return sum(model.get_solution()["slacks"]), model.solver.get_values(model.path_length_vars)[0]


# the only path is s -> a -> t: two edges
G = nx.DiGraph()
G.add_edge("s", "a", flow=5, length=10)
G.add_edge("a", "t", flow=9, length=20)

instances = [
    # (description, ranges, factors, length_attr)
    ("2 edges, ranges [0,2] -> 1, [3,100] -> 2", [[0, 2], [3, 100]], [1, 2], None),
    ("2 edges, ranges [0,2] -> 2, [3,100] -> 1", [[0, 2], [3, 100]], [2, 1], None),
    ("2 edges, single range [0,2] -> 1", [[0, 2]], [1], None),
    ("length 10 + 20 = 30, ranges [0,30] -> 1, [31,1000] -> 2", [[0, 30], [31, 1000]], [1, 2], "length"),
]
for description, ranges, factors, length_attr in instances:
    expected = brute_force(G, ranges, factors, length_attr)
    got, model_length = model_value(G, ranges, factors, length_attr)
    print(f"{description}: brute force total slack = {expected}, model = {got} (model's path length = {model_length})")
    if got != expected:
        failures.append(f"{description}: model {got} (path length seen by the model: {model_length}), brute force {expected}")

if failures:
    print("\nPROPERTY VIOLATED:")
    for f in failures:
        print(" -", f)
    sys.exit(1)
print("property holds")
sys.exit(0)
