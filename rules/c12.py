"""C12 - MILP building blocks encode exactly the relation they name.

Each helper is a straight-line list of linear rows; exactness is a finite algebraic fact that is *proved* here from the
rows extracted from the current tree (no table needed for R1), plus conformance / dataflow rules for the other helpers.
"""
from __future__ import annotations

import ast
import os
import re
from fractions import Fraction
from typing import Dict, List, Optional, Tuple

from sa.pm import Program, FuncInfo, dotted, norm, calls_in, walk_no_nested, AnalysisError, kwarg
from sa.poly import Poly, to_poly, nonneg_given
from sa.mir import extract, canon_effect, LinNF
from sa.flow import Flow
from rules.formulation import conformance, method_effects, HELPER_PARAMS
from rules.common import local_single_defs, substitute_locals
from rules.search import dominates

EXPLANATION = (
    "Decides, by algebra on the rows extracted from the current source: (R1) the binary x continuous helper is sound (every row, "
    "after substituting b in {0,1} and p = b*c, is a non-negative combination of c-lb, ub-c, ub-lb) and complete (for each b a row is "
    "identically tight from above and one from below), so it admits exactly p = b*c for lb <= c <= ub; (R2) the integer x continuous "
    "helper is the bit expansion of the same index set for factor and product, each bit linked by the binary helper with the same "
    "bounds, bits binary, and the bit count is provably sufficient (2^n - 1 >= ub); (R3) the piecewise helper selects exactly one "
    "piece and each big-M dominates the spread of the quantity it relaxes (x-rows: max U - min L; y-rows: max c - min c); (R4) the "
    "objective install is dominated by a reset of all costs and followed by the offset; (R5) queued bound updates write exactly the "
    "requested bounds per backend (fix: lower = upper = value; lower-bound queue keeps the current upper bound, read from position "
    "`upper` of Highs.getCols per the external contract) and the queues are cleared on every exit; (R6) values are read back by the "
    "(R5, extended) Highs.getCols is called with a sorted index set and its returned count is checked; the queued updates are applied before the solver run on every path of optimize(); a memo of solution values is invalidated after every run.  "
    " (R7) scalar bounds handed to add_variables are recognised also when they are numpy scalars (no silent fall-through to the default bounds [0, 1]); (R2, extended) the bit expansion is sized from integer_ub when the caller gives the bound of the integer factor, from ub otherwise, and each case is sufficient for its sizing quantity. "
    " (R5, extended) the fix queue is applied with one entry per column (dict keys, sorted) and its status is checked; the lower bounds written take a value fixed in the same batch into account (def-use with reaching definitions, both backends). "
    "variable's own column index, one entry per requested key.  NOT decided: HiGHS' handling of the rows, numerical tolerance."
    ' (R6, round 3) no public getter rebuilds indices from variable names (known finding: get_variable_values); (R7) bounds of integer variables are rounded inwards.'
    ' (R5, round 4) the i-th value handed to HiGHS belongs to the i-th column index: values are read from the dict through the index sequence, or the two arrays are the parallel queues.'
    ' (R3, benign 4) the one-hot row of the piecewise helper sums over the index set of the selector family (structural, no text match).'
    ' (R7, hunt 6) every name the models read through `self.solver.` is a member of SolverWrapper (package-wide).'
)
DECIDED = ["exactness of the binary*continuous product helper (soundness + completeness, algebraic proof)",
           "structure and bit-count sufficiency of the integer*continuous helper",
           "one-hot selection and big-M sufficiency of the piecewise-constant helper",
           "objective replacement resets all previous coefficients", "queued bound changes set exactly the requested bounds",
           "read-back by column index for exactly the requested keys"]
NOT_DECIDED = ["the solver's treatment of the rows; numerical tolerance"]

GETCOLS_ORDER = ["status", "num_col", "cost", "lower", "upper", "num_nz"]   # EXT contract (DESIGN 2.7)


def check(prog: Program, rep):
    r1(prog, rep)
    r2(prog, rep)
    r3(prog, rep)
    r4(prog, rep)
    r5(prog, rep)
    r6(prog, rep)
    name_based_readback(prog, rep, "C12.R6")
    rep.rule("C12.R7", "bounds handed to add_variables become the bounds of the variables: scalar recognition covers numpy scalars (no silent default)", floor=1)
    bounds_materialised(prog, rep, "C12.R7")
    integer_bounds_rounded(prog, rep, "C12.R7")
    # every name the models read through `self.solver.` is a member of the wrapper
    from rules.values import solver_members_exist
    solver_members_exist(prog, rep, "C12.R7")
    helper_coefficients_converted(prog, rep, "C12.R7")
    rep.rule("C12.T", "helpers conform to the frozen formulation table (structure of rows, families, bounds)", floor=14)
    conformance(prog, rep, "C12.T", "C12")


# ------------------------------------------------------------------------------------------------ R1
def lin3(p: Poly) -> Optional[Tuple[Fraction, Fraction, Fraction]]:
    """p = k_lb*lb + k_ub*ub + k_0 ; None if not of that shape."""
    klb = kub = k0 = Fraction(0)
    for m, c in p.t.items():
        if m == ():
            k0 += c
        elif m == ("lb",):
            klb += c
        elif m == ("ub",):
            kub += c
        else:
            return None
    return klb, kub, k0


def row_coeffs(nf: LinNF):
    """coefficients of binary_var, continuous_var, product_var and the constant of a row `... >= 0` / `== 0`."""
    ab = nf.terms.get("binary_var", Poly())
    ac = nf.terms.get("continuous_var", Poly())
    ap = nf.terms.get("product_var", Poly())
    others = [k for k in nf.terms if k not in ("binary_var", "continuous_var", "product_var")]
    return ab, ac, ap, nf.const, others


def sound_for_b(ab: Poly, ac: Poly, ap: Poly, const: Poly, b: int) -> Optional[bool]:
    """row value at binary=b, product=b*c:  A*c + K  must be >= 0 for all lb <= c <= ub (with lb <= ub)."""
    a = ac + (ap if b == 1 else Poly())
    K = const + (ab if b == 1 else Poly())
    av = a.const_value()
    k = lin3(K)
    if av is None or k is None:
        return None
    klb, kub, k0 = k
    ap_, am_ = max(av, 0), max(-av, 0)
    # A*c + K = l1(c-lb) + l2(ub-c) + l3(ub-lb) + l4,  l1=a+ + t, l2=a- + t, all >= 0
    # <=> k0 >= 0, kub == -A - klb + (anything absorbed by l3)  ... derive: -klb = l1 + l3, kub = l2 + l3
    # choose t = 0: l3 = -klb - a+ must be >= 0 and kub must equal a- + l3
    l3 = -klb - ap_
    if k0 < 0:
        return False
    if l3 < 0:
        return False
    return kub == am_ + l3


def r1(prog, rep):
    rep.rule("C12.R1", "binary*continuous helper: every row sound, tight rows exist for b=0 and b=1 on both sides", floor=8)
    f = prog.own_method("SolverWrapper", "add_binary_continuous_product_constraint")
    effs = [e for e in extract(prog, f) if e.kind == "add_constraint"]
    if len(effs) < 4:
        rep.violation("C12.R1", "SolverWrapper.add_binary_continuous_product_constraint:rows",
                      f"only {len(effs)} rows: cannot be exact (4 McCormick rows needed)", f.loc())
    rows = []
    for e in effs:
        c = canon_effect(e, set(HELPER_PARAMS))
        nf: LinNF = c["_nf"]
        rows.append((e, nf))
    tight = {(0, "upper"): None, (0, "lower"): None, (1, "upper"): None, (1, "lower"): None}
    for i, (e, nf) in enumerate(rows):
        ab, ac, ap, const, others = row_coeffs(nf)
        key = f"binary_helper:row{i}:{norm(e.args['expr'])[:60]}"
        if nf.opaque or others or nf.rel not in (">=", "=="):
            raise AnalysisError(f"binary helper row not linear in (binary, continuous, product): {nf.key()}")
        variants = [(ab, ac, ap, const)]
        if nf.rel == "==":
            variants.append((-ab, -ac, -ap, -const))
        for (vb, vc, vp, vk) in variants:
            for b in (0, 1):
                s = sound_for_b(vb, vc, vp, vk, b)
                k2 = f"{key}:b={b}"
                if s is None:
                    raise AnalysisError(f"cannot decide soundness of row `{norm(e.args['expr'])}` (coefficients not affine in lb, ub)")
                if s:
                    rep.ok("C12.R1", k2, "sound: non-negative combination of c-lb, ub-c, ub-lb", f.loc(e.node),
                           sample={"row": norm(e.args["expr"]), "b": b, "normal_form": nf.key()})
                else:
                    rep.violation("C12.R1", k2, f"row `{norm(e.args['expr'])}` cuts off the admissible point binary={b}, product={b}*continuous "
                                  f"for some lb <= continuous <= ub: the helper no longer admits every product", f.loc(e.node))
            # tightness
            pv = vp.const_value()
            cv = vc.const_value()
            if pv is None or cv is None or pv == 0:
                continue
            for b in (0, 1):
                K = vk + (vb if b == 1 else Poly())
                # row: pv*p + cv*c + K >= 0
                if pv < 0:      # p <= (cv*c + K)/(-pv)   tight iff equals b*c identically
                    if Fraction(cv, 1) / (-pv) == b and K.is_zero():
                        tight[(b, "upper")] = norm(e.args["expr"])
                else:           # p >= (-cv*c - K)/pv
                    if Fraction(-cv, 1) / pv == b and K.is_zero():
                        tight[(b, "lower")] = norm(e.args["expr"])
    for (b, side), row in sorted(tight.items()):
        key = f"binary_helper:tight:b={b}:{side}"
        if row:
            rep.ok("C12.R1", key, f"row `{row}` forces product {'<=' if side == 'upper' else '>='} {b}*continuous identically", f.loc(),
                   sample={"b": b, "side": side, "row": row})
        else:
            rep.violation("C12.R1", key, f"no row forces product {'<=' if side == 'upper' else '>='} binary*continuous when binary={b}: "
                          "values other than the product are admitted", f.loc())


# ------------------------------------------------------------------------------------------------ R2
class _PeelFloat(ast.NodeTransformer):
    """float(E) is E as a Python number (value-preserving for the quantities that size a bit expansion)"""

    def visit_Call(self, node):
        self.generic_visit(node)
        if dotted(node.func) == "float" and len(node.args) == 1 and not node.keywords:
            return node.args[0]
        return node


def bit_count_sufficient(n: ast.AST, depth=0) -> (Optional[bool], str):
    """n bits represent 0..2^n-1; need 2^n - 1 >= ub for integer values in [0, ub]."""
    if depth == 0:
        import copy as _copy
        n = _PeelFloat().visit(_copy.deepcopy(n))
    if depth == 0 and any(isinstance(x, ast.IfExp) and "integer_ub" in norm(x.test) for x in ast.walk(n)):
        # the sizing quantity is selected by `integer_ub is None`: ub in that case, integer_ub otherwise (the caller's bound of the integer
        # factor, checked at the call sites by V2); each case is judged with its own quantity standing for `ub`
        from rules.common import expr_cases

        class _Ren(ast.NodeTransformer):
            def visit_Name(self, node):
                return ast.copy_location(ast.Name(id="ub", ctx=node.ctx), node) if node.id == "integer_ub" else node
        verdicts = []
        for g_, x in expr_cases(n):
            x2 = _Ren().visit(ast.parse(norm(x), mode="eval").body)
            verdicts.append(bit_count_sufficient(x2, depth + 1))
        if any(v[0] is False for v in verdicts):
            return False, "; ".join(v[1] for v in verdicts if v[0] is False)
        if all(v[0] is True for v in verdicts):
            return True, " / ".join(v[1] for v in verdicts)
        return None, "a case of the conditional bit count is undecided: " + "; ".join(v[1] for v in verdicts if v[0] is None)
    if isinstance(n, ast.IfExp):
        rb, re_ = bit_count_sufficient(n.body, depth + 1), bit_count_sufficient(n.orelse, depth + 1)
        guarded_const = lambda e: isinstance(e, ast.Constant) and isinstance(e.value, int) and e.value >= 1 and "ub" in norm(n.test)
        res = []
        for e, r in ((n.body, rb), (n.orelse, re_)):
            if r[0] is None and guarded_const(e):
                res.append((True, f"{e.value} bit(s) for the small case `{norm(n.test)}`"))
            else:
                res.append(r)
        if any(r[0] is False for r in res):
            return False, "; ".join(r[1] for r in res if r[0] is False)
        if all(r[0] is True for r in res):
            return True, " / ".join(r[1] for r in res)
        return None, "conditional bit count with an undecided branch"
    if isinstance(n, ast.Call):
        fn = dotted(n.func) or ""
        if fn == "max" and not n.keywords:
            rs = [bit_count_sufficient(a, depth + 1) for a in n.args]
            if any(r[0] is True for r in rs):
                return True, "max(..., sufficient)"
            if all(r[0] is False or (isinstance(a, ast.Constant)) for r, a in zip(rs, n.args)):
                bad = [r[1] for r in rs if r[0] is False]
                return False, "; ".join(bad) or "constant bit count"
            return None, "max of undecided"
        if fn in ("ceil", "math.ceil") and len(n.args) == 1 and isinstance(n.args[0], ast.Call) and \
                (dotted(n.args[0].func) or "") in ("log2", "math.log2") and len(n.args[0].args) == 1:
            E = n.args[0].args[0]
            from rules.common import expr_cases
            cases = list(expr_cases(E))
            if len(cases) > 1:
                # the sizing quantity is selected by a condition: `integer_ub` where the caller gives the bound of the integer factor
                # (its obligation, checked at the call sites by V2), the product bound `ub` otherwise
                verdicts = []
                for g_, x in cases:
                    atom_ = "integer_ub" if "integer_ub" in norm(x) else "ub"
                    d_ = dominates(x, Poly.atom(atom_) + Poly.const(1), [atom_])
                    verdicts.append((d_, f"{norm(x)} >= {atom_}+1" if d_ else f"{norm(x)} vs {atom_}+1"))
                if all(v[0] is True for v in verdicts):
                    return True, "ceil(log2(E)) with " + " / ".join(v[1] for v in verdicts)
                if any(v[0] is False for v in verdicts):
                    return False, "; ".join(v[1] for v in verdicts if v[0] is False) + ": at a power of two the expansion is one bit short"
                return None, f"cannot compare the cases of {norm(E)} with their sizing quantity + 1"
            d = dominates(E, Poly.atom("ub") + Poly.const(1), ["ub"])
            if d is True:
                return True, f"ceil(log2({norm(E)})) with {norm(E)} >= ub+1"
            if d is False:
                return False, (f"ceil(log2({norm(E)})): {norm(E)} < ub+1 for every ub >= 1, so at ub = 2^m the expansion has m bits "
                               f"and cannot represent the value ub")
            return None, f"cannot compare {norm(E)} with ub+1"
        if fn == "int" and len(n.args) == 1:
            return bit_count_sufficient(n.args[0], depth + 1)
        if isinstance(n.func, ast.Attribute) and n.func.attr == "bit_length" and not n.args:
            inner = n.func.value
            if isinstance(inner, ast.Call) and dotted(inner.func) == "int" and len(inner.args) == 1:
                inner = inner.args[0]

            # the bound of an integer variable is integral: int(ceil(ub)), ceil(ub), int(ub) all denote ub in the case that decides
            class _Int(ast.NodeTransformer):
                def visit_Call(self, node):
                    node = self.generic_visit(node)
                    if (dotted(node.func) or "") in ("int", "ceil", "math.ceil", "round", "floor", "math.floor") and len(node.args) == 1 and not node.keywords:
                        return node.args[0]
                    return node
            import copy as _copy
            inner = _Int().visit(_copy.deepcopy(inner))
            d = dominates(inner, Poly.atom("ub"), ["ub"])
            if d is True:
                return True, f"int({norm(inner)}).bit_length() with {norm(inner)} >= ub"
            if d is False:
                return False, f"bit_length of {norm(inner)} < ub"
            return None, f"cannot compare {norm(inner)} with ub"
    if isinstance(n, ast.BinOp) and isinstance(n.op, ast.Add):
        # floor(log2(E)) + 1   (E >= ub, ub >= 1)
        for a, b in ((n.left, n.right), (n.right, n.left)):
            if isinstance(b, ast.Constant) and b.value == 1 and isinstance(a, ast.Call) and (dotted(a.func) or "") in ("floor", "math.floor", "int"):
                inner = a.args[0] if a.args else None
                if isinstance(inner, ast.Call) and (dotted(inner.func) or "") in ("log2", "math.log2"):
                    E = inner.args[0]
                    d = dominates(E, Poly.atom("ub"), ["ub"])
                    if d is True:
                        return True, f"floor(log2({norm(E)}))+1 with {norm(E)} >= ub"
                    if d is False:
                        return False, f"floor(log2({norm(E)}))+1 with {norm(E)} < ub"
    return None, f"unknown bit-count idiom `{norm(n)}`"


def r2(prog, rep):
    rep.rule("C12.R2", "integer*continuous helper: same bit expansion for factor and product, bits binary, enough bits", floor=5)
    f = prog.own_method("SolverWrapper", "add_integer_continuous_product_constraint")
    effs = extract(prog, f)
    defs = local_single_defs(f.node)
    names = set(HELPER_PARAMS) | {e.target for e in effs if e.kind == "add_variables" and e.target}
    can = [(e, canon_effect(e, names)) for e in effs]
    fam = {c["family"]: (e, c) for e, c in can if c["kind"] == "add_variables"}
    rows = [(e, c) for e, c in can if c["kind"] == "add_constraint"]
    helpers = [(e, c) for e, c in can if c["kind"] == "add_binary_continuous_product_constraint"]
    base = "integer_helper"
    # locate the two expansions
    exp_int = exp_prod = None
    for e, c in rows:
        nf: LinNF = c["_nf"]
        if nf.rel != "==" or nf.opaque:
            continue
        singles = [k for k in nf.terms if not k.startswith("SUM[")]
        sums = [k for k in nf.terms if k.startswith("SUM[")]
        if len(singles) == 1 and len(sums) == 1 and nf.const.is_zero():
            tgt = singles[0]
            if tgt == "integer_var":
                exp_int = (e, nf, sums[0])
            if tgt == "product_var":
                exp_prod = (e, nf, sums[0])
    if exp_int is None or exp_prod is None:
        rep.violation("C12.R2", f"{base}:expansions", "the rows `sum 2^j*bit_j == integer_var` and `sum 2^j*comp_j == product_var` are not both present", f.loc())
        return

    def parse_sum(key: str):
        m = re.match(r"^SUM\[(\w+) in (.*)\] (\w+)\[(\w+)\]$", key)
        return m.groups() if m else None
    pi, pp = parse_sum(exp_int[2]), parse_sum(exp_prod[2])
    if not pi or not pp:
        raise AnalysisError(f"cannot parse expansion terms {exp_int[2]} / {exp_prod[2]}")
    same_index = pi[1] == pp[1]
    wi, wp = exp_int[1].terms[exp_int[2]], exp_prod[1].terms[exp_prod[2]]
    si, sp = exp_int[1].terms["integer_var"], exp_prod[1].terms["product_var"]
    # weights must be 2**j with opposite sign to the target (sum == target)
    def weight_ok(w: Poly, s: Poly, var: str) -> bool:
        sv = s.const_value()
        if sv is None or sv == 0:
            return False
        return (w.scale(Fraction(-1) / sv)) == Poly.atom(f"2 ** {var}")
    ok_w = weight_ok(wi, si, pi[0]) and weight_ok(wp, sp, pp[0])
    if same_index and ok_w:
        rep.ok("C12.R2", f"{base}:expansions", f"integer_var = sum 2^j {pi[2]}[j], product_var = sum 2^j {pp[2]}[j] over the same index set `{pi[1]}`",
               f.loc(exp_int[0].node), sample={"int_row": exp_int[1].key(), "prod_row": exp_prod[1].key()})
    else:
        rep.violation("C12.R2", f"{base}:expansions", f"factor and product are not expanded with the same weights 2^j over the same index set "
                      f"(index sets `{pi[1]}` vs `{pp[1]}`, weights `{wi!r}` / `{wp!r}`)", f.loc(exp_int[0].node))
    bits_fam, comp_fam = pi[2], pp[2]
    # bits binary
    be = fam.get(bits_fam)
    if be and be[1].get("lb") == "0" and be[1].get("ub") == "1" and be[1].get("var_type") == "'integer'":
        rep.ok("C12.R2", f"{base}:bits-binary", f"{bits_fam} are integer in [0,1]", f.loc(be[0].node))
    else:
        rep.violation("C12.R2", f"{base}:bits-binary", f"bit variables `{bits_fam}` are not declared binary (lb=0, ub=1, integer)", f.loc())
    # one McCormick block per bit with same bounds
    link = [(e, c) for e, c in helpers if c.get("binary_var", "").startswith(bits_fam + "[") and c.get("product_var", "").startswith(comp_fam + "[")]
    good = False
    for e, c in link:
        idx_b = c["binary_var"][len(bits_fam):]
        idx_p = c["product_var"][len(comp_fam):]
        q_ok = any(pi[1] in q for q in c["quant"])
        if idx_b == idx_p and c.get("continuous_var") == "continuous_var" and c.get("lb") == "lb" and c.get("ub") == "ub" and q_ok:
            good = True
            rep.ok("C12.R2", f"{base}:per-bit-product", f"{comp_fam}[j] = {bits_fam}[j] * continuous_var for every j in `{pi[1]}` with the caller's lb, ub",
                   f.loc(e.node), sample=c if False else {"call": norm(e.node)[:160]})
    if not good:
        rep.violation("C12.R2", f"{base}:per-bit-product", f"no binary-helper call links {comp_fam}[j] to ({bits_fam}[j], continuous_var) with bounds (lb, ub) for every j of the index set",
                      f.loc())
    # comp vars bounds must contain [min(0,lb), max(0,ub)] - declared (lb, ub) accepted when lb == 0 is the documented precondition
    ce = fam.get(comp_fam)
    if ce and ce[1].get("ub") == "ub" and ce[1].get("lb") in ("lb", "0", "min(0, lb)"):
        rep.ok("C12.R2", f"{base}:comp-bounds", "per-bit products range over [lb, ub]", f.loc(ce[0].node))
    else:
        rep.violation("C12.R2", f"{base}:comp-bounds", f"per-bit product variables are declared with bounds ({ce[1].get('lb') if ce else '?'}, {ce[1].get('ub') if ce else '?'}) "
                      "instead of (lb, ub): admissible products are cut off or the relaxation is widened", f.loc())
    # bit count
    idx_expr = None
    if be:
        idx_expr = substitute_locals(be[0].args.get("indexes"), {}) if "indexes" in be[0].args else None
    n_expr = None
    if idx_expr is not None:
        e2 = idx_expr
        while isinstance(e2, ast.Call) and dotted(e2.func) in ("list", "tuple", "range") and e2.args:
            if dotted(e2.func) == "range":
                n_expr = e2.args[-1] if len(e2.args) == 1 else None
                break
            e2 = e2.args[0]
    if n_expr is None:
        raise AnalysisError(f"integer helper: cannot find the bit count in `{norm(idx_expr) if idx_expr is not None else '?'}`")
    ok, why = bit_count_sufficient(n_expr)
    if ok is True:
        rep.ok("C12.R2", f"{base}:bit-count", why, f.loc(be[0].node), sample={"bits": norm(n_expr), "argument": why})
    elif ok is False:
        rep.violation("C12.R2", f"{base}:bit-count", f"bit count `{norm(n_expr)}` is insufficient: {why}", f.loc(be[0].node))
    else:
        raise AnalysisError(f"integer helper: {why} (accepted idioms: ceil(log2(E)) with E >= ub+1, int(E).bit_length() with E >= ub, floor(log2(E))+1)")


# ------------------------------------------------------------------------------------------------ R3
def r3(prog, rep):
    rep.rule("C12.R3", "piecewise-constant helper: exactly one piece active, binary selectors, big-M dominates what it relaxes", floor=6)
    f = prog.own_method("SolverWrapper", "add_piecewise_constant_constraint")
    effs = extract(prog, f)
    names = set(HELPER_PARAMS) | {e.target for e in effs if e.kind == "add_variables" and e.target}
    can = [(e, canon_effect(e, names)) for e in effs]
    base = "piecewise_helper"
    zf = [(e, c) for e, c in can if c["kind"] == "add_variables"]
    if len(zf) != 1:
        raise AnalysisError("piecewise helper: expected exactly one selector family")
    zname = zf[0][1]["family"]
    zc = zf[0][1]
    if zc.get("lb") == "0" and zc.get("ub") == "1" and zc.get("var_type") == "'integer'":
        rep.ok("C12.R3", f"{base}:selectors-binary", f"{zname} binary", f.loc(zf[0][0].node))
    else:
        rep.violation("C12.R3", f"{base}:selectors-binary", "piece selectors are not declared binary", f.loc(zf[0][0].node))
    rows = [(e, c["_nf"], c) for e, c in can if c["kind"] == "add_constraint"]
    onehot = [r for r in rows if r[1].rel == "==" and len(r[1].terms) == 1 and list(r[1].terms)[0].startswith("SUM[") and
              f" {zname}[" in list(r[1].terms)[0]]
    ok1 = False
    for e, nf, c in onehot:
        k = list(nf.terms)[0]
        coef = nf.terms[k].const_value()
        cst = nf.const.const_value()
        # ... over the whole index set of the selector family (the same canonical domain text)
        idx = zc.get("indexes", "")
        idx = idx[5:-1] if idx.startswith("list(") and idx.endswith(")") else idx
        m_dom = re.match(r"SUM\[\w+ in (.*?)\] " + re.escape(zname) + r"\[\w+\]$", k)
        if coef is not None and cst is not None and coef != 0 and -cst / coef == 1 and m_dom and m_dom.group(1) == idx and idx.startswith("range(len("):
            ok1 = True
            rep.ok("C12.R3", f"{base}:one-hot", "sum of selectors == 1 over all pieces", f.loc(e.node), sample={"row": nf.key()})
    if not ok1:
        rep.violation("C12.R3", f"{base}:one-hot", "no row forces exactly one piece to be active (sum_i z_i == 1 over all pieces)", f.loc())
    # big-M rows: v*s + z*(-M) + (M + t) >= 0, v in {x, y}
    spread = {"x": None, "y": None}
    found = {("x", 1): None, ("x", -1): None, ("y", 1): None, ("y", -1): None}
    for e, nf, c in rows:
        vs = [k for k in nf.terms if k in ("x", "y")]
        zs = [k for k in nf.terms if k.startswith(zname + "[")]
        if len(vs) != 1 or len(zs) != 1 or nf.rel != ">=":
            continue
        v = vs[0]
        s = nf.terms[v].const_value()
        if s not in (1, -1):
            continue
        M = -nf.terms[zs[0]]
        rest = nf.const - M          # = -L_i (s=+1) / U_i (s=-1) / -+c_i
        found[(v, int(s))] = (e, M, rest, c)
    U = "max([{b}[1] for {b} in ranges])"
    for (v, s), hit in sorted(found.items()):
        key = f"{base}:row:{v}:{'lower' if s == 1 else 'upper'}"
        if hit is None:
            rep.violation("C12.R3", key, f"no big-M row bounds `{v}` from {'below' if s == 1 else 'above'} for the active piece", f.loc())
            continue
        e, M, rest, c = hit
        atoms = sorted(M.atoms())
        if v == "x":
            mx = [a for a in atoms if a.startswith("max(")]
            mn = [a for a in atoms if a.startswith("min(")]
            okM = len(mx) == 1 and len(mn) == 1 and len(atoms) == 2 and "[1]" in mx[0] and "[0]" in mn[0] and "ranges" in mx[0] and "ranges" in mn[0]
            cmax = M.coeff((mx[0],)) if okM else 0
            cmin = M.coeff((mn[0],)) if okM else 0
            okM = okM and cmax >= 1 and cmin == -cmax
            what = "max U - min L"
        else:
            mx = [a for a in atoms if a.startswith("max(")]
            mn = [a for a in atoms if a.startswith("min(")]
            okM = len(mx) == 1 and len(mn) == 1 and len(atoms) == 2 and "constants" in mx[0] and "constants" in mn[0] and "ranges" not in mx[0] + mn[0]
            cmax = M.coeff((mx[0],)) if okM else 0
            cmin = M.coeff((mn[0],)) if okM else 0
            okM = okM and cmax >= 1 and cmin == -cmax
            what = "max c - min c"
        if okM:
            rep.ok("C12.R3", key, f"big-M = {cmax}*({what}) >= {what}", f.loc(e.node), sample={"row": norm(e.args["expr"]), "M": repr(M)})
        else:
            rep.violation("C12.R3", key, f"the big-M `{M!r}` of row `{norm(e.args['expr'])}` is not a multiple (>= 1) of {what}: an inactive piece "
                          f"can cut off the value of `{v}` that the active piece requires", f.loc(e.node))


# ------------------------------------------------------------------------------------------------ R4
def helper_coefficients_converted(prog, rep, RID):
    """The binary-times-continuous helper multiplies solver variables by its bounds lb / ub.  Bounds of every numeric type are accepted for variables
    (R7), so the helper must turn them into Python floats before they become coefficients: np.longdouble, Fraction and Decimal are refused by the solver's
    expression classes (bare Exception('Unexpected parameters.'))."""
    f = prog.own_method("SolverWrapper", "add_binary_continuous_product_constraint")
    params = [p for p in f.params if p in ("lb", "ub")]
    if len(params) != 2:
        raise AnalysisError("add_binary_continuous_product_constraint: parameters lb / ub not found")
    rebound = {}
    for st in walk_no_nested(f.node):
        if isinstance(st, ast.Assign) and len(st.targets) == 1:
            t, v = st.targets[0], st.value
            pairs = list(zip(t.elts, v.elts)) if isinstance(t, ast.Tuple) and isinstance(v, ast.Tuple) and len(t.elts) == len(v.elts) else [(t, v)]
            for tt, vv in pairs:
                if isinstance(tt, ast.Name) and tt.id in params and isinstance(vv, ast.Call) and dotted(vv.func) == "float" and len(vv.args) == 1 and norm(vv.args[0]) == tt.id:
                    rebound[tt.id] = st.lineno
    n = 0
    for node in ast.walk(f.node):
        if isinstance(node, ast.BinOp) and isinstance(node.op, ast.Mult):
            for o in (node.left, node.right):
                if isinstance(o, ast.Name) and o.id in params:
                    n += 1
                    key = f"SolverWrapper.add_binary_continuous_product_constraint:{o.id}-as-coefficient"
                    if o.id in rebound and rebound[o.id] < node.lineno:
                        rep.ok(RID, key, f"`{o.id}` is a Python float where it multiplies a variable", f.loc(node))
                    else:
                        rep.violation(RID, key, f"`{norm(node)[:60]}` multiplies a solver variable by the bound `{o.id}` as it came: scalar bounds of every numeric type are accepted for "
                                      "variables, but as a coefficient np.longdouble / Fraction / Decimal raise a bare Exception('Unexpected parameters.') - MinGenSet with such a "
                                      "total, MinFlowDecomp(.Cycles) with use_min_gen_set_lowerbound=True on such flow values", f.loc(node))
    if n == 0:
        # float(lb) * var written in place
        if not any(isinstance(c, ast.Call) and dotted(c.func) == "float" and c.args and norm(c.args[0]) in params for c in ast.walk(f.node)):
            raise AnalysisError("add_binary_continuous_product_constraint: no use of lb / ub as coefficient found")
        rep.ok(RID, "SolverWrapper.add_binary_continuous_product_constraint:bounds-as-coefficient", "bounds are converted where they are used", f.loc())


def r4(prog, rep):
    rep.rule("C12.R4", "objective replacement: install dominated by a reset of all costs; offset set on the same path", floor=2)
    f = prog.own_method("HighsCustom", "set_objective_without_solving")

    class F(Flow):
        def __init__(s):
            s.events = []

        def initial(s, func):
            return frozenset([frozenset()])          # set of per-path fact sets (path-sensitive)

        def join(s, a, b):
            return a | b

        def _calls(s, expr, state):
            for c in [n for n in ast.walk(expr) if isinstance(n, ast.Call)]:
                fn = c.func.attr if isinstance(c.func, ast.Attribute) else (c.func.id if isinstance(c.func, ast.Name) else "")
                if fn == "changeColsCost" and len(c.args) == 3:
                    n_arg, idx_arg, val_arg = c.args
                    is_reset = norm(n_arg) == "self.numVariables" and "arange(self.numVariables" in norm(idx_arg) and \
                        re.search(r"full\(self\.numVariables, 0(\.0)?\b|zeros\(self\.numVariables", norm(val_arg)) is not None
                    if is_reset:
                        state = frozenset(w | {"reset"} for w in state)
                    else:
                        s.events.append(("install", c, state))
                        state = frozenset(w | {"installed"} for w in state)
                if fn == "changeObjectiveOffset":
                    state = frozenset(w | {"offset"} for w in state)
            return state

        def transfer(s, stmt, state):
            for fld in ("value", "test"):
                v = getattr(stmt, fld, None)
                if isinstance(v, ast.AST):
                    state = s._calls(v, state)
            return state

        def refine(s, test, pol, state):
            return s._calls(test, state)

        def on_fallthrough(s, func, state):
            s.events.append(("exit", func, state))

        def on_return(s, stmt, state):
            s.events.append(("exit", stmt, state))
    fl = F()
    fl.run(f.node)
    installs = [e for e in fl.events if e[0] == "install"]
    if not installs:
        raise AnalysisError("set_objective_without_solving: no install of new coefficients found")
    for _, call, state in installs:
        key = "HighsCustom.set_objective_without_solving:install"
        if all("reset" in w for w in state):
            rep.ok("C12.R4", key, "new coefficients installed only after all costs were reset to 0", f.loc(call))
        else:
            rep.violation("C12.R4", key, "the new objective coefficients are installed without resetting all previous costs to 0: "
                          "variables of the old objective that are absent from the new one keep their cost", f.loc(call))
    for _, node, state in [e for e in fl.events if e[0] == "exit"]:
        ws = [w for w in state if "installed" in w]
        if ws:
            key = "HighsCustom.set_objective_without_solving:offset"
            if all("offset" in w for w in ws):
                rep.ok("C12.R4", key, "objective offset (re)set together with the coefficients", f.loc())
            else:
                rep.violation("C12.R4", key, "coefficients are replaced but the objective offset of the previous objective is kept", f.loc())


# ------------------------------------------------------------------------------------------------ R5
def stub_has_method(name: str) -> Optional[bool]:
    for base in ("/venv/lib/python3.12/site-packages/highspy",):
        for fn in ("_core/__init__.pyi", "_core.pyi", "highs.py"):
            p = os.path.join(base, fn)
            if os.path.exists(p):
                try:
                    src = open(p, encoding="utf-8").read()
                except OSError:
                    continue
                if re.search(r"def\s+%s\s*\(" % re.escape(name), src):
                    return True
    if os.path.exists("/venv/lib/python3.12/site-packages/highspy/_core/__init__.pyi"):
        return False
    return None


def r5(prog, rep):
    rep.rule("C12.R5", "queued bound updates: exact per backend, queues cleared on every exit", floor=5)
    f = prog.own_method("SolverWrapper", "_apply_pending_bound_updates")
    defs: Dict[str, ast.AST] = {}
    unpack: Dict[str, Tuple[ast.Call, int]] = {}
    for n in walk_no_nested(f.node):
        if isinstance(n, ast.Assign) and len(n.targets) == 1:
            t = n.targets[0]
            if isinstance(t, ast.Name):
                defs.setdefault(t.id, n.value)
            elif isinstance(t, ast.Tuple) and isinstance(n.value, ast.Call):
                for i, el in enumerate(t.elts):
                    if isinstance(el, ast.Name):
                        unpack[el.id] = (n.value, i)

    def root(e: ast.AST, depth=0) -> str:
        """follow .astype()/np.array()/local names down to self attribute or unpacked tuple element"""
        if depth > 6:
            return norm(e)
        if isinstance(e, ast.Name):
            if e.id in unpack:
                call, i = unpack[e.id]
                return f"{norm(call.func)}()[{i}]"
            if e.id in defs:
                return root(defs[e.id], depth + 1)
            return e.id
        if isinstance(e, ast.Call):
            fn = dotted(e.func) or ""
            if isinstance(e.func, ast.Attribute) and e.func.attr in ("astype", "copy"):
                return root(e.func.value, depth + 1)
            if fn.split(".")[-1] in ("array", "asarray", "list", "float") and e.args:
                return root(e.args[0], depth + 1)
        return norm(e)

    def reaches(e: ast.AST, depth=0, seen=None, line=None) -> Set[str]:
        """self attributes an expression's value derives from: def-use closure over locals (including collections filled by item
        stores and names bound by `for ... in zip(a, b)`), following for every name the last plain assignment before the use"""
        seen = set() if seen is None else seen
        line = getattr(e, "lineno", 10 ** 9) if line is None else line
        out: Set[str] = set()
        for n in ast.walk(e):
            d = dotted(n) if isinstance(n, ast.Attribute) else None
            if d and d.startswith("self._pending"):
                out.add(d)
            if isinstance(n, ast.Name) and (n.id, line) not in seen and depth < 8:
                seen.add((n.id, line))
                plain = [st for st in walk_no_nested(f.node) if isinstance(st, ast.Assign) and st.lineno < line and
                         any(isinstance(t, ast.Name) and t.id == n.id or isinstance(t, ast.Tuple) and any(isinstance(x, ast.Name) and x.id == n.id for x in ast.walk(t))
                             for t in st.targets)]
                last = max(plain, key=lambda st: st.lineno) if plain else None
                floor_ = last.lineno if last is not None else 0
                if last is not None:
                    out |= reaches(last.value, depth + 1, seen, last.lineno)
                for st in walk_no_nested(f.node):
                    if isinstance(st, ast.Assign) and floor_ < st.lineno < line:
                        for t in st.targets:
                            base = t
                            while isinstance(base, ast.Subscript):
                                base = base.value
                            if isinstance(t, ast.Subscript) and isinstance(base, ast.Name) and base.id == n.id:
                                out |= reaches(st.value, depth + 1, seen, st.lineno)
                                out |= reaches(t.slice, depth + 1, seen, st.lineno)
                    elif isinstance(st, ast.For) and st.lineno < line:
                        if n.id in {x.id for x in ast.walk(st.target) if isinstance(x, ast.Name)}:
                            out |= reaches(st.iter, depth + 1, seen, st.lineno)
        return out

    calls = list(calls_in(f.node))
    ccb = [c for c in calls if isinstance(c.func, ast.Attribute) and c.func.attr == "changeColsBounds"]
    n_ok = 0

    def last_def_(name: str, before: int) -> Optional[ast.AST]:
        best = None
        for st in walk_no_nested(f.node):
            if isinstance(st, ast.Assign) and len(st.targets) == 1 and isinstance(st.targets[0], ast.Name) and st.targets[0].id == name and st.lineno < before:
                if best is None or st.lineno > best.lineno:
                    best = st
        return best.value if best is not None else None

    def duplicate_free(e: ast.AST, before: int, depth=0) -> Optional[bool]:
        """Is the index array built from the keys of a dict / a set (sorted(d), np.unique(...)) - or from a plain list of the queue (duplicates possible)?"""
        if isinstance(e, ast.Name) and depth < 4:
            d_ = last_def_(e.id, before)
            return duplicate_free(d_, before, depth + 1) if d_ is not None else None
        if isinstance(e, ast.Call):
            fn = (dotted(e.func) or "").split(".")[-1]
            if fn in ("array", "asarray", "list", "tuple") and e.args:
                return duplicate_free(e.args[0], before, depth + 1)
            if fn == "unique":
                return True
            if fn == "sorted" and e.args:
                a = e.args[0]
                if isinstance(a, ast.Name):
                    d_ = last_def_(a.id, before)
                    if isinstance(d_, (ast.Dict, ast.Set)) or (isinstance(d_, ast.Call) and dotted(d_.func) in ("dict", "set")) or isinstance(d_, (ast.DictComp, ast.SetComp)):
                        return True
                if isinstance(a, (ast.SetComp, ast.DictComp)) or (isinstance(a, ast.Call) and dotted(a.func) in ("set", "dict")):
                    return True
                return False
        if isinstance(e, (ast.ListComp, ast.List)):
            return False
        return None

    def status_checked(c: ast.Call) -> bool:
        for st in walk_no_nested(f.node):
            if isinstance(st, ast.Assign) and st.value is c and len(st.targets) == 1 and isinstance(st.targets[0], ast.Name):
                nm = st.targets[0].id
                for other in walk_no_nested(f.node):
                    if isinstance(other, ast.If) and any(isinstance(b, ast.Raise) for b in other.body) and \
                            any(isinstance(x, ast.Name) and x.id == nm for x in ast.walk(other.test)):
                        return True
        return False

    def core(e: ast.AST, before: int, depth=0):
        """follow a name to its last definition and strip array constructors: np.array(X, ...) / np.asarray / np.fromiter / list / tuple -> X"""
        while depth < 6:
            depth += 1
            if isinstance(e, ast.Name):
                d_ = last_def_(e.id, before)
                if d_ is None:
                    return e
                e = d_
                continue
            if isinstance(e, ast.Call) and (dotted(e.func) or "").split(".")[-1] in ("array", "asarray", "fromiter", "list", "tuple") and e.args:
                e = e.args[0]
                continue
            break
        return e

    def aligned_rule(c: ast.Call, idx_arg: ast.AST, val_arg: ast.AST, what: str):
        """The i-th value handed to HiGHS belongs to the i-th column index: when the index array is sorted(D) of a dict D (column -> value), the
        values are read from D *through the same index sequence* ([D[i] for i in idxs]); D.values() is in insertion order, not in sorted order."""
        key = f"SolverWrapper._apply_pending_bound_updates:highs:{what}-aligned"
        ic, vc = core(idx_arg, c.lineno), core(val_arg, c.lineno)
        # the two parallel queues themselves: [v.index for v in self._pending_X_vars] with self._pending_X_vals
        if isinstance(ic, ast.ListComp) and len(ic.generators) == 1 and not ic.generators[0].ifs and norm(ic.elt) == f"{norm(ic.generators[0].target)}.index" and \
                norm(ic.generators[0].iter).endswith("_vars") and norm(vc) == norm(ic.generators[0].iter)[:-5] + "_vals":
            rep.ok("C12.R5", key, f"indices and values are the two parallel queues `{norm(ic.generators[0].iter)}` / `{norm(vc)}`", f.loc(c))
            return
        if not (isinstance(ic, ast.Call) and dotted(ic.func) == "sorted" and ic.args and isinstance(ic.args[0], ast.Name)):
            if isinstance(ic, ast.Call) and isinstance(ic.func, ast.Attribute) and ic.func.attr == "keys" and isinstance(vc, ast.Call) and \
                    isinstance(vc.func, ast.Attribute) and vc.func.attr == "values" and norm(ic.func.value) == norm(vc.func.value):
                rep.ok("C12.R5", key, f"indices and values are the keys() and values() of the same dict `{norm(ic.func.value)}` (same order)", f.loc(c))
                return
            raise AnalysisError(f"_apply_pending_bound_updates: cannot tell how the index array `{norm(idx_arg)}` of the {what} queue is ordered")
        D = ic.args[0].id
        if isinstance(vc, (ast.ListComp, ast.GeneratorExp)) and len(vc.generators) == 1 and not vc.generators[0].ifs and isinstance(vc.generators[0].target, ast.Name):
            g = vc.generators[0]
            over = core(g.iter, c.lineno)
            same_seq = norm(g.iter) == norm(idx_arg) or norm(over) == norm(ic)
            elt_ok = isinstance(vc.elt, ast.Subscript) and norm(vc.elt.value) == D and norm(vc.elt.slice) == g.target.id
            if same_seq and elt_ok:
                rep.ok("C12.R5", key, f"values are read from `{D}` through the index array itself (`{norm(vc)[:60]}`)", f.loc(c))
                return
            if elt_ok and not same_seq:
                rep.violation("C12.R5", key, f"the values `{norm(vc)[:70]}` run over `{norm(g.iter)}`, the column indices over `{norm(ic)}`: the i-th value does not belong to the "
                              "i-th column", f.loc(c))
                return
        if any(isinstance(n, ast.Call) and isinstance(n.func, ast.Attribute) and n.func.attr == "values" and norm(n.func.value) == D for n in ast.walk(vc)):
            rep.violation("C12.R5", key, f"the column indices are `{norm(ic)}` (increasing) but the values are `{norm(vc)[:60]}` (insertion order of the dict): whenever variables "
                          "are queued in another order than their column indices, each queued value is written to a different column (fix x[2]=5 then x[1]=7: x[1] fixed to 5, "
                          "x[2] to 7)", f.loc(c))
            return
        raise AnalysisError(f"_apply_pending_bound_updates: cannot tell whether the values `{norm(val_arg)}` of the {what} queue are aligned with `{norm(idx_arg)}`")

    for c in ccb:
        if len(c.args) != 4:
            raise AnalysisError("changeColsBounds call without 4 positional arguments")
        lo_src, up_src = reaches(c.args[2]), reaches(c.args[3])
        up = root(c.args[3])
        if "self._pending_lb_vals" in lo_src or "self._pending_lb_vals" in up_src:
            key = "SolverWrapper._apply_pending_bound_updates:highs:lower-bound"
            want = f"self.solver.getCols()[{GETCOLS_ORDER.index('upper')}]"
            if "self._pending_lb_vals" in lo_src and up == want:
                rep.ok("C12.R5", key, "lower-bound queue: new lower from the requested values, upper = current upper (element 4 = `upper` of Highs.getCols)",
                       f.loc(c), sample={"call": norm(c), "upper_from": up, "contract": GETCOLS_ORDER})
            else:
                m = re.match(r"self\.solver\.getCols\(\)\[(\d)\]", up)
                what = f"element {m.group(1)} = `{GETCOLS_ORDER[int(m.group(1))]}`" if m and int(m.group(1)) < 6 else f"`{up}`"
                rep.violation("C12.R5", key, f"lower-bound queue passes {what} of Highs.getCols (contract: {', '.join(GETCOLS_ORDER)}) as the new upper "
                              f"bound and `{norm(c.args[2])}` as lower: the upper bound of the variable is not preserved", f.loc(c))
            n_ok += 1
        elif "self._pending_fix_vals" in lo_src or "self._pending_fix_vals" in up_src:
            key = "SolverWrapper._apply_pending_bound_updates:highs:fix"
            if norm(c.args[2]) == norm(c.args[3]) and "self._pending_fix_vals" in lo_src and "self._pending_lb_vals" not in lo_src:
                rep.ok("C12.R5", key, "fix queue: lower = upper = requested value", f.loc(c), sample={"call": norm(c)})
            else:
                rep.violation("C12.R5", key, f"fix queue writes lower from `{norm(c.args[2])}` and upper from `{norm(c.args[3])}` (must both be the queued values)", f.loc(c))
            n_ok += 1
            aligned_rule(c, c.args[1], c.args[2], "fix")
            # Highs.changeColsBounds(num, set, ...): a set with duplicate entries is rejected as a whole (nothing is changed)
            keyd = "SolverWrapper._apply_pending_bound_updates:highs:fix-index-set"
            df = duplicate_free(c.args[1], c.lineno)
            if df is True and status_checked(c):
                rep.ok("C12.R5", keyd, "fix queue: one entry per column (dict keys, sorted) and the returned status is checked", f.loc(c))
            elif df is False:
                rep.violation("C12.R5", keyd, f"the index set `{norm(c.args[1])}` of the fix queue is built from the queue itself, so a variable queued twice appears "
                              "twice: HiGHS rejects a set with duplicates and changes nothing, and every fix of the batch is lost", f.loc(c))
            elif df is True:
                rep.violation("C12.R5", keyd, "the status returned by Highs.changeColsBounds for the queued fixes is discarded: a rejected batch is lost silently", f.loc(c))
            else:
                raise AnalysisError(f"_apply_pending_bound_updates: cannot tell how the index set `{norm(c.args[1])}` of the fix queue is built")
    # a variable fixed in the same batch keeps its fixed value as lower bound: the lower bounds written derive from both queues
    lb_writes = [c for c in calls if isinstance(c.func, ast.Attribute) and c.func.attr in ("changeColsLower", "changeColsBounds")
                 and len(c.args) >= 3 and "self._pending_lb_vals" in reaches(c.args[2])]
    for c in lb_writes:
        aligned_rule(c, c.args[1], c.args[2], "lower-bound")
    keyi = "SolverWrapper._apply_pending_bound_updates:highs:fix-then-lower-bound"
    if lb_writes:
        if all("self._pending_fix_vals" in reaches(c.args[2]) for c in lb_writes):
            rep.ok("C12.R5", keyi, "the lower bound written for a column takes the value fixed in the same batch into account (max)", f.loc(lb_writes[0]))
        else:
            rep.violation("C12.R5", keyi, "fixes are applied before lower bounds whatever the request order, and the lower-bound step writes the queued value alone: "
                          "queue_set_var_lower_bound(x, 2) with queue_fix_variable(x, 5) in one batch leaves x in [2, 5] (the fix is released)", f.loc(lb_writes[0]))
    # contract of Highs.getCols(num_set_entries, set): `set` must be strictly increasing, otherwise the call returns an error status
    # and zero-filled arrays; the status / number of returned columns must be looked at before the arrays are used
    for gc in [c for c in calls if isinstance(c.func, ast.Attribute) and c.func.attr == "getCols"]:
        key = "SolverWrapper._apply_pending_bound_updates:highs:getCols-contract"
        idx_arg = gc.args[1] if len(gc.args) > 1 else None
        if idx_arg is None:
            raise AnalysisError("getCols call without an index set")

        def last_def(name: str, before: int) -> Optional[ast.AST]:
            best = None
            for st in walk_no_nested(f.node):
                if isinstance(st, ast.Assign) and len(st.targets) == 1 and isinstance(st.targets[0], ast.Name) and st.targets[0].id == name and st.lineno < before:
                    if best is None or st.lineno > best.lineno:
                        best = st
            return best.value if best is not None else None

        def sorted_origin(e: ast.AST, depth=0, before=gc.lineno) -> bool:
            for n in ast.walk(e):
                if isinstance(n, ast.Call) and (dotted(n.func) or "").split(".")[-1] in ("sorted", "sort", "unique", "arange", "range"):
                    return True
            if depth < 4:
                for n in ast.walk(e):
                    if isinstance(n, ast.Name):
                        d_ = last_def(n.id, before)
                        if d_ is not None and sorted_origin(d_, depth + 1, before):
                            return True
            return False
        checked = False
        for n in walk_no_nested(f.node):
            if isinstance(n, ast.If) and any(isinstance(b, ast.Raise) for b in n.body):
                for x in ast.walk(n.test):
                    if isinstance(x, ast.Name) and x.id in unpack and unpack[x.id][0] is gc and unpack[x.id][1] in (0, 1):
                        checked = True
        if sorted_origin(idx_arg) and checked:
            rep.ok("C12.R5", key, "columns are read for a sorted index set and the number of returned columns / status is checked before use", f.loc(gc))
        else:
            rep.violation("C12.R5", key, ("the index set passed to Highs.getCols is in queue order (not sorted): HiGHS returns an error and zero-filled arrays for a "
                                          "non-increasing set, which are then written back as upper bounds" if not sorted_origin(idx_arg) else
                                          "the status / number of columns returned by Highs.getCols is never looked at before its arrays are used"), f.loc(gc))
    ccl = [c for c in calls if isinstance(c.func, ast.Attribute) and c.func.attr == "changeColsLower"]
    has = stub_has_method("changeColsLower")
    rep.extra["highspy_stub_changeColsLower"] = has
    if ccl and has is not True and not any("lower-bound" in k[1] for k in rep.keys_seen if k[0] == "C12.R5"):
        rep.violation("C12.R5", "SolverWrapper._apply_pending_bound_updates:highs:lower-bound", "the lower-bound queue relies only on Highs.changeColsLower, "
                      "which the installed binding does not provide", f.loc(ccl[0]))
    if n_ok < 2 and not ccl:
        raise AnalysisError("_apply_pending_bound_updates: HiGHS fix / lower-bound updates not found")
    # gurobi
    sa = [c for c in calls if isinstance(c.func, ast.Attribute) and c.func.attr == "setAttr" and len(c.args) == 3]
    fix_attrs, lb_attrs = set(), set()
    lb_interplay = True
    for c in sa:
        attr = norm(c.args[0]).split(".")[-1]
        src = reaches(c.args[2])
        if "self._pending_lb_vals" in src:
            lb_attrs.add(attr)
            if "self._pending_fix_vals" not in src:
                lb_interplay = False
        elif "self._pending_fix_vals" in src:
            fix_attrs.add(attr)
    if fix_attrs == {"LB", "UB"}:
        rep.ok("C12.R5", "SolverWrapper._apply_pending_bound_updates:gurobi:fix", "LB and UB set to the queued values", f.loc())
    else:
        rep.violation("C12.R5", "SolverWrapper._apply_pending_bound_updates:gurobi:fix", f"Gurobi fix queue sets {sorted(fix_attrs)} (must set LB and UB)", f.loc())
    if lb_attrs == {"LB"} and lb_interplay:
        rep.ok("C12.R5", "SolverWrapper._apply_pending_bound_updates:gurobi:lower-bound", "only LB set from the lower-bound queue, not below a value fixed in the same batch", f.loc())
    elif lb_attrs == {"LB"}:
        rep.violation("C12.R5", "SolverWrapper._apply_pending_bound_updates:gurobi:lower-bound", "the Gurobi lower-bound step writes the queued value alone after the fixes: "
                      "a smaller lower bound releases a variable fixed in the same batch", f.loc())
    else:
        rep.violation("C12.R5", "SolverWrapper._apply_pending_bound_updates:gurobi:lower-bound", f"Gurobi lower-bound queue sets {sorted(lb_attrs)} (must set LB only)", f.loc())
    # queues cleared in a finally block
    cleared = set()
    for n in walk_no_nested(f.node):
        if isinstance(n, ast.Try):
            for s in n.finalbody:
                for c in calls_in(s):
                    if isinstance(c.func, ast.Attribute) and c.func.attr == "clear":
                        cleared.add(dotted(c.func.value))
    need = {"self._pending_fix_vars", "self._pending_fix_vals", "self._pending_lb_vars", "self._pending_lb_vals"}
    if need <= cleared:
        rep.ok("C12.R5", "SolverWrapper._apply_pending_bound_updates:queues-cleared", "all four queues cleared in `finally`", f.loc())
    else:
        rep.violation("C12.R5", "SolverWrapper._apply_pending_bound_updates:queues-cleared",
                      f"queues not cleared on every exit: {sorted(need - cleared)} would be applied again before the next optimize()", f.loc())
    apply_before_run(prog, rep, "C12.R5")
    solution_caches_reset(prog, rep, "C12.R5")
    return


def solution_caches_reset(prog, rep, RID: str):
    """An attribute of the wrapper that memoises values read from the solver's solution must be invalidated after *every*
    solver run (on every path of optimize() from the run to the exit): otherwise a second solve of the same wrapper hands out
    the values of the first."""
    from sa.flow import Flow
    cls = prog.cls("SolverWrapper")
    caches = {}
    for m in cls.methods.values():
        if m.name in ("__init__", "optimize"):
            continue
        guards = {dotted(t.left) for t in ast.walk(m.node) if isinstance(t, ast.Compare) and len(t.ops) == 1 and isinstance(t.ops[0], (ast.Is, ast.IsNot)) and
                  isinstance(t.comparators[0], ast.Constant) and t.comparators[0].value is None and (dotted(t.left) or "").startswith("self.")}
        for st in walk_no_nested(m.node):
            if isinstance(st, ast.Assign) and len(st.targets) == 1 and (dotted(st.targets[0]) or "").startswith("self.") and dotted(st.targets[0]) in guards:
                if any(isinstance(c, ast.Call) and (dotted(c.func) or "").startswith("self.solver.") for c in ast.walk(st.value)) or \
                        any(isinstance(c, ast.Call) and re.search(r"getSolution|col_value|allVariableValues|getVars|\.X\b", norm(c)) for c in ast.walk(st.value)):
                    caches[dotted(st.targets[0])] = m
    key0 = "SolverWrapper:solution-caches"
    if not caches:
        rep.ok(RID, key0, "the wrapper keeps no memo of solution values (every read goes to the solver)", cls.methods["optimize"].loc(), nontrivial=False)
        return
    g = prog.own_method("SolverWrapper", "optimize")

    def run_sites(node):
        out = []
        for n in ast.walk(node):
            if isinstance(n, ast.Call) and (dotted(n.func) == "self.solver.optimize" or
                                            any(dotted(a) == "self.solver.optimize" for a in list(n.args) + [k.value for k in n.keywords])):
                out.append(n)
        return out

    for attr, owner in sorted(caches.items()):
        class MustReset(Flow):
            def __init__(self):
                self.bad = []

            def initial(self, func):
                return frozenset([False])

            def join(self, a, b):
                return a | b

            def transfer(self, stmt, state):
                if state is None:
                    return state
                if any(run_sites(v) for v in [getattr(stmt, f_, None) for f_ in ("value", "test", "iter")] if isinstance(v, ast.AST)):
                    state = frozenset([True])
                if isinstance(stmt, ast.Assign) and any(dotted(t) == attr for t in stmt.targets):
                    state = frozenset([False])
                return state

            def refine(self, test, pol, state):
                if state is not None and run_sites(test):
                    return frozenset([True])
                return state

            def on_return(self, stmt, state):
                if state is not None and True in state and self.quiet == 0:
                    self.bad.append(stmt)

            def on_fallthrough(self, func, state):
                if state is not None and True in state and self.quiet == 0:
                    self.bad.append(func)
        fl = MustReset()
        fl.run(g.node)
        key = f"SolverWrapper.optimize:reset({attr})"
        if fl.bad:
            rep.violation(RID, key, f"`{attr}` (memo of solution values filled in {owner.qualname}) is not invalidated on some path of optimize() after the solver ran: "
                          "a later read returns the values of an earlier solve (wrong values, or IndexError after variables were added)", g.loc(fl.bad[0]) if hasattr(fl.bad[0], "lineno") else g.loc())
        else:
            rep.ok(RID, key, f"`{attr}` is invalidated after the solver run on every path of optimize()", g.loc())


def apply_before_run(prog, rep, RID: str):
    """On every path of SolverWrapper.optimize that starts a solver run - a call of self.solver.optimize(), or the bound method
    handed to _run_with_timeout - the queued bound updates were applied before (must-call dataflow over all paths)."""
    from sa.flow import Flow
    g = prog.own_method("SolverWrapper", "optimize")

    def is_apply(n):
        return isinstance(n, ast.Call) and dotted(n.func) == "self._apply_pending_bound_updates"

    def run_sites(node):
        out = []
        for n in ast.walk(node):
            if isinstance(n, ast.Call) and dotted(n.func) == "self.solver.optimize":
                out.append(n)
            elif isinstance(n, ast.Call) and any(dotted(a) == "self.solver.optimize" for a in list(n.args) + [k.value for k in n.keywords]):
                out.append(n)
        return out

    class MustApply(Flow):
        def __init__(self):
            self.bad = []
            self.sites = 0

        def initial(self, func):
            return frozenset([False])

        def join(self, a, b):
            return a | b

        def _expr(self, e, state):
            if e is None or state is None:
                return state
            # evaluation order inside one expression: an apply call textually before the run in the same statement counts
            events = sorted([(n.lineno, n.col_offset, "apply") for n in ast.walk(e) if is_apply(n)] +
                            [(n.lineno, n.col_offset, n) for n in run_sites(e)], key=lambda t: (t[0], t[1]))
            for ln, col, what in events:
                if what == "apply":
                    state = frozenset([True])
                else:
                    if self.quiet == 0:
                        self.sites += 1
                        if False in state:
                            self.bad.append(what)
            return state

        def transfer(self, stmt, state):
            for fld in ("value", "test", "iter"):
                v = getattr(stmt, fld, None)
                if isinstance(v, ast.AST):
                    state = self._expr(v, state)
            return state

        def refine(self, test, pol, state):
            return self._expr(test, state)

    fl = MustApply()
    fl.run(g.node)
    key = "SolverWrapper.optimize:apply-before-run"
    if fl.sites == 0:
        raise AnalysisError("SolverWrapper.optimize: no solver run found")
    if fl.bad:
        rep.violation(RID, key, f"a solver run (`{norm(fl.bad[0])[:80]}`) is reachable on a path on which the queued bound updates were not applied: fixes and lower "
                      "bounds queued through queue_fix_variable / queue_set_var_lower_bound are dropped there while the models already rely on them "
                      "(edges_set_to_one -> pi == w)", g.loc(fl.bad[0]))
    else:
        rep.ok(RID, key, f"queued updates are applied before the solver run on every path ({fl.sites} run site(s))", g.loc())


def _old_apply_before_run(prog, rep):
    g = prog.own_method("SolverWrapper", "optimize")
    order = []
    for c in sorted(calls_in(g.node), key=lambda c: (c.lineno, c.col_offset)):
        d = dotted(c.func) or ""
        if d in ("self._apply_pending_bound_updates", "self.solver.optimize", "self._run_with_timeout"):
            order.append(d)
    if order and order[0] == "self._apply_pending_bound_updates" and len(order) > 1:
        rep.ok("C12.R5", "SolverWrapper.optimize:apply-before-run", "queued updates applied before every solver run", g.loc())
    else:
        rep.violation("C12.R5", "SolverWrapper.optimize:apply-before-run", f"queued bound updates are not applied before the solver run (call order {order})", g.loc())


# ------------------------------------------------------------------------------------------------ R6
def r6(prog, rep):
    rep.rule("C12.R6", "read-back by the variable's own column index, one entry per requested key", floor=2)
    f = prog.own_method("SolverWrapper", "get_values")
    # nested accessor for HiGHS: the function defined under the `external_solver == "highs"` branch (names are free)
    acc = None
    vals_name = None
    for br in [n for n in walk_no_nested(f.node) if isinstance(n, ast.If) and "'highs'" in norm(n.test)]:
        for st in br.body:
            if isinstance(st, ast.Assign) and len(st.targets) == 1 and isinstance(st.targets[0], ast.Name) and "get_all_variable_values" in norm(st.value):
                vals_name = st.targets[0].id
        for st in br.body:
            if isinstance(st, ast.FunctionDef) and len(st.args.args) == 1:
                acc = st
    if acc is None or vals_name is None:
        raise AnalysisError("get_values: HiGHS accessor (nested function of the 'highs' branch reading get_all_variable_values()) not found")
    acc_name = acc.name
    rets = [r for r in ast.walk(acc) if isinstance(r, ast.Return) and r.value is not None]
    ldefs = {}
    for n in ast.walk(acc):
        if isinstance(n, ast.Assign) and len(n.targets) == 1 and isinstance(n.targets[0], ast.Name):
            ldefs[n.targets[0].id] = n.value
    param = acc.args.args[0].arg
    okidx = False
    for r in rets:
        v = r.value
        if isinstance(v, ast.Subscript) and norm(v.value) == vals_name:
            idx = v.slice
            txt = norm(substitute_locals(idx, ldefs))
            if re.fullmatch(r"(getattr\(%s, 'index'(, None)?\)|%s\.index)" % (param, param), txt):
                okidx = True
    if okidx:
        rep.ok("C12.R6", "SolverWrapper.get_values:index-lookup", "value = all_vals[var.index]", f.loc(acc))
    else:
        rep.violation("C12.R6", "SolverWrapper.get_values:index-lookup", "the HiGHS accessor does not read all_vals at the variable's own column index", f.loc(acc))
    # result: {key: F(accessor(var)) for (key, var) of the pairs} - as a loop filling a dict or as a comprehension
    from sa.mir import comprehensionise
    good = False
    for n in ast.walk(ast.Module(body=comprehensionise(f.node.body), type_ignores=[])):
        if isinstance(n, ast.DictComp) and len(n.generators) == 1 and isinstance(n.generators[0].target, ast.Tuple) and len(n.generators[0].target.elts) == 2 and \
                not n.generators[0].ifs:
            k, v = [norm(x) for x in n.generators[0].target.elts]
            if norm(n.key) == k and f"{acc_name}({v})" in norm(n.value):
                good = True
    if good:
        rep.ok("C12.R6", "SolverWrapper.get_values:one-entry-per-key", "result[key] = value of that key's variable", f.loc())
    else:
        rep.violation("C12.R6", "SolverWrapper.get_values:one-entry-per-key", "the result is not filled with exactly the value of each requested (key, variable) pair", f.loc())


# ------------------------------------------------------------------------------------------------ R7
NUMERIC_ABCS = {"np.number", "np.generic", "numpy.number", "numpy.generic", "numbers.Number", "numbers.Real", "Number", "Real"}


def name_based_readback(prog, rep, RID):
    """A getter that rebuilds the index of a variable from its *name* is exact only if name -> index is injective and parseable; HiGHS
    names are `prefix + repr(index)` with every blank removed, so indices containing a blank or an apostrophe are merged or lost.  Every
    public getter of SolverWrapper that returns values per index either works from the Variable objects / column indices, or is reported."""
    ci = prog.cls("SolverWrapper")
    n = 0
    for m in ci.methods.values():
        if m.name.startswith("_") or not m.name.startswith("get_"):
            continue
        names_read = [c for c in calls_in(m.node) if isinstance(c.func, ast.Attribute) and c.func.attr in ("get_all_variable_names", "getVarName", "getColName", "allVariableNames")]
        parses = [c for c in calls_in(m.node) if (isinstance(c.func, ast.Attribute) and c.func.attr in ("parse_var_name", "match", "split", "fullmatch")) and names_read]
        builds_dict = any(isinstance(st, ast.Assign) and isinstance(st.targets[0], ast.Subscript) for st in ast.walk(m.node)) or any(isinstance(x, ast.DictComp) for x in ast.walk(m.node))
        if not (names_read and parses and builds_dict):
            continue
        n += 1
        rep.violation(RID, f"SolverWrapper.{m.name}:name-based-readback", f"{m.name} rebuilds the index of each variable by parsing its name (`{norm(parses[0])[:60]}`): HiGHS names "
                      "are prefix + repr(index) with every blank removed, so the variable ('a b', 'c', 0) comes back under ('ab', 'c', 0) - overwriting a different variable of that "
                      "index - and (\"a'b\", 'c', 0) is dropped; values are not read back for exactly the variables asked for (get_values, by column index, is exact)", m.loc(parses[0]), self_contained=True)
    if n == 0:
        rep.ok(RID, "SolverWrapper:name-based-readback", "no public getter rebuilds indices from variable names", ci.methods["get_values"].loc())


def integer_bounds_rounded(prog, rep, RID):
    """Float data are used as bounds of integer variables (repetition caps of the cyclic models, max_multiplicity = w_max of MinGenSet).  A
    fractional bound admits the same integers as its rounding, but HiGHS reports such models infeasible: add_variables rounds the bounds of
    integer variables inwards (ub down, lb up) before they reach the solver."""
    f = prog.own_method("SolverWrapper", "add_variables")
    key = "SolverWrapper.add_variables:integer-bounds"
    ifs = [i for i in ast.walk(f.node) if isinstance(i, ast.If) and "var_type" in norm(i.test) and "'integer'" in norm(i.test) and isinstance(i.test, ast.Compare)
           and isinstance(i.test.ops[0], ast.Eq)]
    down = up = None
    def side(name: str):
        """'ub' / 'lb': which parameter of add_variables the local `name` was materialised from (names are free)"""
        for st in ast.walk(f.node):
            if isinstance(st, ast.Assign) and norm(st.targets[0]) == name and not any(st is b for i in ifs for b in i.body):
                names = {n.id for n in ast.walk(st.value) if isinstance(n, ast.Name)}
                if "ub" in names and "lb" not in names:
                    return "ub"
                if "lb" in names and "ub" not in names:
                    return "lb"
        return None
    swapped = None
    for i in ifs:
        for st in i.body:
            if isinstance(st, ast.Assign):
                t = norm(st.value)
                sd = side(norm(st.targets[0]))
                if "floor" in t and "ceil" not in t:
                    if sd == "ub":
                        down = st
                    elif sd == "lb":
                        swapped = st
                if "ceil" in t and "floor" not in t:
                    if sd == "lb":
                        up = st
                    elif sd == "ub":
                        swapped = st
    if swapped is not None:
        rep.violation(RID, key, f"`{norm(swapped)[:90]}` rounds a bound of integer variables outwards (lower bounds down / upper bounds up): values outside the requested bounds "
                      "become admissible", f.loc(swapped))
        return
    if down is not None and up is not None:
        rep.ok(RID, key, "bounds of integer variables are rounded inwards (ub floor, lb ceil)", f.loc(down))
    elif down is not None or up is not None:
        rep.violation(RID, key, "only one of the two bounds of integer variables is rounded", f.loc(down or up))
    else:
        rep.violation(RID, key, "bounds of integer variables reach HiGHS as they come: with a fractional upper bound (a float flow value as repetition cap, w_max = 12.5 as "
                      "max_multiplicity) HiGHS reports feasible models kInfeasible - the flow 5, 6, 2, 2, 2, 5 scaled by 1.1 comes back unsolved", f.loc())


def bounds_materialised(prog, rep, RID):
    """add_variables normalises lb / ub with a nested helper whose last resort is the default bound (0 / 1).  A bound that is a
    number but not an int / float instance - a numpy scalar, e.g. the maximum of flow values read with numpy - must be recognised
    as a scalar; otherwise it is neither a dict nor iterable and the variables silently get the default bounds [0, 1]."""
    f = prog.own_method("SolverWrapper", "add_variables")
    helper = None
    for st in ast.walk(f.node):
        if isinstance(st, ast.FunctionDef) and st is not f.node and any(
                isinstance(r, ast.Return) and "default" in norm(r.value) for r in ast.walk(st) if isinstance(r, ast.Return) and r.value is not None):
            helper = st
    key = "SolverWrapper.add_variables:scalar-bounds"
    if helper is None:
        # no default fallback at all: nothing can be replaced silently
        rep.ok(RID, key, "bounds are never replaced by a default", f.loc())
        return
    param = helper.args.args[0].arg
    scalar_types = None
    for st in ast.walk(helper):
        if isinstance(st, ast.If):
            for c in ast.walk(st.test):
                if isinstance(c, ast.Call) and dotted(c.func) == "isinstance" and len(c.args) == 2 and norm(c.args[0]) == param:
                    tys = c.args[1].elts if isinstance(c.args[1], ast.Tuple) else [c.args[1]]
                    names = {norm(t) for t in tys}
                    if "float" in names or "int" in names or names & NUMERIC_ABCS:
                        scalar_types = names
    if scalar_types is None:
        raise AnalysisError("add_variables: the scalar branch of the bound normalisation (isinstance test on the bound) was not found")
    # the last resort (the default bound) is reached only by values that are not numbers at all: a scalar of another numeric type - Fraction, Decimal, a
    # 0-dimensional numpy array - is neither listed in the isinstance test nor iterable
    key2 = "SolverWrapper.add_variables:scalar-bounds-other-numeric-types"
    default_rets = [r for r in ast.walk(helper) if isinstance(r, ast.Return) and r.value is not None and "default" in norm(r.value)]
    broad = bool(scalar_types & {"numbers.Number", "numbers.Real", "Number", "Real"})
    tried = False
    for r in default_rets:
        for t in ast.walk(helper):
            if isinstance(t, ast.Try) and any(any(x is r for x in ast.walk(h)) for h in t.handlers):
                if any(isinstance(x, ast.Return) and x.value is not None and f"float({param})" in norm(x.value) for b in t.body for x in ast.walk(b)):
                    tried = True
    if broad or tried or not default_rets:
        rep.ok(RID, key2, "a bound that is not iterable is converted with float() before the default is considered", f.loc(helper))
    else:
        rep.violation(RID, key2, f"a bound that is neither {sorted(scalar_types)} nor a dict nor iterable silently becomes the default bound: Fraction(5), Decimal(5) and "
                      "np.asarray(5.0) (a 0-dimensional array) are numbers, but add_variables(['a'], 'x_', lb=0, ub=np.asarray(5.0)) gives a variable bounded by 1", f.loc(default_rets[0]))
    if scalar_types & NUMERIC_ABCS:
        rep.ok(RID, key, f"scalar bounds are recognised by isinstance(..., {sorted(scalar_types)}): numpy scalars included", f.loc(helper))
    else:
        rep.violation(RID, key, f"a scalar bound is recognised only as {sorted(scalar_types)}; a numpy scalar (np.int64 maximum of flow values) is neither, is not "
                      "iterable, and falls through to the default bound: all variables of the family silently get [0, 1] and the model comes back infeasible",
                      f.loc(helper))

