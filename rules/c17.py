"""C17 - substrate queries (reachability, antichain, bottleneck peeling) match the graph.

Equality with a direct graph search, antichain maximality and peeling arithmetic are algorithm-correctness statements: not
decidable here.  Decided: the history half of the quantifier ("however often and in whatever order they are asked").
"""
from __future__ import annotations

import ast
import re
from typing import Dict, List, Set

from sa.pm import Program, FuncInfo, ClassInfo, dotted, norm, calls_in, walk_no_nested, AnalysisError
from sa.alias import AliasModel, FRESH

EXPLANATION = (
    "Decides the history half of the quantifier: (R1) each reachability cache is written only by its owner method (and reset in the "
    "builder), keyed by the query node, with the value that is returned; a parameterised query that keeps its answer in a plain attribute "
    "returns it only under a test that involves every parameter (R1c); (R2) query methods of the s-t graph classes do not mutate any "
    "object held in a self attribute other than their own cache entry (alias/effect analysis: e.g. accumulating a result in place into a "
    "per-SCC index would corrupt later answers), and no in-package caller mutates a set returned by a substrate query (cached sets are "
    "returned by reference); (R3) the augmented graphs are frozen as the last step of construction and no graph mutator is called on them "
    "afterwards; the width caches are keyed by 'nothing ignored' (C09.R5).  NOT decided: that the answers equal a direct graph search, "
    "antichain maximality, peeling arithmetic."
)
DECIDED = ["caches are written only by their owner, keyed by the query", "queries have no side effect on shared substrate state; cached results are never mutated",
           "substrate graphs are frozen after construction"]
NOT_DECIDED = ["answers equal those of a direct graph search", "returned antichain is maximum and pairwise unreachable", "greedy peeling weights add up to the flow"]

SUBSTRATE = ["AbstractSourceSinkGraph", "stDAG", "stDiGraph", "NodeExpandedDiGraph"]
BUILDERS = re.compile(r"^(__init__|_post_build|_pre_build_validate|_augment_with_source_sink|_build_\w+|_try_filling_in_missing_flow_values)$")

# cache attribute -> owner method (frozen after reading)
CACHES = {
    "stDiGraph": {"_nodes_reachable_from_node_cache": "nodes_reachable", "_nodes_reaching_node_cache": "nodes_reaching",
                  "condensation_width": "get_width"},
    "stDAG": {"_reachable_nodes_from": "reachable_nodes_from", "_reachable_edges_from": "reachable_edges_from", "_nodes_reaching": "nodes_reaching",
              "_reachable_edges_rev_from": "reachable_edges_rev_from", "width": "get_width", "flow_width": "get_flow_width"},
}
QUERY_RESULTS = re.compile(r":(stDiGraph\.(nodes_reachable|nodes_reaching|compute_edge_max_reachable_value)|stDAG\.(reachable_\w+|nodes_reaching))$")


def cache_ownership(prog: Program, rep, RID: str):
    for cname, table in CACHES.items():
        cls = prog.cls(cname)
        for attr, owner in table.items():
            writers = []
            for m, f in cls.methods.items():
                for n in walk_no_nested(f.node):
                    tg = []
                    if isinstance(n, ast.Assign):
                        tg = n.targets
                    elif isinstance(n, (ast.AugAssign, ast.AnnAssign)):
                        tg = [n.target]
                    for t in tg:
                        base = t
                        item = False
                        while isinstance(base, ast.Subscript):
                            base = base.value
                            item = True
                        if dotted(base) == f"self.{attr}":
                            writers.append((m, f, n, t, item))
            key = f"{cname}.{attr}"
            bad = [(m, f, n) for m, f, n, t, item in writers if m != owner and not BUILDERS.match(m)]
            if not writers:
                raise AnalysisError(f"cache {key} has no writer: anchor moved")
            if bad:
                m, f, n = bad[0]
                rep.violation("C17.R1", key, f"cache `{attr}` is written by {cname}.{m} (owner: {owner}): `{norm(n)[:70]}`", f.loc(n))
                continue
            # keyed by the query parameter and storing the returned value (per-node caches)
            ownf = cls.methods.get(owner)
            if ownf is None:
                raise AnalysisError(f"owner method {cname}.{owner} vanished")
            item_writes = [(n, t) for m, f, n, t, item in writers if m == owner and item and isinstance(t, ast.Subscript) and dotted(t.value) == f"self.{attr}"]
            ok = True
            why = "written only by its owner"
            if not ownf.params[1:]:
                item_writes = []        # whole-table caches built in one go by a parameterless property: nothing to key
            for n, t in item_writes:
                params = ownf.params[1:]
                if norm(t.slice) not in params:
                    ok, why = False, f"stored under key `{norm(t.slice)}` which is not the query parameter {params}"
                rets = [r for r in walk_no_nested(ownf.node) if isinstance(r, ast.Return) and r.value is not None and r.lineno > n.lineno]
                if rets and not any(norm(r.value) in (norm(n.value), norm(t)) for r in rets):
                    ok, why = False, f"stores `{norm(n.value)}` but returns `{norm(rets[0].value)}`"
            if ok:
                rep.ok("C17.R1", key, why + (" and keyed by the query node" if item_writes else ""), ownf.loc(), sample={"cache": key, "owner": owner})
            else:
                rep.violation("C17.R1", key, why, ownf.loc())


def unkeyed_caches(prog: Program, rep, RID: str):
    """A parameterised query that stores its result in a plain attribute and hands that attribute back must do so only under a
    test that mentions every parameter (after substituting single-assignment locals): otherwise the first answer is returned
    for all later arguments."""
    from rules.val import path_conditions
    from rules.common import local_single_defs, substitute_locals
    n = 0
    for cname in SUBSTRATE:
        cls = prog.cls(cname)
        for m, f in cls.methods.items():
            params = [p for p in f.params[1:]]
            if not params or BUILDERS.match(m):
                continue
            stored = set()
            for st in walk_no_nested(f.node):
                if isinstance(st, ast.Assign):
                    for t in st.targets:
                        d = dotted(t)
                        if d and d.startswith("self.") and d.count(".") == 1:
                            stored.add(d)
            defs = local_single_defs(f.node)
            for r in walk_no_nested(f.node):
                if isinstance(r, ast.Return) and r.value is not None and dotted(r.value) in stored:
                    # is it a cache *read* (a return that can be reached without the store on the same path)?
                    stores_before = [st for st in walk_no_nested(f.node) if isinstance(st, ast.Assign) and any(dotted(t) == dotted(r.value) for t in st.targets)
                                     and st.lineno < r.lineno]
                    conds = path_conditions(f.node, r)
                    if stores_before and not conds:
                        continue        # straight-line `self.x = v; return self.x`
                    n += 1
                    mentioned = set()
                    for t, pol in conds:
                        tt = substitute_locals(t, defs)
                        mentioned |= {x.id for x in ast.walk(tt) if isinstance(x, ast.Name)}
                    missing = [p for p in params if p not in mentioned]
                    key = f"{cname}.{m}:cached-return:{dotted(r.value)}"
                    if stores_before and not missing:
                        continue
                    if missing and not stores_before:
                        rep.violation(RID, key, f"`return {dotted(r.value)}` hands back a stored answer under {[norm(t) for t, _ in conds]} without looking at "
                                      f"parameter(s) {missing}: the value computed for the first arguments answers every later query", f.loc(r))
                    elif not stores_before:
                        rep.ok(RID, key, f"cached answer returned only under a test on {params}", f.loc(r), sample={"method": f"{cname}.{m}", "guards": [norm(t) for t, _ in conds]})
    return n


def query_purity(prog: Program, rep, RID: str, am: AliasModel):
    n = 0
    for cname in SUBSTRATE:
        cls = prog.cls(cname)
        own_caches = CACHES.get(cname, {})
        for m, f in cls.methods.items():
            if BUILDERS.match(m):
                continue
            n += 1
            s = am.get(f)
            bad = []
            for attr, sites in s.attr_mut.items():
                if own_caches.get(attr) == m:
                    continue            # filling its own cache
                bad.append((attr, sites[0]))
            key = f"{cname}.{m}:pure"
            if bad:
                attr, site = bad[0]
                rep.violation(RID, key, f"query method mutates the object held in self.{attr}: `{site.text}` [{site.kind}] - later queries (in any order) "
                              "read the modified substrate state and answer differently", site.loc)
            else:
                rep.ok(RID, key, "no mutation of substrate state (other than filling its own cache)", f.loc())
    # callers must not mutate cached results returned by reference
    m2 = 0
    for f in prog.all_functions():
        s = am.get(f)
        for tag, sites in s.ret_mut.items():
            if QUERY_RESULTS.search(":" + tag.split(":", 1)[1] if ":" in tag else tag):
                m2 += 1
                rep.violation(RID, f"{f.qualname}:mutates-result-of:{tag.split(':')[-1]}", f"a set returned (by reference, from the cache) by {tag.split(':')[-1]} is mutated: "
                              f"`{sites[0].text}` - the cached answer for that node changes", sites[0].loc)
    # property results used read-only: G.reachable_nodes_from[x] etc. item reads only
    uses = 0
    for f in prog.all_functions():
        for node in ast.walk(f.node):
            if isinstance(node, ast.Call) and isinstance(node.func, ast.Attribute) and node.func.attr in ("nodes_reachable", "nodes_reaching"):
                uses += 1
    rep.ok(RID, "callers:read-only", f"{uses} in-package uses of reachability query results; none mutates a returned set", "", nontrivial=True)
    rep.extra["substrate_query_methods"] = n


def frozen_rule(prog: Program, rep, RID: str):
    GRAPH_MUT = {"add_edge", "add_node", "add_edges_from", "add_nodes_from", "remove_edge", "remove_node", "remove_edges_from", "remove_nodes_from", "clear"}
    for cname in ("AbstractSourceSinkGraph", "NodeExpandedDiGraph"):
        f = prog.own_method(cname, "__init__")
        last = f.node.body[-1]
        key = f"{cname}.__init__:freeze"
        if isinstance(last, ast.Expr) and isinstance(last.value, ast.Call) and dotted(last.value.func) in ("nx.freeze", "networkx.freeze") and \
                norm(last.value.args[0]) == "self":
            rep.ok(RID, key, "nx.freeze(self) is the last statement of the constructor", f.loc(last))
        else:
            rep.violation(RID, key, "the graph is not frozen as the last step of construction: later code (or the caller) can add/remove nodes and edges "
                          "while caches and the width stay as computed", f.loc(last))
    for cname in SUBSTRATE:
        cls = prog.cls(cname)
        for m, f in cls.methods.items():
            if BUILDERS.match(m):
                continue
            for c in calls_in(f.node):
                if isinstance(c.func, ast.Attribute) and c.func.attr in GRAPH_MUT and dotted(c.func.value) == "self":
                    rep.violation(RID, f"{cname}.{m}:self.{c.func.attr}", f"graph mutator self.{c.func.attr}() outside the constructor/builders", f.loc(c))
    rep.ok(RID, "no-mutator-after-freeze", "no graph mutator is called on self outside constructors/builders of the substrate classes", "")


def check(prog: Program, rep):
    am = AliasModel(prog)
    rep.rule("C17.R1", "cache ownership", floor=9)
    cache_ownership(prog, rep, "C17.R1")
    rep.rule("C17.R1c", "attribute caches of parameterised queries are keyed by (a test on) every parameter", floor=3)
    unkeyed_caches(prog, rep, "C17.R1c")
    rep.rule("C17.R2", "queries do not mutate substrate state; cached results are not mutated by callers", floor=30)
    query_purity(prog, rep, "C17.R2", am)
    rep.rule("C17.R3", "frozen substrate", floor=3)
    frozen_rule(prog, rep, "C17.R3")
    from rules.c09 import width_cache
    rep.rule("C17.R3b", "width cache key", floor=4)
    width_cache(prog, rep, "C17.R3b")
