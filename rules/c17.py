"""C17 - substrate queries (reachability, antichain, bottleneck peeling) match the graph.

Equality with a direct graph search, antichain maximality and peeling arithmetic are algorithm-correctness statements: not
decidable here.  Decided: the history half of the quantifier ("however often and in whatever order they are asked").
"""
from __future__ import annotations

import ast
import re
from typing import Dict, List, Set

from sa.pm import Program, FuncInfo, ClassInfo, dotted, norm, calls_in, walk_no_nested, AnalysisError, kwarg
from sa.alias import AliasModel, FRESH

EXPLANATION = (
    "Decides the history half of the quantifier: (R1) each reachability cache is written only by its owner method (and reset in the "
    "builder), keyed by the query node, with the value that is returned; a parameterised query that keeps its answer in a plain attribute "
    "returns it only under a test that involves every parameter (R1c); (R2) query methods of the s-t graph classes do not mutate any "
    "object held in a self attribute other than their own cache entry (alias/effect analysis: e.g. accumulating a result in place into a "
    "per-SCC index would corrupt later answers), and no in-package caller mutates a set returned by a substrate query (cached sets are "
    "returned by reference); (R3) the augmented graphs are frozen as the last step of construction and no graph mutator is called on them "
    "afterwards; the width caches are keyed by 'nothing ignored' (C09.R5); (R4) the four reachability tables of stDAG are dynamic programs whose neighbour direction (successors for 'from', predecessors for 'reaching'), "
    "processing order (every neighbour final before it is read), seed (a node reaches itself; an edge table starts empty) and edge orientation agree with the query they answer, and the per-node queries of stDiGraph use descendants / ancestors of the condensation united with the node's own SCC; (R5) the greedy peeling subtracts, on every edge of each peeled path of a private working copy, exactly the value it publishes as that path's weight, "
    "(R6) the min-cost-flow network of the maximum edge antichain: demand = caller's weight (0 if missing) / 1 for input edges and 0 for synthetic edges; cost 1 exactly on edges leaving the source.  "
    " (R6, extended) the demand of the antichain network is selected by `weight_function is not None`; selecting by truth value (empty dict treated as absent) is a violation. "
    " (R7) numerics of the antichain / min-cost-flow substrate: saturated cut edges are collected by `demand > 0` (not >= 1), the supply exceeds the sum of the demands and the arcs are uncapacitated (no constant 2**32), ignored edges are deduplicated before multiplicities are decremented. "
    "and the bottleneck DP takes min(predecessor value, edge value), updates value and predecessor together and reports the value of the path it reconstructs.  The peeling loop subtracts unconditionally on every edge of the path and never changes the topology of its working graph.  NOT decided: that the answers equal a direct graph search, "
    "antichain maximality, peeling arithmetic."
    ' (R7, round 3) non-integral weights reach the exact network simplex as fractions.'
    " (R1c, round 4) module-level functions that take the caller's graph are not memoised."
    ' (R7, hunt 7) get_flow_width hands integral capacities to the simplex as Python ints; the sink candidate of max_bottleneck_path is tested for None; compute_flow_decomp_safe_paths validates before it peels.'
)
DECIDED = ["caches are written only by their owner, keyed by the query", "queries have no side effect on shared substrate state; cached results are never mutated",
           "substrate graphs are frozen after construction"]
NOT_DECIDED = ["answers equal those of a direct graph search", "returned antichain is maximum and pairwise unreachable", "greedy peeling weights add up to the flow"]

SUBSTRATE = ["AbstractSourceSinkGraph", "stDAG", "stDiGraph", "NodeExpandedDiGraph"]
BUILDERS = re.compile(r"^(__init__|_post_build|_pre_build_validate|_augment_with_source_sink|_build_\w+|_try_filling_in_missing_flow_values)$")

# cache attribute -> owner method (frozen after reading)
CACHES = {
    "stDiGraph": {"_nodes_reachable_from_node_cache": "nodes_reachable", "_nodes_reaching_node_cache": "nodes_reaching",
                  "condensation_width": "get_width"},
    "stDAG": {"_reachable_nodes_from": "reachable_nodes_from", "_reachable_edges_from": "reachable_edges_from", "_nodes_reaching": "nodes_reaching",
              "_reachable_edges_rev_from": "reachable_edges_rev_from", "width": "get_width", "flow_width": "get_flow_width"},
}
QUERY_RESULTS = re.compile(r":(stDiGraph\.(nodes_reachable|nodes_reaching|compute_edge_max_reachable_value)|stDAG\.(reachable_\w+|nodes_reaching))$")


def cache_ownership(prog: Program, rep, RID: str):
    for cname, table in CACHES.items():
        cls = prog.cls(cname)
        for attr, owner in table.items():
            writers = []
            for m, f in cls.methods.items():
                for n in walk_no_nested(f.node):
                    tg = []
                    if isinstance(n, ast.Assign):
                        tg = n.targets
                    elif isinstance(n, (ast.AugAssign, ast.AnnAssign)):
                        tg = [n.target]
                    for t in tg:
                        base = t
                        item = False
                        while isinstance(base, ast.Subscript):
                            base = base.value
                            item = True
                        if dotted(base) == f"self.{attr}":
                            writers.append((m, f, n, t, item))
            key = f"{cname}.{attr}"
            bad = [(m, f, n) for m, f, n, t, item in writers if m != owner and not BUILDERS.match(m)]
            if not writers:
                raise AnalysisError(f"cache {key} has no writer: anchor moved")
            if bad:
                m, f, n = bad[0]
                rep.violation("C17.R1", key, f"cache `{attr}` is written by {cname}.{m} (owner: {owner}): `{norm(n)[:70]}`", f.loc(n))
                continue
            # keyed by the query parameter and storing the returned value (per-node caches)
            ownf = cls.methods.get(owner)
            if ownf is None:
                raise AnalysisError(f"owner method {cname}.{owner} vanished")
            item_writes = [(n, t) for m, f, n, t, item in writers if m == owner and item and isinstance(t, ast.Subscript) and dotted(t.value) == f"self.{attr}"]
            ok = True
            why = "written only by its owner"
            if not ownf.params[1:]:
                item_writes = []        # whole-table caches built in one go by a parameterless property: nothing to key
            for n, t in item_writes:
                params = ownf.params[1:]
                if norm(t.slice) not in params:
                    ok, why = False, f"stored under key `{norm(t.slice)}` which is not the query parameter {params}"
                rets = [r for r in walk_no_nested(ownf.node) if isinstance(r, ast.Return) and r.value is not None and r.lineno > n.lineno]
                if rets and not any(norm(r.value) in (norm(n.value), norm(t)) for r in rets):
                    ok, why = False, f"stores `{norm(n.value)}` but returns `{norm(rets[0].value)}`"
            if ok:
                rep.ok("C17.R1", key, why + (" and keyed by the query node" if item_writes else ""), ownf.loc(), sample={"cache": key, "owner": owner})
            else:
                rep.violation("C17.R1", key, why, ownf.loc())


def unkeyed_caches(prog: Program, rep, RID: str):
    """A parameterised query that stores its result in a plain attribute and hands that attribute back must do so only under a
    test that mentions every parameter (after substituting single-assignment locals): otherwise the first answer is returned
    for all later arguments."""
    from rules.val import path_conditions
    from rules.common import local_single_defs, substitute_locals
    n = 0
    for cname in SUBSTRATE:
        cls = prog.cls(cname)
        for m, f in cls.methods.items():
            params = [p for p in f.params[1:]]
            if not params or BUILDERS.match(m):
                continue
            stored = set()
            for st in walk_no_nested(f.node):
                if isinstance(st, ast.Assign):
                    for t in st.targets:
                        d = dotted(t)
                        if d and d.startswith("self.") and d.count(".") == 1:
                            stored.add(d)
            defs = local_single_defs(f.node)
            for r in walk_no_nested(f.node):
                if isinstance(r, ast.Return) and r.value is not None and dotted(r.value) in stored:
                    # is it a cache *read* (a return that can be reached without the store on the same path)?
                    stores_before = [st for st in walk_no_nested(f.node) if isinstance(st, ast.Assign) and any(dotted(t) == dotted(r.value) for t in st.targets)
                                     and st.lineno < r.lineno]
                    conds = path_conditions(f.node, r)
                    if stores_before and not conds:
                        continue        # straight-line `self.x = v; return self.x`
                    n += 1
                    mentioned = set()
                    for t, pol in conds:
                        tt = substitute_locals(t, defs)
                        mentioned |= {x.id for x in ast.walk(tt) if isinstance(x, ast.Name)}
                    missing = [p for p in params if p not in mentioned]
                    key = f"{cname}.{m}:cached-return:{dotted(r.value)}"
                    if stores_before and not missing:
                        continue
                    if missing and not stores_before:
                        rep.violation(RID, key, f"`return {dotted(r.value)}` hands back a stored answer under {[norm(t) for t, _ in conds]} without looking at "
                                      f"parameter(s) {missing}: the value computed for the first arguments answers every later query", f.loc(r))
                    elif not stores_before:
                        rep.ok(RID, key, f"cached answer returned only under a test on {params}", f.loc(r), sample={"method": f"{cname}.{m}", "guards": [norm(t) for t, _ in conds]})
    return n


def query_purity(prog: Program, rep, RID: str, am: AliasModel):
    n = 0
    for cname in SUBSTRATE:
        cls = prog.cls(cname)
        own_caches = CACHES.get(cname, {})
        for m, f in cls.methods.items():
            if BUILDERS.match(m):
                continue
            n += 1
            s = am.get(f)
            bad = []
            for attr, sites in s.attr_mut.items():
                if own_caches.get(attr) == m:
                    continue            # filling its own cache
                bad.append((attr, sites[0]))
            key = f"{cname}.{m}:pure"
            if bad:
                attr, site = bad[0]
                rep.violation(RID, key, f"query method mutates the object held in self.{attr}: `{site.text}` [{site.kind}] - later queries (in any order) "
                              "read the modified substrate state and answer differently", site.loc)
            else:
                rep.ok(RID, key, "no mutation of substrate state (other than filling its own cache)", f.loc())
    # callers must not mutate cached results returned by reference
    m2 = 0
    for f in prog.all_functions():
        s = am.get(f)
        for tag, sites in s.ret_mut.items():
            if QUERY_RESULTS.search(":" + tag.split(":", 1)[1] if ":" in tag else tag):
                m2 += 1
                rep.violation(RID, f"{f.qualname}:mutates-result-of:{tag.split(':')[-1]}", f"a set returned (by reference, from the cache) by {tag.split(':')[-1]} is mutated: "
                              f"`{sites[0].text}` - the cached answer for that node changes", sites[0].loc)
    # property results used read-only: G.reachable_nodes_from[x] etc. item reads only
    uses = 0
    for f in prog.all_functions():
        for node in ast.walk(f.node):
            if isinstance(node, ast.Call) and isinstance(node.func, ast.Attribute) and node.func.attr in ("nodes_reachable", "nodes_reaching"):
                uses += 1
    rep.ok(RID, "callers:read-only", f"{uses} in-package uses of reachability query results; none mutates a returned set", "", nontrivial=True)
    rep.extra["substrate_query_methods"] = n


def frozen_rule(prog: Program, rep, RID: str):
    GRAPH_MUT = {"add_edge", "add_node", "add_edges_from", "add_nodes_from", "remove_edge", "remove_node", "remove_edges_from", "remove_nodes_from", "clear"}
    for cname in ("AbstractSourceSinkGraph", "NodeExpandedDiGraph"):
        f = prog.own_method(cname, "__init__")
        last = f.node.body[-1]
        key = f"{cname}.__init__:freeze"
        if isinstance(last, ast.Expr) and isinstance(last.value, ast.Call) and dotted(last.value.func) in ("nx.freeze", "networkx.freeze") and \
                norm(last.value.args[0]) == "self":
            rep.ok(RID, key, "nx.freeze(self) is the last statement of the constructor", f.loc(last))
        else:
            rep.violation(RID, key, "the graph is not frozen as the last step of construction: later code (or the caller) can add/remove nodes and edges "
                          "while caches and the width stay as computed", f.loc(last))
    for cname in SUBSTRATE:
        cls = prog.cls(cname)
        for m, f in cls.methods.items():
            if BUILDERS.match(m):
                continue
            for c in calls_in(f.node):
                if isinstance(c.func, ast.Attribute) and c.func.attr in GRAPH_MUT and dotted(c.func.value) == "self":
                    rep.violation(RID, f"{cname}.{m}:self.{c.func.attr}", f"graph mutator self.{c.func.attr}() outside the constructor/builders", f.loc(c))
    rep.ok(RID, "no-mutator-after-freeze", "no graph mutator is called on self outside constructors/builders of the substrate classes", "")


DP_TABLE = {
    # property: (direction, cache attr, seed includes the node itself, contributes edges)
    "reachable_nodes_from": ("forward", "_reachable_nodes_from", True, False),
    "reachable_edges_from": ("forward", "_reachable_edges_from", False, True),
    "nodes_reaching": ("backward", "_nodes_reaching", True, False),
    "reachable_edges_rev_from": ("backward", "_reachable_edges_rev_from", False, True),
}


def dp_direction(prog: Program, rep, RID: str):
    """The four reachability tables of stDAG are dynamic programs over the topological order: R[x] = seed(x) U union of R[y] (and
    the edge x-y) over the neighbours y in the direction of the query.  Necessary for correctness: neighbours are *successors* for
    'from' queries and *predecessors* for 'reaching' queries, x ranges over an order in which every such neighbour precedes x
    (reverse topological for successors, topological for predecessors), the seed contains x itself for node tables, and the edge
    contributed is oriented as it is in the graph."""
    cls = prog.cls("stDAG")
    post = prog.own_method("stDAG", "_post_build")
    # order providers
    src = {norm(s.targets[0]): norm(s.value) for s in ast.walk(post.node) if isinstance(s, ast.Assign) and len(s.targets) == 1}
    key = "stDAG._post_build:orders"
    fwd_ok = src.get("self.topological_order") in ("list(nx.topological_sort(self))",)
    rev_ok = src.get("self.topological_order_rev") in ("list(reversed(self.topological_order))", "self.topological_order[::-1]")
    if fwd_ok and rev_ok:
        rep.ok(RID, key, "topological_order = topological sort of self; topological_order_rev = its reversal", post.loc())
    elif "self.topological_order" not in src or "self.topological_order_rev" not in src:
        raise AnalysisError("stDAG._post_build: providers of topological_order / topological_order_rev not found")
    else:
        rep.violation(RID, key, f"topological_order = {src.get('self.topological_order')}, topological_order_rev = {src.get('self.topological_order_rev')}: "
                      "the DP tables need a topological order and its exact reversal", post.loc())
    for pname, (direction, attr, seed_self, edges) in DP_TABLE.items():
        f = cls.methods.get(pname)
        if f is None:
            raise AnalysisError(f"stDAG.{pname} vanished")
        key = f"stDAG.{pname}"
        guard = [n for n in f.node.body if isinstance(n, ast.If) and norm(n.test) == f"self.{attr} is None"]
        if len(guard) != 1:
            raise AnalysisError(f"stDAG.{pname}: lazy-initialisation guard `self.{attr} is None` not found")
        body = guard[0].body
        init = [s for s in body if isinstance(s, ast.Assign) and norm(s.targets[0]) == f"self.{attr}"]
        loops = [s for s in body if isinstance(s, ast.For)]
        if len(init) != 1 or len(loops) != 1 or not isinstance(init[0].value, ast.DictComp):
            raise AnalysisError(f"stDAG.{pname}: DP idiom (dict-comprehension seed + one loop nest) not recognised")
        dc = init[0].value
        kv = norm(dc.key)
        seed = norm(dc.value)
        want_seed = "{%s}" % kv if seed_self else "set()"
        if seed == want_seed and norm(dc.generators[0].iter) in ("self.nodes()", "self.nodes", "self") and not dc.generators[0].ifs:
            rep.ok(RID, key + ":seed", f"every node starts with {want_seed}", f.loc(init[0]))
        elif seed in ("set()", "{%s}" % kv):
            rep.violation(RID, key + ":seed", f"seed is `{seed}` but a {'node' if seed_self else 'edge'} table must start from `{want_seed}` "
                          f"({'every node reaches itself' if seed_self else 'a node is not an edge'})", f.loc(init[0]))
        else:
            raise AnalysisError(f"stDAG.{pname}: seed `{norm(dc)}` not recognised")
        outer = loops[0]
        inner = [s for s in outer.body if isinstance(s, ast.For)]
        if len(inner) != 1 or not isinstance(outer.target, ast.Name) or not isinstance(inner[0].target, ast.Name):
            raise AnalysisError(f"stDAG.{pname}: loop nest not recognised")
        X, Y = outer.target.id, inner[0].target.id
        order = norm(outer.iter)
        nb = norm(inner[0].iter)
        want_nb = f"self.{'successors' if direction == 'forward' else 'predecessors'}({X})"
        want_order = "self.topological_order_rev" if direction == "forward" else "self.topological_order"
        other_nb = f"self.{'predecessors' if direction == 'forward' else 'successors'}({X})"
        if nb == want_nb:
            rep.ok(RID, key + ":neighbours", f"{direction} query unions over `{nb}`", f.loc(inner[0]))
        elif nb == other_nb:
            rep.violation(RID, key + ":neighbours", f"a {direction} reachability table unions over `{nb}`: it answers the opposite query", f.loc(inner[0]))
        else:
            raise AnalysisError(f"stDAG.{pname}: neighbour iteration `{nb}` not recognised")
        dep_first = {"self.successors(%s)" % X: "self.topological_order_rev", "self.predecessors(%s)" % X: "self.topological_order"}.get(nb)
        if order == dep_first:
            rep.ok(RID, key + ":order", f"`{order}`: every neighbour's entry is final before it is read", f.loc(outer))
        elif order in ("self.topological_order_rev", "self.topological_order"):
            rep.violation(RID, key + ":order", f"nodes are processed in `{order}` while the recurrence reads the entries of `{nb}`: those entries are "
                          "still incomplete when they are read, so the table misses every node/edge more than one step away", f.loc(outer))
        else:
            raise AnalysisError(f"stDAG.{pname}: processing order `{order}` not recognised")
        upd = [s for s in inner[0].body if isinstance(s, ast.AugAssign) and isinstance(s.op, ast.BitOr) and norm(s.target) == f"self.{attr}[{X}]"]
        others = [s for s in inner[0].body if s not in upd]
        vals = [norm(s.value) for s in upd]
        want_rec = f"self.{attr}[{Y}]"
        if want_rec in vals and not others:
            rep.ok(RID, key + ":recurrence", f"R[{X}] |= R[{Y}] for every neighbour", f.loc(inner[0]))
        elif not vals:
            raise AnalysisError(f"stDAG.{pname}: the recurrence is not written as `self.{attr}[{X}] |= ...` (body: {[norm(s_)[:50] for s_ in inner[0].body]}): idiom not recognised")
        else:
            rep.violation(RID, key + ":recurrence", f"the union `self.{attr}[{X}] |= {want_rec}` over every neighbour is missing or conditional "
                          f"(updates: {vals})", f.loc(inner[0]))
        if edges:
            want_edge = "{(%s, %s)}" % ((X, Y) if direction == "forward" else (Y, X))
            flipped = "{(%s, %s)}" % ((Y, X) if direction == "forward" else (X, Y))
            if want_edge in vals:
                rep.ok(RID, key + ":edge", f"contributes the graph edge {want_edge}", f.loc(inner[0]))
            elif flipped in vals:
                rep.violation(RID, key + ":edge", f"contributes {flipped}, which is not an edge of the graph (orientation reversed): membership "
                              "tests of real edges in the table fail", f.loc(inner[0]))
            else:
                rep.violation(RID, key + ":edge", f"the edge between `{X}` and its neighbour is not added to the table (updates: {vals})", f.loc(inner[0]))
        elif len(vals) != 1:
            rep.violation(RID, key + ":recurrence-extra", f"unexpected extra contributions {vals} to a node table", f.loc(inner[0]))
    # stDiGraph per-node queries: descendants for 'reachable', ancestors for 'reaching', own SCC included
    for m, prim in (("nodes_reachable", "nx.descendants"), ("nodes_reaching", "nx.ancestors")):
        f = prog.own_method("stDiGraph", m)
        key = f"stDiGraph.{m}:primitive"
        prims = [c for c in calls_in(f.node) if dotted(c.func) in ("nx.descendants", "nx.ancestors")]
        if len(prims) != 1:
            raise AnalysisError(f"stDiGraph.{m}: expected one networkx reachability primitive, found {len(prims)}")
        c = prims[0]
        par = [n for n in ast.walk(f.node) if isinstance(n, ast.BinOp) and isinstance(n.op, ast.BitOr) and any(x is c for x in ast.walk(n))]
        arg = norm(c.args[1]) if len(c.args) > 1 else ""
        self_incl = any(norm(p.right) == "{%s}" % arg or norm(p.left) == "{%s}" % arg for p in par)
        if dotted(c.func) == prim and self_incl and norm(c.args[0]) in ("C", "self._condensation"):
            rep.ok(RID, key, f"{prim} on the condensation, united with the node's own SCC", f.loc(c))
        elif dotted(c.func) != prim:
            rep.violation(RID, key, f"`{m}` is computed with {dotted(c.func)}: it answers the opposite query", f.loc(c))
        elif not self_incl:
            rep.violation(RID, key, f"the SCC of the query node itself is not included (`| {{{arg}}}` missing): the node and its SCC are reported unreachable from themselves", f.loc(c))
        else:
            raise AnalysisError(f"stDiGraph.{m}: primitive applied to `{norm(c.args[0])}` - not the condensation")


def peeling_rule(prog: Program, rep, RID: str):
    """Greedy bottleneck peeling: what is subtracted from the working copy along a path is exactly what is published as the weight
    of that path, on every edge of it; the bottleneck DP takes min(incoming bottleneck, edge value), records the predecessor with
    every improvement and reports the value of the very path it reconstructs."""
    from sa.poly import to_poly
    f = prog.own_method("stDAG", "decompose_using_max_bottleneck")
    key = "stDAG.decompose_using_max_bottleneck"
    A = f.node.args.args[1].arg
    loops = [s for s in f.node.body if isinstance(s, ast.While)]
    if len(loops) != 1:
        raise AnalysisError(f"{key}: peeling loop not found")
    lp = loops[0]
    call = None
    for s in lp.body:
        if isinstance(s, ast.Assign) and isinstance(s.value, ast.Call) and (dotted(s.value.func) or "").endswith("max_bottleneck_path") and \
                isinstance(s.targets[0], ast.Tuple) and len(s.targets[0].elts) == 2:
            call = s
    if call is None:
        raise AnalysisError(f"{key}: call of max_bottleneck_path with (bottleneck, path) unpacking not found")
    X, P = (e.id for e in call.targets[0].elts)
    T = norm(call.value.args[0])
    # working copy
    tdefs = [s for s in f.node.body if isinstance(s, ast.Assign) and norm(s.targets[0]) == T]
    if T == "self" or (tdefs and norm(tdefs[0].value) in ("self",)):
        rep.violation(RID, key + ":copy", "the peeling subtracts from the graph object itself, not from a private copy", f.loc(call))
    elif tdefs and re.fullmatch(r"nx\.DiGraph\(\)|self\.copy\(\)|nx\.DiGraph\(self\)|copy\.deepcopy\(self\)", norm(tdefs[0].value)):
        rep.ok(RID, key + ":copy", f"works on the private graph `{T} = {norm(tdefs[0].value)}`", f.loc(tdefs[0]))
    else:
        raise AnalysisError(f"{key}: origin of the working graph `{T}` not recognised")
    # exit test right after the call
    idx = lp.body.index(call)
    nxt = lp.body[idx + 1] if idx + 1 < len(lp.body) else None
    if isinstance(nxt, ast.If) and norm(nxt.test) in (f"{P} is None", f"{X} is None") and any(isinstance(b, ast.Break) for b in nxt.body) or \
            isinstance(nxt, ast.If) and any(isinstance(b, ast.Return) for b in nxt.body) and norm(nxt.test) in (f"{P} is None", f"{X} is None"):
        rep.ok(RID, key + ":exit", "stops when no path with positive bottleneck is left", f.loc(nxt))
    else:
        raise AnalysisError(f"{key}: exit test after max_bottleneck_path not recognised")
    # subtraction loop
    from rules.common import inline_block_locals
    _cnt = {}
    for n_ in ast.walk(f.node):
        if isinstance(n_, ast.Name) and isinstance(n_.ctx, ast.Store):
            _cnt[n_.id] = _cnt.get(n_.id, 0) + 1
    # (locals naming the two nodes of the edge or the new value are read in place)
    subs = [inline_block_locals(s, {k_ for k_, c_ in _cnt.items() if c_ == 1}) for s in lp.body if isinstance(s, ast.For)]
    augs = [a for s in subs for a in ast.walk(s) if isinstance(a, ast.AugAssign)]
    # `t = t - x` is read like `t -= x` (the plain form does not touch the value object the caller's graph shares: C18.R1)
    for s in subs:
        ldefs_ = {st_.targets[0].id: st_.value for st_ in ast.walk(s) if isinstance(st_, ast.Assign) and len(st_.targets) == 1 and isinstance(st_.targets[0], ast.Name)}
        for a in ast.walk(s):
            if isinstance(a, ast.Assign) and len(a.targets) == 1 and isinstance(a.targets[0], ast.Subscript) and isinstance(a.value, ast.BinOp) and \
                    isinstance(a.value.op, (ast.Sub, ast.Add)) and \
                    norm(ldefs_.get(a.value.left.id, a.value.left) if isinstance(a.value.left, ast.Name) else a.value.left) == norm(a.targets[0]):
                augs.append(ast.copy_location(ast.AugAssign(target=a.targets[0], op=a.value.op, value=a.value.right), a))
    if len(subs) != 1 or len(augs) != 1 or not isinstance(subs[0].target, ast.Name):
        raise AnalysisError(f"{key}: subtraction loop not recognised")
    sl, aug = subs[0], augs[0]
    I = sl.target.id
    rng = sl.iter
    ok_rng = isinstance(rng, ast.Call) and dotted(rng.func) == "range" and \
        ((len(rng.args) == 1) or (len(rng.args) == 2 and norm(rng.args[0]) == "0"))
    if not ok_rng:
        raise AnalysisError(f"{key}: `{norm(rng)}` is not a range over the path positions")
    n_edges = to_poly(rng.args[-1]) - (to_poly(ast.parse(f"len({P})", mode="eval").body) - to_poly(ast.Constant(1)))
    # the subtraction is unconditional when it is a statement of the loop body itself (or the inlined plain form `t = t - x`) that no
    # `continue` / `break` / `return` can precede; what follows it (a log line under an `if`, say) does not make it conditional
    def _holds_sub(st_):
        return any(n is aug or (isinstance(n, ast.Assign) and getattr(n, "lineno", None) == getattr(aug, "lineno", None) and
                                getattr(n, "col_offset", None) == getattr(aug, "col_offset", None)) for n in ast.walk(st_))
    top = [i for i, st_ in enumerate(sl.body) if isinstance(st_, (ast.Assign, ast.AugAssign)) and _holds_sub(st_)]
    unconditional = bool(top) and not any(isinstance(n, (ast.Continue, ast.Break, ast.Return)) for st_ in sl.body[:top[0]] for n in ast.walk(st_))
    if n_edges.const_value() == 0 and not sl.orelse and unconditional:
        rep.ok(RID, key + ":all-edges", f"the subtraction visits all len({P}) - 1 edges of the path", f.loc(sl))
    elif n_edges.const_value() is not None and n_edges.const_value() != 0:
        rep.violation(RID, key + ":all-edges", f"`{norm(rng)}` visits {'fewer' if n_edges.const_value() < 0 else 'more'} than the len({P}) - 1 edges of the path: "
                      "the remaining flow of the skipped edge is never reduced, so the published weights do not add up to the flow on it", f.loc(sl))
    else:
        rep.violation(RID, key + ":all-edges", "the subtraction along the path is conditional: some edges of a peeled path keep their flow", f.loc(sl))
    # the working graph keeps the topology of the caller's graph while it is peeled: max_bottleneck_path starts at the nodes without incoming
    # edges and ends at those without outgoing edges *of the graph it is given*, so an edge or node taken out of (or added to) the working graph
    # turns an inner node of the caller's graph into a start or end of a later path (a float residue of 1e-17 is enough to get such a path)
    MUT = ("remove_edge", "remove_edges_from", "remove_node", "remove_nodes_from", "add_edge", "add_edges_from", "add_node", "add_nodes_from",
           "add_weighted_edges_from", "clear", "clear_edges", "update")
    muts = [c for n_ in lp.body for c in ast.walk(n_) if isinstance(c, ast.Call) and isinstance(c.func, ast.Attribute) and c.func.attr in MUT and
            norm(c.func.value) in (T, f"{T}._adj", f"{T}._pred", f"{T}._succ")]
    dels = [d for n_ in lp.body for d in ast.walk(n_) if isinstance(d, ast.Delete) and any(norm(t_).startswith(T + "[") or norm(t_).startswith(T + ".") for t_ in d.targets)]
    if muts or dels:
        bad = (muts + dels)[0]
        rep.violation(RID, key + ":topology", f"`{norm(bad)[:120]}` inside the peeling loop changes the topology of the working graph `{T}`: max_bottleneck_path takes the "
                      "nodes without incoming / outgoing edges of the graph it is given as the starts / ends of a path, so a later path starts or ends at an inner "
                      "node of the caller's graph (e.g. a saturated edge removed, and a float residue of 0.1 + 0.2 - 0.3 left on its neighbour)", f.loc(bad))
    else:
        rep.ok(RID, key + ":topology", f"no edge or node of the working graph `{T}` is added or removed inside the peeling loop: every peeled path runs between a node without "
               "incoming and a node without outgoing edges of the caller's graph", f.loc(lp))
    tgt = norm(aug.target)
    want_t = {f"{T}[{P}[{I}]][{P}[{I} + 1]][{A}]", f"{T}.edges[{P}[{I}], {P}[{I} + 1]][{A}]", f"{T}.edges[({P}[{I}], {P}[{I} + 1])][{A}]"}
    if tgt in want_t and isinstance(aug.op, ast.Sub) and norm(aug.value) == X:
        rep.ok(RID, key + ":amount", f"each edge ({P}[{I}], {P}[{I}+1]) loses exactly `{X}`, the value published as the weight", f.loc(aug))
    elif tgt in want_t:
        rep.violation(RID, key + ":amount", f"`{norm(aug)}`: the amount taken from the edge is not the bottleneck `{X}` that is published as the path's weight", f.loc(aug))
    else:
        raise AnalysisError(f"{key}: subtraction target `{tgt}` not recognised")
    apps = {norm(c.func.value): norm(c.args[0]) for s in lp.body if isinstance(s, ast.Expr) and isinstance(s.value, ast.Call)
            for c in [s.value] if isinstance(c.func, ast.Attribute) and c.func.attr == "append" and c.args}
    ret = [r for r in f.node.body if isinstance(r, ast.Return)]
    if sorted(apps.values()) == sorted([X, P]) and ret and isinstance(ret[-1].value, ast.Tuple) and \
            [norm(e) for e in ret[-1].value.elts] == [k for k, v in sorted(apps.items(), key=lambda kv: kv[1] != P)]:
        rep.ok(RID, key + ":publish", f"every peeled path is published once with its bottleneck; returned as (paths, weights)", f.loc(ret[-1]))
    else:
        rep.violation(RID, key + ":publish", f"path / weight bookkeeping of the peeling does not publish each peeled path with its bottleneck ({apps})", f.loc(lp))
    # --- the DP
    g = prog.function("flowpaths.utils.graphutils", "max_bottleneck_path")
    key = "max_bottleneck_path"
    G, A2 = g.node.args.args[0].arg, g.node.args.args[1].arg
    outer = [s for s in g.node.body if isinstance(s, ast.For) and norm(s.iter) == f"nx.topological_sort({G})"]
    if len(outer) != 1:
        raise AnalysisError(f"{key}: loop in topological order not found")
    V = outer[0].target.id
    inner = [s for s in ast.walk(outer[0]) if isinstance(s, ast.For) and s is not outer[0]]
    if len(inner) != 1 or norm(inner[0].iter) != f"{G}.predecessors({V})":
        raise AnalysisError(f"{key}: predecessor loop not recognised")
    U = inner[0].target.id
    cand = [s for s in inner[0].body if isinstance(s, ast.Assign) and isinstance(s.value, ast.Call) and dotted(s.value.func) in ("min", "max")]
    upd = [s for s in inner[0].body if isinstance(s, ast.If)]
    if len(cand) != 1 or len(upd) != 1:
        raise AnalysisError(f"{key}: recurrence not recognised")
    c = cand[0]
    Bn = None
    m = re.fullmatch(r"(\w+)\[%s\]" % U, norm(c.value.args[0])) or re.fullmatch(r"(\w+)\[%s\]" % U, norm(c.value.args[1]))
    if not m:
        raise AnalysisError(f"{key}: recurrence operand not recognised in `{norm(c.value)}`")
    Bn = m.group(1)
    edge_val = {f"{G}.edges[{U}, {V}][{A2}]", f"{G}[{U}][{V}][{A2}]", f"{G}.edges[({U}, {V})][{A2}]"}
    args = {norm(a) for a in c.value.args}
    if dotted(c.value.func) == "min" and args & edge_val and f"{Bn}[{U}]" in args and len(args) == 2:
        rep.ok(RID, key + ":recurrence", f"bottleneck through {U} = min({Bn}[{U}], value of the edge ({U},{V}))", g.loc(c))
    else:
        rep.violation(RID, key + ":recurrence", f"`{norm(c)}` is not min(bottleneck of the predecessor, value of the edge from it): the reported bottleneck can exceed an edge's "
                      "remaining flow", g.loc(c))
    C = norm(c.targets[0])
    u = upd[0]
    body = {norm(s) for s in u.body}
    preds = [s for s in u.body if isinstance(s, ast.Assign) and norm(s.value) == U and re.fullmatch(r"\w+\[%s\]" % V, norm(s.targets[0]))]
    if norm(u.test) in (f"{C} > {Bn}[{V}]", f"{Bn}[{V}] < {C}", f"{C} >= {Bn}[{V}]", f"{Bn}[{V}] <= {C}") and f"{Bn}[{V}] = {C}" in body and preds and not u.orelse:
        rep.ok(RID, key + ":update", "value and predecessor are updated together on every improvement", g.loc(u))
    else:
        rep.violation(RID, key + ":update", f"`if {norm(u.test)}` does not update the value and the predecessor together on improvement ({sorted(body)}): the reconstructed path "
                      "is not the one whose bottleneck is reported", g.loc(u))
    preds_any = [s for s in ast.walk(inner[0]) if isinstance(s, ast.Assign) and norm(s.value) == U and re.fullmatch(r"\w+\[%s\]" % V, norm(s.targets[0]))]
    Mn = norm(preds_any[0].targets[0]).split("[")[0] if preds_any else None
    rets = [r for r in g.node.body if isinstance(r, ast.Return)]
    whiles = [s for s in g.node.body if isinstance(s, ast.While)]
    if not rets or not isinstance(rets[-1].value, ast.Tuple) or len(whiles) != 1 or Mn is None:
        raise AnalysisError(f"{key}: path recovery not recognised")
    r = rets[-1].value
    m2 = re.fullmatch(r"%s\[(\w+)\]" % Bn, norm(r.elts[0]))
    rp = [s for s in g.node.body if isinstance(s, ast.Assign) and isinstance(s.value, ast.List) and len(s.value.elts) == 1]
    w = whiles[0]
    wapp = [norm(s) for s in w.body]
    # cursor form: `cur = <sink>; R = [cur]; while G.in_degree(cur) > 0: cur = Mn[cur]; R.append(cur)`
    cursor = None
    if m2 and rp and isinstance(rp[-1].value.elts[0], ast.Name):
        cdefs = [s for s in g.node.body if isinstance(s, ast.Assign) and len(s.targets) == 1 and norm(s.targets[0]) == rp[-1].value.elts[0].id]
        if len(cdefs) == 1 and norm(cdefs[0].value) == m2.group(1):
            cursor = rp[-1].value.elts[0].id
    if cursor is not None:
        R = norm(rp[-1].targets[0])
        ok = norm(w.test) == f"{G}.in_degree({cursor}) > 0" and wapp == [f"{cursor} = {Mn}[{cursor}]", f"{R}.append({cursor})"] and \
            norm(r.elts[1]) in (f"list(reversed({R}))", f"{R}[::-1]")
        if ok:
            rep.ok(RID, key + ":recover", f"the path is followed back from the sink whose value is returned, through the recorded predecessors, to a source", g.loc(w))
        else:
            raise AnalysisError(f"{key}: path recovery with a cursor not recognised (`while {norm(w.test)}: {wapp}`)")
    elif m2 and rp and norm(rp[-1].value.elts[0]) == m2.group(1):
        R = norm(rp[-1].targets[0])
        ok = norm(w.test) == f"{G}.in_degree({R}[-1]) > 0" and wapp == [f"{R}.append({Mn}[{R}[-1]])"] and norm(r.elts[1]) in (f"list(reversed({R}))", f"{R}[::-1]")
        if ok:
            rep.ok(RID, key + ":recover", f"the path is followed back from the sink whose value is returned, through the recorded predecessors, to a source", g.loc(w))
        else:
            rep.violation(RID, key + ":recover", f"path recovery `while {norm(w.test)}: {wapp}` -> `{norm(r.elts[1])}` does not follow the recorded predecessors from the reported sink back to a source", g.loc(w))
    else:
        rep.violation(RID, key + ":recover", f"the returned value `{norm(r.elts[0])}` is not the DP value of the sink the path is recovered from", g.loc(rets[-1]))
    srcinit = [s for s in outer[0].body if isinstance(s, ast.If) and norm(s.test) == f"{G}.in_degree({V}) == 0"]
    if srcinit and any(norm(s) == f"{Bn}[{V}] = float('inf')" for s in srcinit[0].body):
        rep.ok(RID, key + ":source-init", "sources start with an infinite bottleneck", g.loc(srcinit[0]))
    else:
        rep.violation(RID, key + ":source-init", "sources are not initialised with float('inf') under `in_degree == 0`", g.loc(outer[0]))


def antichain_network(prog: Program, rep, RID: str):
    """The min-cost-flow network behind the maximum edge antichain: the lower bound (demand) of an edge is the caller's weight
    when a weight function is given (0 when the edge is missing from it) and otherwise 1 for the edges of the input graph and 0
    for the synthetic source / sink edges; only edges leaving the source cost 1 (every path pays once)."""
    from rules.common import canonical_calls, expr_cases
    from sa import boolnf as B
    f = prog.own_method("stDAG", "compute_max_edge_antichain")
    calls = [(t, c, ln) for t, c, ln in canonical_calls(f.node) if re.match(r"\w+\.add_edge\(<self\.edges(\(\))?>\[0\], <self\.edges(\(\))?>\[1\]", t)]
    if len(calls) != 1:
        raise AnalysisError("compute_max_edge_antichain: construction of the flow network (one add_edge per edge of self) not recognised")
    call = ast.parse(calls[0][0].replace("<self.edges()>[0]", "U").replace("<self.edges()>[1]", "V").replace("<self.edges>[0]", "U").replace("<self.edges>[1]", "V"), mode="eval").body
    kws = {k.arg: k.value for k in call.keywords}
    if "l" not in kws or "c" not in kws:
        raise AnalysisError("compute_max_edge_antichain: lower bound `l` / cost `c` of the network edges not found")
    has_w = B.parse(ast.parse("weight_function is not None", mode="eval").body)
    truthy_atoms = B.atoms_of(B.parse(ast.parse("weight_function", mode="eval").body))
    inner = B.parse(ast.parse("U != self.source and V != self.sink", mode="eval").body)
    key = "stDAG.compute_max_edge_antichain:demand"
    problems = []
    for g, x in expr_cases(kws["l"]):
        # value-preserving conversions (exact fractions for the network simplex; int() of an Integral) are peeled off
        while isinstance(x, ast.Call) and len(x.args) == 1 and not x.keywords and \
                (dotted(x.func) in ("Fraction", "fractions.Fraction", "float") or (dotted(x.func) == "int" and "Integral" in B.key(g) and "weight_function" in norm(x.args[0]))):
            x = x.args[0]
        txt = norm(x)
        if B.atoms_of(g) & truthy_atoms:
            problems.append("the demand is chosen by the truth value of weight_function: an empty weight function (every edge ignored - all weights 0, "
                            "as get_width builds it) is treated like no weight function and the width of the full graph comes back")
        elif B.implies(g, has_w) and B.satisfiable(g):
            if txt not in ("weight_function.get((U, V), 0)", "weight_function.get((U, V), 0.0)"):
                problems.append(f"with a weight function the demand of (u, v) is `{txt}` (must be the caller's weight, 0 if missing)")
        elif B.implies(g, B.mk_not(has_w)):
            ok_ = False
            if txt in ("int(U != self.source and V != self.sink)", "int(V != self.sink and U != self.source)"):
                ok_ = True
            elif txt in ("1", "0"):
                need = inner if txt == "1" else B.mk_not(inner)
                ok_ = B.implies(g, need)
            if not ok_:
                problems.append(f"without a weight function the demand is `{txt}` under [{B.key(g)[:80]}] (must be 1 for input edges, 0 for synthetic source / sink edges)")
        else:
            problems.append(f"the demand `{txt}` does not depend on whether a weight function was given")
    if problems:
        rep.violation(RID, key, problems[0] + ": the reported optimum is not the maximum weight of an antichain", f"{f.module.relpath}:{calls[0][2]}")
    else:
        rep.ok(RID, key, "demand = caller's weight (0 if missing) / 1 for input edges, 0 for synthetic edges", f"{f.module.relpath}:{calls[0][2]}")
    key = "stDAG.compute_max_edge_antichain:cost"
    is_src = B.parse(ast.parse("U == self.source", mode="eval").body)
    bad = None
    for g, x in expr_cases(kws["c"]):
        txt = norm(x)
        if txt == "1" and not B.implies(g, is_src) or txt == "0" and not B.implies(g, B.mk_not(is_src)) or txt not in ("0", "1"):
            bad = f"cost `{txt}` under [{B.key(g)[:80]}]"
    if bad:
        rep.violation(RID, key, f"{bad}: each path must pay exactly 1 (on its first edge) for the flow value to count paths", f"{f.module.relpath}:{calls[0][2]}")
    else:
        rep.ok(RID, key, "cost 1 exactly on the edges leaving the source", f"{f.module.relpath}:{calls[0][2]}")


def antichain_numerics(prog: Program, rep, RID: str):
    """Numeric soundness of the antichain / min-cost-flow substrate for all non-negative weights: (a) a saturated cut edge belongs to
    the antichain iff its weight is positive (not: >= 1, which drops fractional weights); (b) the supply of the auxiliary flow
    exceeds every feasible flow value (sum of the demands) and the arcs are not capped by a constant; (c) an ignored edge listed
    twice is ignored once."""
    f = prog.own_method("stDAG", "compute_max_edge_antichain")
    tests = [c for c in ast.walk(f.node) if isinstance(c, ast.Compare) and len(c.ops) == 1 and norm(c.left).startswith("demand[")
             and isinstance(c.comparators[0], ast.Constant)]
    key = "stDAG.compute_max_edge_antichain:positive-weight-test"
    if not tests:
        raise AnalysisError("compute_max_edge_antichain: the weight test of the saturated cut edges was not found")
    for c in tests:
        op, k = c.ops[0], c.comparators[0].value
        if (isinstance(op, ast.Gt) and k == 0) or (isinstance(op, ast.NotEq) and k == 0):
            rep.ok(RID, key, f"`{norm(c)}`: every edge of positive weight can be in the antichain", f.loc(c))
        elif isinstance(op, ast.GtE) and k == 1:
            rep.violation(RID, key, f"`{norm(c)}` stands for 'has positive weight' only for integer weights: edges with a weight in (0, 1) are dropped from the antichain "
                          "(a->b with weight 0.5 gives an empty antichain and the method's own assertion fails)", f.loc(c))
        else:
            raise AnalysisError(f"compute_max_edge_antichain: weight test `{norm(c)}` not understood")
    # (b) supply and capacities
    g = prog.function("flowpaths.utils.graphutils", "min_cost_flow")
    from rules.common import all_local_defs
    defs = all_local_defs(g.node)
    sup = None
    for c in calls_in(g.node):
        if isinstance(c.func, ast.Attribute) and c.func.attr == "add_node" and c.args and norm(c.args[0]) in ("s", "t"):
            d = kwarg(c, "demand")
            if d is not None:
                sup = d
    key = "graphutils.min_cost_flow:supply"
    if sup is None:
        raise AnalysisError("min_cost_flow: supply of the source / sink not found")
    e = sup.operand if isinstance(sup, ast.UnaryOp) else sup
    seen = 0
    while isinstance(e, ast.Name) and e.id in defs and seen < 3:
        e = defs[e.id]
        seen += 1
    closure = [e]
    for _ in range(3):
        for x in list(closure):
            for n in ast.walk(x):
                if isinstance(n, ast.Name) and n.id in defs and defs[n.id] not in closure:
                    closure.append(defs[n.id])
    if isinstance(e, ast.Call) and dotted(e.func) == "max" and \
            any(isinstance(n, ast.Call) and dotted(n.func) == "sum" and "demands_attr" in norm(n) for x in closure for n in ast.walk(x)):
        rep.ok(RID, key, f"supply `{norm(e)[:80]}` exceeds the sum of the demands", g.loc())
    elif norm(e) in ("bigNumber", "graphutils.bigNumber") or isinstance(e, ast.Constant):
        rep.violation(RID, key, f"the supply of the auxiliary flow is the constant `{norm(e)}`: when the maximum antichain weighs more, the flow is infeasible, the blanket "
                      "except returns (None, None) and the antichain query returns None or raises TypeError (a->b with weight 2**32+1)", g.loc())
    else:
        raise AnalysisError(f"min_cost_flow: supply `{norm(e)[:80]}` not understood")
    caps = [kwarg(c, "u") for c in calls_in(f.node) if isinstance(c.func, ast.Attribute) and c.func.attr == "add_edge" and kwarg(c, "u") is not None]
    key = "stDAG.compute_max_edge_antichain:capacity"
    if not caps:
        raise AnalysisError("compute_max_edge_antichain: arc capacity not found")
    ctxt = norm(caps[0])
    if ctxt in ("float('inf')", 'float("inf")', "math.inf", "np.inf", "inf"):
        rep.ok(RID, key, "arcs are uncapacitated", f.loc())
    elif "bigNumber" in ctxt or isinstance(caps[0], ast.Constant):
        rep.violation(RID, key, f"every arc of the antichain network is capped by the constant `{ctxt}`: weights above it make the auxiliary flow infeasible", f.loc())
    else:
        raise AnalysisError(f"compute_max_edge_antichain: capacity `{ctxt}` not understood")
    # (d) the network simplex is an exact algorithm: float demands leave rounding residues and the network is reported infeasible
    key = "stDAG.compute_max_edge_antichain:exact-demands"
    reads = [c for c in calls_in(f.node) if isinstance(c.func, ast.Attribute) and c.func.attr == "get" and norm(c.func.value) == "weight_function"]
    if not reads:
        raise AnalysisError("compute_max_edge_antichain: the read of the weight function was not found")
    # names that carry the weight: the local it is read into, and the parameters of nested helpers that are called with it
    carriers = {"edge_demand"}
    for st in ast.walk(f.node):
        if isinstance(st, ast.Assign) and len(st.targets) == 1 and isinstance(st.targets[0], ast.Name) and any(n in reads for n in ast.walk(st.value)):
            carriers.add(st.targets[0].id)
    nested = {fd.name: fd for fd in ast.walk(f.node) if isinstance(fd, ast.FunctionDef) and fd is not f.node}
    for c in calls_in(f.node):
        if isinstance(c.func, ast.Name) and c.func.id in nested:
            for a, prm in zip(c.args, nested[c.func.id].args.args):
                if any(n in reads or (isinstance(n, ast.Name) and n.id in carriers) for n in ast.walk(a)):
                    carriers.add(prm.arg)

    def carries(e):
        return any((isinstance(n, ast.Name) and n.id in carriers) or n in reads for n in ast.walk(e))
    exact = [c for c in calls_in(f.node) if dotted(c.func) in ("Fraction", "fractions.Fraction", "Decimal", "decimal.Decimal") and c.args and carries(c.args[0])]
    ints = [c for c in calls_in(f.node) if dotted(c.func) in ("int", "round") and c.args and carries(c.args[0])]
    unguarded_int = [c for c in ints if not any(isinstance(i, (ast.If, ast.IfExp)) and any(c is x for x in ast.walk(i)) and ("Integral" in norm(i.test) or "is_integer" in norm(i.test))
                                               for i in ast.walk(f.node))]
    if unguarded_int:
        rep.violation(RID, key, f"`{norm(unguarded_int[0])}` truncates non-integral weights before the antichain is computed", f.loc(unguarded_int[0]))
    elif exact:
        rep.ok(RID, key, f"non-integral weights are handed to the network simplex as exact numbers (`{norm(exact[0])}`)", f.loc(exact[0]))
    else:
        rep.violation(RID, key, "the weights are handed to networkx.network_simplex as they come: the algorithm is exact only on exact numbers, with float demands (0.2 and 2.5 on two "
                      "edges into one node) it reports an infeasible network, the blanket except returns (None, None) and the query returns None or raises TypeError", f.loc(reads[0]))
    # (c) ignored edges are a set in stDiGraph.get_width
    h = prog.own_method("stDiGraph", "get_width")
    loops = [lp for lp in ast.walk(h.node) if isinstance(lp, ast.For) and "edges_to_ignore" in norm(lp.iter) and
             any(isinstance(x, ast.AugAssign) and isinstance(x.op, ast.Sub) for x in ast.walk(lp))]
    key = "stDiGraph.get_width:ignored-edges-once"
    if not loops:
        raise AnalysisError("stDiGraph.get_width: the loop decrementing the multiplicities of ignored edges was not found")
    it = loops[0].iter
    hdefs = all_local_defs(h.node)
    src = hdefs.get(it.id) if isinstance(it, ast.Name) else it
    if src is not None and isinstance(src, ast.Call) and dotted(src.func) in ("set", "frozenset"):
        rep.ok(RID, key, f"multiplicities are decremented once per distinct ignored edge (`{norm(src)[:60]}`)", h.loc(loops[0]))
    else:
        rep.violation(RID, key, f"the multiplicity of a condensation edge is decremented once per entry of `{norm(it)}`: an edge listed twice in edges_to_ignore removes two "
                      "parallel edges between the components and the width is under-estimated (stDAG.get_width uses a set)", h.loc(loops[0]))


def round7_helper_rules(prog: Program, rep, RID: str):
    """Three obligations of the public substrate helpers (hunt 7):
    (a) stDAG.get_flow_width: a capacity read from the caller's graph reaches the network simplex as a Python int when it is integral - the simplex keeps the
        type of the capacities for its flows, a fixed-width numpy integer overflows, min_cost_flow swallows the exception and the width comes back as None;
    (b) graphutils.max_bottleneck_path: the sink candidate starts as None and is chosen inside a loop; it is tested for None before it indexes the table
        (a graph without edges has no candidate);
    (c) compute_flow_decomp_safe_paths validates the flow values before it peels them (the peeling loop never ends on inf / nan)."""
    from rules.semantic import enclosing_tests
    # (a)
    f = prog.own_method("stDAG", "get_flow_width")
    adds = [c for c in calls_in(f.node) if isinstance(c.func, ast.Attribute) and c.func.attr == "add_edge" and any(k.arg == "u" for k in c.keywords)]
    if not adds:
        raise AnalysisError("stDAG.get_flow_width: the arcs of the min-cost-flow network were not found")
    for c in adds:
        cap = [k.value for k in c.keywords if k.arg == "u"][0]
        key = "stDAG.get_flow_width:capacity-as-python-int"
        if isinstance(cap, ast.Constant) or (isinstance(cap, ast.Call) and dotted(cap.func) == "float" and cap.args and isinstance(cap.args[0], ast.Constant)):
            rep.ok(RID, key, "constant capacity", f.loc(c))
            continue
        if not isinstance(cap, ast.Name):
            conv = isinstance(cap, (ast.Call, ast.IfExp)) and "int(" in norm(cap)
            (rep.ok if conv else rep.violation)(RID, key, f"capacity `{norm(cap)[:70]}`" + ("" if conv else " reaches the network simplex in the caller's type: np.int32 / np.uint8 flow "
                                                "values overflow in the simplex, min_cost_flow swallows the exception and get_flow_width returns None (no cover exists) where Python "
                                                "ints give the width"), f.loc(c))
            continue
        stores = [st for st in walk_no_nested(f.node) if isinstance(st, ast.Assign) and any(isinstance(t, ast.Name) and t.id == cap.id for t in st.targets) and st.lineno < c.lineno]
        raw = [st for st in stores if "flow_attr" in norm(st.value) and not (isinstance(st.value, ast.Call) and dotted(st.value.func) in ("int", "float", "Fraction"))]
        conv = [st for st in stores if isinstance(st.value, ast.Call) and dotted(st.value.func) == "int" and norm(st.value.args[0]) == cap.id and
                any("Integral" in norm(t) and pol for t, pol in enclosing_tests(f.node, st))]
        conv += [st for st in stores if isinstance(st.value, ast.IfExp) and "Integral" in norm(st.value.test) and norm(st.value.body).startswith("int(")]
        if raw and not conv:
            rep.violation(RID, key, f"`{norm(raw[0])[:80]}` reaches the network simplex in the caller's type: np.int32 / np.int16 / np.uint8 flow values overflow in the simplex "
                          "(it keeps the type of the capacities for its flows), min_cost_flow swallows the exception and get_flow_width returns None - its answer for 'no cover "
                          "exists' - where Python ints give the width 2", f.loc(raw[0]))
        elif conv:
            rep.ok(RID, key, "integral capacities are converted with int()", f.loc(conv[0]))
        else:
            raise AnalysisError(f"stDAG.get_flow_width: definition of the capacity `{cap.id}` not recognised")
    # (b)
    g = prog.function("flowpaths.utils.graphutils", "max_bottleneck_path")
    none_init = [st.targets[0].id for st in g.node.body if isinstance(st, ast.Assign) and len(st.targets) == 1 and isinstance(st.targets[0], ast.Name) and
                 isinstance(st.value, ast.Constant) and st.value.value is None]
    for nm in none_init:
        loop_stores = [st for lp in g.node.body if isinstance(lp, (ast.For, ast.While)) for st in ast.walk(lp)
                       if isinstance(st, ast.Assign) and any(isinstance(t, ast.Name) and t.id == nm for t in st.targets)]
        if not loop_stores:
            continue
        last_loop = max(lp.end_lineno for lp in g.node.body if isinstance(lp, (ast.For, ast.While)) and any(st in list(ast.walk(lp)) for st in loop_stores))
        uses = [n for n in ast.walk(g.node) if isinstance(n, ast.Subscript) and isinstance(n.slice, ast.Name) and n.slice.id == nm and n.lineno > last_loop]
        if not uses:
            continue
        first = min(uses, key=lambda n: (n.lineno, n.col_offset))
        key = f"max_bottleneck_path:{nm}-may-be-None"
        guarded = False
        for st in g.node.body:
            if isinstance(st, ast.If) and last_loop < st.lineno <= first.lineno:
                t = st.test
                parts = t.values if isinstance(t, ast.BoolOp) and isinstance(t.op, ast.Or) else [t]
                pos = [i for i, p_ in enumerate(parts) if norm(p_) in (f"{nm} is None", f"not {nm}")]
                use_in = [i for i, p_ in enumerate(parts) if any(x is first for x in ast.walk(p_))]
                if pos and (not use_in or pos[0] < use_in[0]) and st.body and isinstance(st.body[-1], (ast.Return, ast.Raise)):
                    guarded = True
        if guarded:
            rep.ok(RID, key, f"`{nm} is None` leaves before `{norm(first)}` is read", g.loc(first))
        else:
            rep.violation(RID, key, f"`{norm(first)}` is read although `{nm}` is still None when the loop chose no candidate: a graph without edges (isolated nodes only) raises "
                          "KeyError(None) - from max_bottleneck_path, stDAG.decompose_using_max_bottleneck and compute_flow_decomp_safe_paths - instead of the documented "
                          "(None, None)", g.loc(first))
    # (c)
    h = prog.function("flowpaths.utils.safetyflowdecomp", "compute_flow_decomp_safe_paths")
    peel = [c for c in calls_in(h.node) if isinstance(c.func, ast.Attribute) and c.func.attr == "decompose_using_max_bottleneck"]
    val = [c for c in calls_in(h.node) if isinstance(c.func, ast.Attribute) and c.func.attr == "get_max_flow_value_and_check_non_negative_flow"]
    key = "compute_flow_decomp_safe_paths:validate-before-peeling"
    if not peel:
        raise AnalysisError("compute_flow_decomp_safe_paths: the greedy decomposition was not found")
    from rules.common import statements_before
    before_peel = statements_before(h.node.body, peel[0])
    val_first = [c for c in val if any(x is c for st in before_peel for x in ast.walk(st))]
    if val_first and not enclosing_tests(h.node, val_first[0]):
        rep.ok(RID, key, "the flow values are checked (finite, non-negative, present) before they are peeled", h.loc(val_first[0]))
    else:
        rep.violation(RID, key, "the greedy decomposition runs on flow values nothing has validated: the peeling loop subtracts bottlenecks until nothing is left, which never "
                      "happens for an infinite or NaN value (a one-edge graph with flow inf never returns), and a missing attribute raises KeyError instead of the documented "
                      "ValueError", h.loc(peel[0]))


def check(prog: Program, rep):
    am = AliasModel(prog)
    rep.rule("C17.R1", "cache ownership", floor=9)
    cache_ownership(prog, rep, "C17.R1")
    rep.rule("C17.R1c", "attribute caches of parameterised queries are keyed by (a test on) every parameter", floor=3)
    unkeyed_caches(prog, rep, "C17.R1c")
    rep.rule("C17.R2", "queries do not mutate substrate state; cached results are not mutated by callers", floor=30)
    query_purity(prog, rep, "C17.R2", am)
    rep.rule("C17.R3", "frozen substrate", floor=3)
    frozen_rule(prog, rep, "C17.R3")
    rep.rule("C17.R4", "reachability tables: direction, processing order, seed and edge orientation agree with the query", floor=16)
    dp_direction(prog, rep, "C17.R4")
    rep.rule("C17.R5", "bottleneck peeling: subtracted amount == published weight on every edge of the path; the working graph keeps its topology; DP recurrence and path recovery", floor=10)
    peeling_rule(prog, rep, "C17.R5")
    rep.rule("C17.R6", "maximum edge antichain: demands and costs of the min-cost-flow network", floor=2)
    antichain_network(prog, rep, "C17.R6")
    from rules.c09 import width_cache
    rep.rule("C17.R3b", "width cache key", floor=4)
    width_cache(prog, rep, "C17.R3b")
    rep.rule("C17.R7", "antichain / min-cost-flow numerics: positive-weight test, supply above the sum of demands, uncapacitated arcs, exact demands, ignored edges counted once", floor=5)
    antichain_numerics(prog, rep, "C17.R7")
    round7_helper_rules(prog, rep, "C17.R7")
    from rules.values import no_memoised_functions_of_caller_objects
    no_memoised_functions_of_caller_objects(prog, rep, "C17.R1c", ["flowpaths.utils.graphutils", "flowpaths.utils.safetyflowdecomp", "flowpaths.utils.safetypathcovers", "flowpaths.utils.safetypathcoverscycles"])
