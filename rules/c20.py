"""C20 - graph files are parsed faithfully and malformed files are rejected.

Faithfulness of the parse is a round trip over runtime text: not applicable to static analysis.  Decided: the rejection clause
(error discipline of read_graph / read_graphs) and two ordering facts.
"""
from __future__ import annotations

import ast
import re

from sa.pm import Program, dotted, norm, calls_in, walk_no_nested, AnalysisError
from rules import val
from rules.semantic import enclosing_tests

EXPLANATION = (
    "Decides the rejection clause: (R1) in read_graph every tabled validation site (missing vertex-count line, edge line without exactly "
    "three fields, constraint edge missing from the graph) is present and dominates the normal exits of its region by dataflow; the arity "
    "test precedes the unpacking of an edge line; every int()/float() applied to file text is either unguarded or inside a handler that "
    "re-raises; the constraint check is an *edge*-membership test over *all* constraint subpaths, placed after the edge loop; all raises "
    "are ValueError and no handler swallows; read_graphs hands every block to read_graph; (R2) the stored counts n, m, w are computed from "
    "(R4) read_graphs splits blocks only by `line starts with '#'` (all three scanning loops), so '#S' lines open / belong to a block like any header line.  "
    " (R5) no exit of read_graph precedes the constraint check and every exit stores n, m, w; a weight that float() accepts but is not finite is rejected; read_graphs rejects non-blank content before the first header. "
    "the graph after the last add_edge.  NOT decided: that the graph equals the file's content (round trip over runtime text)."
    " (R5, seeds 6) the filter that drops repeated '#S' lines is keyed by the node sequence in order (no set / frozenset / sorted of the edges)."
)
DECIDED = ["malformed edge line / non-numeric weight or count / constraint edge missing from the graph raise ValueError on every path",
           "stored n, m, w are computed from the finished graph"]
NOT_DECIDED = ["the parsed graphs have exactly the listed edges, weights, ids and constraints (faithfulness)"]

EDGE_MEMBERSHIP = [r"^not G\.has_edge\((\w+), (\w+)\)$", r"^\((\w+), (\w+)\) not in G\.edges(\(\))?$", r"^not \(\((\w+), (\w+)\) in G\.edges(\(\))?\)$"]


def block_boundaries(prog: Program, rep, RID: str):
    """read_graphs splits a file into blocks by one criterion only: whether a line starts with '#'.  Every scanning loop of the
    splitter tests the index bound and that criterion - nothing else about the line (a '#S' constraint line is a header line like
    any other: it opens / belongs to a block)."""
    from sa import boolnf as B
    f = prog.function("flowpaths.utils.graphutils", "read_graphs")
    loops = [n for n in ast.walk(f.node) if isinstance(n, ast.While)]
    scans = []
    for w in loops:
        fm = B.parse(w.test)
        ats = B.atoms_of(fm)
        if any("startswith(" in a or "[0] ==" in a or "== '#'" in a for a in ats):
            scans.append((w, fm, ats))
    if len(scans) < 3:
        raise AnalysisError(f"read_graphs: expected three scanning loops (skip to header, consume header, advance to next header), found {len(scans)}")
    HASH = r"^lines\[\w+\](\.lstrip\(\)|\.strip\(\))?\.startswith\('#'\)$"
    for w, fm, ats in scans:
        key = f"read_graphs:scan@{norm(w.test)[:50]}"
        other = [a for a in ats if "startswith(" in a and not re.fullmatch(HASH, a)]
        unknown = [a for a in ats if "startswith(" not in a and not re.match(r"^(LT0|LE0)\[", a)]
        if other:
            rep.violation(RID, key, f"the block splitter also looks at `{other[0]}`: lines starting with '#' are no longer treated alike, so header / '#S' lines at the "
                          "start of a block are dropped or left in the previous block (constraints lost, malformed '#S' lines not rejected)", f.loc(w))
        elif unknown:
            raise AnalysisError(f"read_graphs: scanning condition `{norm(w.test)}` uses `{unknown[0]}`: not recognised")
        else:
            rep.ok(RID, key, "scans by the index bound and `line starts with '#'` only", f.loc(w))
    # polarity pattern: skip (not #) -> consume (#) -> advance (not #)
    pol = []
    for w, fm, ats in scans:
        h = [a for a in ats if re.fullmatch(HASH, a)]
        if h:
            pol.append(B.implies(fm, B.atom(h[0])))
    key = "read_graphs:scan-order"
    if pol[:3] == [False, True, False]:
        rep.ok(RID, key, "skip non-header lines, consume the header lines, advance to the next header", f.loc())
    else:
        rep.violation(RID, key, f"the three scans do not alternate skip-non-header / consume-header / advance-to-next-header (polarities {pol})", f.loc())


def exits_after_validation(prog: Program, rep, RID: str):
    f = prog.function("flowpaths.utils.graphutils", "read_graph")
    cons_loop = None
    for st in f.node.body:
        if isinstance(st, ast.For) and "constraint" in norm(st.iter) and any(isinstance(x, ast.Raise) for x in ast.walk(st)):
            cons_loop = st
    if cons_loop is None:
        raise AnalysisError("read_graph: constraint validation loop not found")
    rets = [r for r in walk_no_nested(f.node) if isinstance(r, ast.Return)]
    if not rets:
        raise AnalysisError("read_graph: no return found")
    for r in rets:
        key = f"read_graph:exit@{'/'.join(norm(t)[:30] for t, p in enclosing_tests(f.node, r)) or 'end'}"
        if r.lineno < cons_loop.lineno:
            rep.violation(RID, key, f"read_graph returns (under {[norm(t) for t, p in enclosing_tests(f.node, r)]}) before the edge lines are parsed and the constraint "
                          "edges validated: such a block (vertex count 0) is accepted with malformed edge lines or constraints naming absent edges, its listed "
                          "edges are dropped and n / m / w are not stored", f.loc(r))
            continue
        # stores of n, m, w that precede this return on its path (top level, or in the block the return is in)
        stored = set()
        chain = [id(t) for t, p in enclosing_tests(f.node, r)]
        for st in walk_no_nested(f.node):
            if isinstance(st, ast.Assign) and isinstance(st.targets[0], ast.Subscript) and norm(st.targets[0].value) == "G.graph" and \
                    isinstance(st.targets[0].slice, ast.Constant) and st.lineno < r.lineno:
                own = [id(t) for t, p in enclosing_tests(f.node, st)]
                if own == chain[:len(own)]:
                    stored.add(st.targets[0].slice.value)
        if {"n", "m", "w"} <= stored:
            rep.ok(RID, key, "after the constraint check, with n, m, w stored", f.loc(r))
        else:
            rep.violation(RID, key, f"this exit of read_graph leaves {sorted({'n', 'm', 'w'} - stored)} unset in G.graph", f.loc(r))
    # finite weights
    conv = [st for st in ast.walk(f.node) if isinstance(st, ast.Assign) and isinstance(st.value, ast.Call) and dotted(st.value.func) == "float" and
            isinstance(st.targets[0], ast.Name)]
    if not conv:
        raise AnalysisError("read_graph: weight conversion float(...) not found")
    wname = conv[0].targets[0].id
    finite = [st for st in ast.walk(f.node) if isinstance(st, ast.If) and any(isinstance(b, ast.Raise) for b in st.body) and
              re.search(r"(math\.)?(isfinite|isnan|isinf)\(%s\)" % wname, norm(st.test))]
    key = "read_graph:finite-weight"
    if finite and "isfinite" in norm(finite[0].test) or (finite and "isnan" in norm(finite[0].test) and "isinf" in norm(finite[0].test)):
        rep.ok(RID, key, f"a weight that float() accepts but is not a finite number (nan, inf) is rejected: `{norm(finite[0].test)[:70]}`", f.loc(finite[0]))
    else:
        rep.violation(RID, key, f"the weight is validated by float() alone, which accepts 'nan', 'inf' and 'Infinity': such an edge is stored with a nan / infinite flow "
                      "instead of raising ValueError for the non-numeric weight", f.loc(conv[0]))
    # content before the first header
    g = prog.function("flowpaths.utils.graphutils", "read_graphs")
    outer = [w for w in g.node.body if isinstance(w, ast.While)]
    if not outer:
        raise AnalysisError("read_graphs: outer scanning loop not found")
    first_skip = next((w for w in outer[0].body if isinstance(w, ast.While)), None)
    if first_skip is None:
        raise AnalysisError("read_graphs: the loop skipping to the next header not found")
    key = "read_graphs:content-before-first-header"
    rej = [st for st in ast.walk(first_skip) if isinstance(st, ast.If) and any(isinstance(b, ast.Raise) for b in st.body) and "strip()" in norm(st.test)]
    if rej:
        rep.ok(RID, key, f"non-blank lines that belong to no block are rejected: `{norm(rej[0].test)}`", g.loc(rej[0]))
    else:
        rep.violation(RID, key, "the loop that moves to the next header skips any line: content before the first '#' line (a first header that lost its '#', a file "
                      "without headers) is dropped without an error and the file comes back with fewer graphs", g.loc(first_skip))


def distinct_lines_distinct_constraints(prog: Program, rep, RID: str):
    """Each distinct '#S' line is one subpath constraint.  read_graph drops repeated lines through a `seen` set: the key of that set has to determine the
    line's node sequence (tuple of the nodes / of the edges in order, the stripped text).  A key that forgets order or multiplicity - a set / frozenset /
    sorted() of the edges - identifies different walks over the same edges (`a b c a` and `b c a b`) and the later line is silently dropped."""
    from rules.common import all_local_defs, substitute_locals
    f = prog.function("flowpaths.utils.graphutils", "read_graph")
    defs = all_local_defs(f.node)
    apps = [c for c in calls_in(f.node) if isinstance(c.func, ast.Attribute) and c.func.attr == "append" and "constraint" in norm(c.func.value)]
    if not apps:
        raise AnalysisError("read_graph: no append to the list of constraints found")
    from rules.semantic import enclosing_tests
    n = 0
    for c in apps:
        for t, pol in enclosing_tests(f.node, c):
            if not (isinstance(t, ast.Compare) and len(t.ops) == 1 and isinstance(t.ops[0], (ast.NotIn, ast.In)) and isinstance(t.comparators[0], ast.Name)):
                continue
            if isinstance(t.ops[0], ast.In) == pol:
                continue        # reached when the key *is* in the set: not the first-occurrence branch
            n += 1
            keyx = t.left
            for _ in range(4):
                keyx = substitute_locals(keyx, defs)
            txt = norm(keyx)
            key = "read_graph:distinct-lines-distinct-constraints"
            lossy = [x for x in ast.walk(keyx) if isinstance(x, ast.Call) and dotted(x.func) in ("set", "frozenset", "sorted", "Counter", "collections.Counter", "len", "hash")] + \
                    [x for x in ast.walk(keyx) if isinstance(x, (ast.Set, ast.SetComp))]
            exact = re.fullmatch(r"tuple\((.+)\)|' '\.join\((.+)\)|(\w+(\[\d*:\d*\])?(\.strip\(\))*)", txt)
            if lossy:
                rep.violation(RID, key, f"repeated '#S' lines are recognised by the key `{txt[:80]}`, which forgets the order / multiplicity of the nodes: two different walks over the "
                              "same edges (`#S a b c a` and `#S b c a b`) count as one line and the later constraint is silently dropped from G.graph['constraints']", f.loc(t))
            elif exact:
                rep.ok(RID, key, f"repeated lines are recognised by `{txt[:60]}` (the node sequence in order)", f.loc(t))
            else:
                raise AnalysisError(f"read_graph: the key `{txt[:80]}` of the repeated-line filter is not recognised")
    if n == 0:
        rep.ok(RID, "read_graph:distinct-lines-distinct-constraints", "no line is dropped as a repetition", f.loc())


def check(prog: Program, rep):
    rep.rule("C20.R1", "error discipline of read_graph / read_graphs", floor=9)
    val.check_sites(prog, rep, "C20.R1", only_funcs=lambda k: k.endswith(":read_graph"))
    f = prog.function("flowpaths.utils.graphutils", "read_graph")
    # arity test precedes the unpacking
    unpack = None
    for st in walk_no_nested(f.node):
        if isinstance(st, ast.Assign) and isinstance(st.targets[0], ast.Tuple) and len(st.targets[0].elts) == 3 and isinstance(st.value, ast.Name):
            unpack = st
    if unpack is None:
        raise AnalysisError("read_graph: unpacking of an edge line not found")
    src = unpack.value.id
    guard = None
    for st in walk_no_nested(f.node):
        if isinstance(st, ast.If) and any(isinstance(b, ast.Raise) for b in st.body):
            t = norm(st.test).replace(" ", "")
            if t in (f"len({src})!=3", f"3!=len({src})", f"notlen({src})==3"):
                guard = st
    key = "read_graph:arity-before-unpack"
    if guard is not None and guard.lineno < unpack.lineno and val.enclosing_loop(f.node, guard) is val.enclosing_loop(f.node, unpack):
        rep.ok("C20.R1", key, f"`len({src}) != 3 -> ValueError` precedes `{norm(unpack)}` in the same loop", f.loc(unpack))
    else:
        rep.violation("C20.R1", key, f"an edge line is unpacked (`{norm(unpack)}`) without a preceding `len({src}) != 3` rejection: a malformed line raises "
                      "an unpacking error of another type or is mis-parsed", f.loc(unpack))
    # numeric conversions of file text
    n_conv = 0
    for t in walk_no_nested(f.node):
        if isinstance(t, ast.Try):
            convs = [c for s in t.body for c in calls_in(s) if dotted(c.func) in ("int", "float")]
            if not convs:
                continue
            for h in t.handlers:
                n_conv += 1
                key = f"read_graph:conversion:{dotted(convs[0].func)}:except {norm(h.type) if h.type else '<bare>'}"
                rer = [r for r in ast.walk(h) if isinstance(r, ast.Raise)]
                ok = bool(rer) and all(val.raise_is_value_error(r, f.node) in (True,) or (r.exc is None and h.type is not None and norm(h.type) == "ValueError") for r in rer)
                if ok:
                    rep.ok("C20.R1", key, "handler re-raises the ValueError", f.loc(h))
                else:
                    rep.violation("C20.R1", key, "a non-numeric vertex count / weight is swallowed or converted to another exception type", f.loc(h))
    if n_conv == 0:
        rep.ok("C20.R1", "read_graph:conversion:unguarded", "numeric conversions are unguarded: ValueError propagates", f.loc(), nontrivial=False)
    # constraint membership: after the edge loop, over all subpaths, edge-membership predicate
    edge_loop = None
    cons_loop = None
    for st in f.node.body:
        if isinstance(st, ast.For) and any(isinstance(c.func, ast.Attribute) and c.func.attr == "add_edge" for c in calls_in(st)):
            edge_loop = st
        if isinstance(st, ast.For) and "constraint" in norm(st.iter) and any(isinstance(x, ast.Raise) for x in ast.walk(st)):
            cons_loop = st
    key = "read_graph:constraint-edge-membership"
    if edge_loop is None or cons_loop is None:
        rep.violation("C20.R1", key, "edge loop or constraint validation loop not found at the top level of read_graph", f.loc())
    else:
        probs = []
        if cons_loop.lineno < edge_loop.lineno:
            probs.append("the constraint check runs before the edges are added")
        cdefs = [st for st in walk_no_nested(f.node) if isinstance(st, ast.Assign) and norm(st.targets[0]) == norm(cons_loop.iter)]
        if not isinstance(cons_loop.iter, ast.Name):
            probs.append(f"iterates `{norm(cons_loop.iter)}` instead of the full list of constraint subpaths")
        inner = [n for n in ast.walk(cons_loop) if isinstance(n, ast.For) and n is not cons_loop]
        if not inner or norm(inner[0].iter) != norm(cons_loop.target):
            probs.append("does not visit every edge of each subpath")
        pred = None
        for n in ast.walk(cons_loop):
            if isinstance(n, ast.If) and any(isinstance(b, ast.Raise) for b in n.body):
                pred = norm(n.test)
        if pred is None:
            # `if <edge present>: continue` followed by the raise in the same block is `if not <edge present>: raise`
            for n in ast.walk(cons_loop):
                blk = getattr(n, "body", None)
                if isinstance(n, ast.For) and isinstance(blk, list):
                    for i_, b in enumerate(blk):
                        if isinstance(b, ast.Raise) and i_ > 0:
                            g_ = next((x for x in reversed(blk[:i_]) if isinstance(x, ast.If)), None)
                            if g_ is not None and not g_.orelse and len(g_.body) == 1 and isinstance(g_.body[0], ast.Continue) and \
                                    all(isinstance(x, (ast.If, ast.Expr)) for x in blk[:i_]):
                                pred = norm(ast.UnaryOp(op=ast.Not(), operand=g_.test))
        # a local that holds the edge set of the graph, stored after the edge loop and before the validation (`edge_set = set(G.edges())`),
        # stands for G.edges in the predicate
        if pred is not None:
            for st in f.node.body:
                if isinstance(st, ast.Assign) and len(st.targets) == 1 and isinstance(st.targets[0], ast.Name) and edge_loop.lineno < st.lineno < cons_loop.lineno and \
                        re.fullmatch(r"(set|frozenset)\((\w+)\.edges(\(\))?\)", norm(st.value)) and \
                        sum(1 for x in ast.walk(f.node) if isinstance(x, ast.Name) and isinstance(x.ctx, ast.Store) and x.id == st.targets[0].id) == 1:
                    gname = re.fullmatch(r"(set|frozenset)\((\w+)\.edges(\(\))?\)", norm(st.value)).group(2)
                    pred = re.sub(r"\b%s\b" % re.escape(st.targets[0].id), gname + ".edges", pred)
        if pred is None or not any(re.match(p, pred) for p in EDGE_MEMBERSHIP):
            probs.append(f"the predicate `{pred}` is not an edge-membership test (accepted: not G.has_edge(u, v) / (u, v) not in G.edges): a constraint naming "
                         "two existing nodes that are not joined by an edge is accepted")
        if probs:
            rep.violation("C20.R1", key, "; ".join(probs), f.loc(cons_loop))
        else:
            rep.ok("C20.R1", key, f"after the edge loop, for every subpath and every pair: `{pred}` -> ValueError", f.loc(cons_loop), sample={"predicate": pred})
    # read_graphs -> read_graph for every block, no handler
    g = prog.function("flowpaths.utils.graphutils", "read_graphs")
    calls = [c for c in calls_in(g.node) if dotted(c.func) == "read_graph"]
    trys = [t for t in walk_no_nested(g.node) if isinstance(t, ast.Try)]
    key = "read_graphs:delegates"
    if calls and not trys:
        rep.ok("C20.R1", key, "every block is handed to read_graph; no exception handler in between", g.loc(calls[0]))
    else:
        rep.violation("C20.R1", key, "read_graphs does not hand blocks to read_graph unguarded (errors of a block may be swallowed)", g.loc())
    # exception type
    for r in walk_no_nested(f.node):
        if isinstance(r, ast.Raise):
            ve = val.raise_is_value_error(r, f.node)
            key = f"read_graph:raise@{f.loc(r).split(':')[-1] if False else norm(r)[:40]}"
            if ve is False:
                rep.violation("C20.R1", key, f"read_graph raises `{norm(r.exc)[:40]}` instead of ValueError", f.loc(r))
            elif ve is None:
                rep.violation("C20.R1", key, "bare raise outside `except ValueError`", f.loc(r))
            else:
                rep.ok("C20.R1", key, "ValueError", f.loc(r), nontrivial=False)
    rep.rule("C20.R3", "the stored width is computed with the demands the width definition states (shared with C09.R7)", floor=4)
    from rules.c09 import width_demands
    width_demands(prog, rep, "C20.R3")
    rep.rule("C20.R2", "n, m, w are computed from the graph after the last add_edge", floor=3)
    last_add = max([c.lineno for c in calls_in(f.node) if isinstance(c.func, ast.Attribute) and c.func.attr == "add_edge"] or [0])
    want = {"n": r"^G\.number_of_nodes\(\)$", "m": r"^G\.number_of_edges\(\)$", "w": r"stDiGraph\(G\)\.get_width\(\)$"}
    # a local stored once, after the last add_edge and at the top level of the function, stands for its value (`num_edges = G.number_of_edges()`)
    from rules.common import local_single_defs, substitute_locals
    _late = {}
    _lsd_ = local_single_defs(f.node)
    for st_ in f.node.body:
        if isinstance(st_, ast.Assign) and len(st_.targets) == 1 and isinstance(st_.targets[0], ast.Name) and st_.targets[0].id in _lsd_ and st_.lineno > last_add:
            _late[st_.targets[0].id] = st_.value
    _stores_orig = [st for st in walk_no_nested(f.node)]
    for st in _stores_orig:
        if isinstance(st, ast.Assign) and isinstance(st.targets[0], ast.Subscript) and norm(st.targets[0].value) == "G.graph" and \
                isinstance(st.targets[0].slice, ast.Constant) and st.targets[0].slice.value in want:
            k = st.targets[0].slice.value
            key = f"read_graph:stored-{k}"
            tests_ = [norm(substitute_locals(t_, _late)) for t_, pol_ in enclosing_tests(f.node, st) if pol_]
            if isinstance(st.value, ast.Name) and st.value.id in _late:
                import copy as _cp
                st = ast.copy_location(ast.Assign(targets=st.targets, value=_cp.deepcopy(_late[st.value.id])), st)
            if st.lineno > last_add and k == "w" and isinstance(st.value, ast.Constant) and st.value.value == 0 and \
                    any(t_.replace(" ", "") in ("G.number_of_edges()==0", "0==G.number_of_edges()", "notG.number_of_edges()") for t_ in tests_):
                rep.ok("C20.R2", key + ":edgeless", "a block without edges stores width 0 (there is no source-sink graph to measure)", f.loc(st))
            elif st.lineno > last_add and re.search(want[k], norm(st.value)):
                rep.ok("C20.R2", key, f"G.graph['{k}'] = {norm(st.value)} after the edge loop", f.loc(st))
            else:
                rep.violation("C20.R2", key, f"G.graph['{k}'] = {norm(st.value)} is not computed from the finished graph", f.loc(st))
    rep.rule("C20.R4", "block boundaries of read_graphs depend only on `line starts with '#'`", floor=4)
    block_boundaries(prog, rep, "C20.R4")
    rep.rule("C20.R5", "every block is validated and gets its counts: no exit before the constraint check, n / m / w stored on every exit; weights are finite "
             "numbers; content before the first header is rejected", floor=4)
    exits_after_validation(prog, rep, "C20.R5")
    distinct_lines_distinct_constraints(prog, rep, "C20.R5")
