"""C15 - MinGenSet and MinSetCover return true optima whenever one exists."""
from __future__ import annotations

import ast
import re

from sa.pm import Program, dotted, norm, calls_in, walk_no_nested, AnalysisError
from sa.poly import to_poly
from rules.formulation import conformance
from rules import semantic
from rules.c13 import k_loop_protocol
from rules.search import range_rule
from rules.common import stores_to_self_attr
from rules.semantic import enclosing_tests

EXPLANATION = (
    "Decides: (R1) the formulations conform to the frozen table: sum g = total; sum_i pi[i,j] = numbers[j] for all j; pi linked to (x, g) by the "
    "helper chosen by max_multiplicity with bounds equal to the declared ones; symmetry and partition rows; set cover: sum_{i: e in S_i} x_i >= 1 "
    "for every element and min sum w_i x_i; (R2) MinGenSet.solve follows the search protocol on all paths (next k only after infeasible, True "
    "only with a proven model, starts at the lower bound); (R3) its k-range reaches len(numbers)+1 (witness numbers=[3], total=10); (R4) a "
    "parameter whose default is None is never subscripted without a None test or a normalisation in the constructor; (R5) complement "
    "removal drops `total - x` only under a *strict* comparison with x (a value equal to half the total is not its own complement).  "
    " (R6) with multiplicities the products x*g and the integer product helper are bounded by max(total, numbers), and (R1, extended) the bit expansion of the multiplicity is sized from max_multiplicity (integer_ub), not from the product bound. "
    " (R7) values read from the solver are rounded, never truncated (int() / weight_type() on a raw value) and binaries are read by a threshold, never by == 1; data in equality rows is converted to Python numbers; (R5, extended) the complement total - x is removed only under max_multiplicity == 1; (R3, extended) the k-range grows by t - 1 per partition constraint with t parts. "
    "A max / min over the partition constraints where the bound needs their sum is reported as a bound below K+1.  NOT decided: minimality; that complement removal preserves the optimum."
    ' (R2, round 3) the first k tried is at least 1.'
    ' (R7, hunt 4) the partition sums are compared exactly when integral and within the rounding error of the sum otherwise (no fixed tolerance).'
    ' (R8, hunt 5) the numbers the lower-bound helpers of MinFlowDecomp(.Cycles) hand to MinGenSet are summed as Python numbers (np.uint8 169 + 170 + 171 = 254 gave the bound 4 for three disjoint routes), MinGenSet stores max_multiplicity as a Python number, and MinFlowDecompCycles leaves its helper before it passes a flow value below 1 as that count.'
    ' (R5, seeds 5) besides complements only the total and 0 are dropped outright (guard evaluated on a grid of small integers); (R2, hunt 6) names read through self.solver are members of SolverWrapper.'
)
DECIDED = ["formulation of both models", "search protocol and range of MinGenSet", "documented None defaults are usable", "complement removal is strict"]
NOT_DECIDED = ["the returned multiset / cover is minimum", "complement removal is optimum preserving (number-theoretic argument)"]


def none_defaults(prog: Program, rep, RID: str):
    for cname in ("MinSetCover", "MinGenSet"):
        cls = prog.cls(cname)
        init = prog.own_method(cname, "__init__")
        for p, d in init.defaults().items():
            if not (isinstance(d, ast.Constant) and d.value is None):
                continue
            attr = None
            for st in stores_to_self_attr(init.node, p):
                if isinstance(st, ast.Assign) and isinstance(st.value, ast.Name) and st.value.id == p:
                    attr = p
                if isinstance(st, ast.Assign) and isinstance(st.value, ast.IfExp) and p in (norm(st.value.body), norm(st.value.orelse)):
                    attr = p
            if attr is None:
                continue
            # normalisation in the constructor: a store to self.p under `self.p is None` / `p is None`
            normalised = False
            from sa import boolnf as B
            isnone = B.mk_or([B.parse(ast.parse(f"self.{p} is None", mode="eval").body), B.parse(ast.parse(f"{p} is None", mode="eval").body)])
            for st in stores_to_self_attr(init.node, p):
                cond = B.mk_and([B.parse_pol(t, pol) for t, pol in enclosing_tests(init.node, st)])
                if cond != B.T and B.implies(cond, isnone) and not (isinstance(st.value, ast.Constant) and st.value.value is None):
                    normalised = True
            uses = []
            for f in cls.methods.values():
                for n in ast.walk(f.node):
                    if isinstance(n, ast.Subscript) and dotted(n.value) == f"self.{p}" and isinstance(n.ctx, ast.Load):
                        tests = [(norm(t), pol) for t, pol in enclosing_tests(f.node, n)]
                        guarded = any((t == f"self.{p} is not None" and pol) or (t == f"self.{p} is None" and not pol) for t, pol in tests)
                        # early return on None in the same function
                        early = any(isinstance(s, ast.If) and norm(s.test) == f"self.{p} is None" and any(isinstance(b, ast.Return) for b in s.body)
                                    for s in f.node.body)
                        uses.append((f, n, guarded or early))
            key = f"{cname}.__init__({p}=None)"
            bad = [(f, n) for f, n, g in uses if not g]
            if not uses:
                rep.ok(RID, key, "never subscripted", init.loc(), nontrivial=False)
            elif normalised or not bad:
                rep.ok(RID, key, "None default is normalised in the constructor" if normalised else "every subscript is under a None test", init.loc(),
                       sample={"param": p, "uses": len(uses)})
            else:
                f, n = bad[0]
                rep.violation(RID, key, f"`self.{p}` may be None (documented default) but is subscripted without a None test in {f.qualname}: TypeError for "
                              "the documented default", f.loc(n))


def complement_removal(prog: Program, rep, RID: str):
    f = prog.own_method("MinGenSet", "__init__")
    hit = None
    # loop-local scalars (e.g. `complement = total - val`) are substituted before the site is read
    from rules.common import substitute_locals
    from rules.common import local_single_defs as _lsd
    fdefs = _lsd(f.node)
    for lp in [n for n in walk_no_nested(f.node) if isinstance(n, ast.For)]:
        ldefs = {}
        for s_ in ast.walk(lp):       # also the scalars computed inside the guarding ifs (`complement = total - val`)
            if isinstance(s_, ast.Assign) and len(s_.targets) == 1 and isinstance(s_.targets[0], ast.Name):
                ldefs[s_.targets[0].id] = substitute_locals(s_.value, dict(ldefs))
        for k_, v_ in fdefs.items():  # flags computed once before the loop (`complements_are_redundant = self.max_multiplicity == 1`)
            ldefs.setdefault(k_, v_)

        def chains(stmts, tests):
            for st_ in stmts:
                if isinstance(st_, ast.If):
                    yield from chains(st_.body, tests + [st_.test])
                elif isinstance(st_, ast.Expr) and tests:
                    yield tests, st_
        for tests_, leaf in chains(lp.body, []):
            leaf2 = substitute_locals(leaf, ldefs)
            if re.search(r"\.add\(total - \w+\)", norm(leaf2)):
                # nested ifs are one conjunction
                conj = []
                for t_ in tests_:
                    t2 = substitute_locals(t_, ldefs)
                    conj += list(t2.values) if isinstance(t2, ast.BoolOp) and isinstance(t2.op, ast.And) else [t2]
                test_all = conj[0] if len(conj) == 1 else ast.BoolOp(op=ast.And(), values=conj)
                hit = ast.If(test=test_all, body=[leaf2], orelse=[])
                outer = [st_ for st_ in lp.body if isinstance(st_, ast.If) and any(x is leaf for x in ast.walk(st_))][0]
                ast.copy_location(hit, outer)
                ast.fix_missing_locations(hit)
    key = "MinGenSet.__init__:complement-removal"
    if hit is None:
        raise AnalysisError("MinGenSet.__init__: complement removal site not found")
    t = hit.test
    parts = t.values if isinstance(t, ast.BoolOp) and isinstance(t.op, ast.And) else [t]
    member = any(isinstance(p, ast.Compare) and isinstance(p.ops[0], ast.In) and re.fullmatch(r"total - \w+", norm(p.left)) for p in parts)
    strict = None
    for p in parts:
        if isinstance(p, ast.Compare) and len(p.ops) == 1 and not isinstance(p.ops[0], (ast.In, ast.NotIn)):
            d = to_poly(p.left) - to_poly(p.comparators[0])
            # difference must be +-(total - 2*val)
            atoms = d.atoms()
            if "total" in atoms and len(atoms) == 2:
                strict = isinstance(p.ops[0], (ast.Gt, ast.Lt, ast.NotEq))
    if strict is None:
        raise AnalysisError(f"complement removal: cannot interpret the test `{norm(t)}`")
    # with multiplicities x = 2*g1 does not make total - x a sum of elements: the removal is admissible for max_multiplicity == 1 only
    from sa import boolnf as B
    from rules.semantic import enclosing_tests
    ctx = B.mk_and([B.parse(t)])      # (the chain of guarding ifs inside the loop is already part of t)
    single_use = B.implies(ctx, B.parse(ast.parse("self.max_multiplicity == 1", mode="eval").body)) or \
        B.implies(ctx, B.parse(ast.parse("max_multiplicity == 1", mode="eval").body))
    keym = "MinGenSet.__init__:complement-removal-multiplicity"
    if single_use:
        rep.ok(RID, keym, "the complement is removed only when every element is used at most once (max_multiplicity == 1)", f.loc(hit))
    else:
        rep.violation(RID, keym, f"total - x is removed under `{norm(t)}` whatever max_multiplicity is: with multiplicities above 1 the number x = 2*g1 does not make "
                      "total - x a sum of elements, so the returned set need not generate the removed numbers (MinGenSet([2,8,4,6], 10, max_multiplicity=2) "
                      "returned [2, 8], which cannot generate 6)", f.loc(hit))
    if member and strict:
        rep.ok(RID, key, "total - x is removed only if present and strictly different from x", f.loc(hit), sample={"test": norm(t)})
    else:
        rep.violation(RID, key, f"complement removal under `{norm(t)}`: with a non-strict comparison a value x with 2x == total counts as its own complement "
                      "and is dropped, so it no longer has to be generated (too small a generating set is returned)", f.loc(hit))


def start_not_empty(prog: Program, rep, RID: str):
    """The caller's lower bound is the first k tried.  0 is a correct lower bound of every instance, but the k = 0 model has no variable:
    HiGHS answers kModelEmpty, which is neither optimal nor infeasible, and the search gives up.  The start is clamped to 1 (or the
    constructor rejects a bound below 1)."""
    f = prog.own_method("MinGenSet", "solve")
    init = prog.own_method("MinGenSet", "__init__")
    key = "MinGenSet.solve:start-at-least-1"
    from rules.common import local_single_defs as _lsd15, substitute_locals as _sl15
    ldefs = _lsd15(f.node)
    loops = [lp for lp in ast.walk(f.node) if isinstance(lp, ast.For) and isinstance(lp.iter, ast.Call) and dotted(lp.iter.func) == "range" and
             any("self.lowerbound" in norm(_sl15(a, ldefs)) for a in lp.iter.args)]
    if not loops:
        raise AnalysisError("MinGenSet.solve: the search loop over k was not found")
    lo = _sl15(loops[0].iter.args[0], ldefs)
    clamped = isinstance(lo, ast.Call) and dotted(lo.func) == "max" and any(isinstance(a, ast.Constant) and isinstance(a.value, int) and a.value >= 1 for a in lo.args)
    validated = any(isinstance(i, ast.If) and "lowerbound" in norm(i.test) and any(isinstance(x, ast.Raise) for x in ast.walk(i)) and
                    any(isinstance(c, ast.Compare) and isinstance(c.ops[0], (ast.Lt, ast.LtE)) for c in ast.walk(i.test)) for i in ast.walk(init.node))
    normalised = any(isinstance(st, ast.Assign) and norm(st.targets[0]) == "self.lowerbound" and "max(" in norm(st.value) for st in ast.walk(init.node))
    if clamped or validated or normalised:
        rep.ok(RID, key, f"the first k tried is at least 1 (`{norm(lo)}`)" if clamped else "the constructor brings the lower bound to at least 1", f.loc(loops[0]))
    else:
        rep.violation(RID, key, f"the search starts at `{norm(lo)}` as the caller gave it: for lowerbound=0 (a correct lower bound of every instance) the k = 0 model is empty, "
                      "HiGHS reports kModelEmpty, solve() takes that for an inconclusive status and returns False without trying k = 1", f.loc(loops[0]))


def trivial_value_removal(prog: Program, rep, RID: str):
    """Besides complements, the preprocessing drops numbers that need no element of their own: the total (the sum of all elements) and 0 (the empty sum).
    Nothing else may be dropped outright - with multiplicities a number above the total is a valid input (2*g1 + g2 > g1 + g2) and must stay.  The guard of
    `elements_to_remove.add(<the number itself>)` is evaluated over a grid of small integers: it may hold only where the number equals the total or 0."""
    from rules.common import substitute_locals
    f = prog.own_method("MinGenSet", "__init__")
    n = 0
    for lp in [x for x in walk_no_nested(f.node) if isinstance(x, ast.For) and isinstance(x.target, ast.Name)]:
        v = lp.target.id
        ldefs = {}
        for s_ in ast.walk(lp):
            if isinstance(s_, ast.Assign) and len(s_.targets) == 1 and isinstance(s_.targets[0], ast.Name):
                ldefs[s_.targets[0].id] = substitute_locals(s_.value, dict(ldefs))
        from rules.semantic import enclosing_tests
        for c in [c for c in calls_in(lp) if isinstance(c.func, ast.Attribute) and c.func.attr in ("add", "append") and len(c.args) == 1 and norm(substitute_locals(c.args[0], ldefs)) == v]:
            tests = [(substitute_locals(t, ldefs), pol) for t, pol in enclosing_tests(lp, c)]
            if not tests:
                raise AnalysisError(f"MinGenSet.__init__: `{norm(c)}` is unconditional: not recognised")

            def ev(e, env):
                if isinstance(e, ast.Constant):
                    return e.value
                if isinstance(e, ast.Name):
                    return env[e.id]
                if isinstance(e, ast.Attribute) and norm(e) in env:
                    return env[norm(e)]
                if isinstance(e, ast.BinOp) and isinstance(e.op, (ast.Add, ast.Sub, ast.Mult)):
                    a, b = ev(e.left, env), ev(e.right, env)
                    return a + b if isinstance(e.op, ast.Add) else (a - b if isinstance(e.op, ast.Sub) else a * b)
                if isinstance(e, ast.UnaryOp) and isinstance(e.op, ast.Not):
                    return not ev(e.operand, env)
                if isinstance(e, ast.UnaryOp) and isinstance(e.op, ast.USub):
                    return -ev(e.operand, env)
                if isinstance(e, ast.BoolOp):
                    vals = [ev(x, env) for x in e.values]
                    return all(vals) if isinstance(e.op, ast.And) else any(vals)
                if isinstance(e, ast.Compare):
                    left = ev(e.left, env)
                    for op, right in zip(e.ops, e.comparators):
                        r = ev(right, env)
                        if isinstance(op, (ast.In, ast.NotIn)):
                            r = ev(right, env)
                        tab = {ast.Eq: lambda a, b: a == b, ast.NotEq: lambda a, b: a != b, ast.Lt: lambda a, b: a < b, ast.LtE: lambda a, b: a <= b,
                               ast.Gt: lambda a, b: a > b, ast.GtE: lambda a, b: a >= b, ast.In: lambda a, b: a in b, ast.NotIn: lambda a, b: a not in b}
                        if type(op) not in tab:
                            raise KeyError("operator")
                        if not tab[type(op)](left, r):
                            return False
                        left = r
                    return True
                if isinstance(e, (ast.Tuple, ast.List, ast.Set)):
                    return [ev(x, env) for x in e.elts]
                raise KeyError(norm(e))
            n += 1
            key = "MinGenSet.__init__:trivial-values-only"
            bad = None
            try:
                for total in (5,):
                    for mult in (1, 3):
                        for val in range(0, 12):
                            env = {v: val, "total": total, "self.total": total, "self.max_multiplicity": mult, "max_multiplicity": mult, "self.numbers": list(range(0, 12)),
                                   "numbers": list(range(0, 12))}
                            holds = all(bool(ev(t, env)) == pol for t, pol in tests)
                            if holds and val not in (0, total):
                                bad = bad or (val, total, mult)
            except KeyError as e_:
                raise AnalysisError(f"MinGenSet.__init__: the guard of `{norm(c)}` cannot be evaluated ({e_})")
            if bad:
                rep.violation(RID, key, f"`{norm(c)}` under `{' and '.join(('' if pol else 'not ') + norm(t) for t, pol in tests)[:90]}` drops the number {bad[0]} for the total {bad[1]} "
                              f"(max_multiplicity {bad[2]}): only the total and 0 need no element of their own - with multiplicities a number above the total is a valid input "
                              "(MinGenSet([3], total=2, max_multiplicity=3) must return {1, 1}, not [2])", f.loc(c))
            else:
                rep.ok(RID, key, "only numbers equal to the total or to 0 are dropped outright", f.loc(c))
    if n == 0:
        rep.ok(RID, "MinGenSet.__init__:trivial-values-only", "no number is dropped outright", f.loc())


def multiplicity_is_a_count(prog: Program, rep, RID: str):
    """MinFlowDecompCycles hands its largest flow value to MinGenSet as max_multiplicity (the number of times an element may be repeated); MinGenSet
    rejects a value below 1, so the call must be preceded by a guard that leaves (returns None: no bound) when that value is below 1."""
    f = prog.own_method("MinFlowDecompCycles", "_get_lowerbound_with_min_gen_set")
    calls = [c for c in calls_in(f.node) if (dotted(c.func) or "").endswith("MinGenSet")]
    if not calls:
        raise AnalysisError("MinFlowDecompCycles._get_lowerbound_with_min_gen_set: MinGenSet call not found")
    for c in calls:
        kw = [k for k in c.keywords if k.arg == "max_multiplicity"]
        key = "MinFlowDecompCycles._get_lowerbound_with_min_gen_set:max_multiplicity"
        if not kw:
            raise AnalysisError("MinFlowDecompCycles: MinGenSet is called without max_multiplicity")
        val = norm(kw[0].value)
        m = re.match(r"^max\(1, (.*)\)$", val)
        if m:
            rep.ok(RID, key, f"`{val}` is at least 1", f.loc(c))
            continue
        guards = []
        from rules.common import split_or_return_guards, statements_before
        for st in split_or_return_guards(ast.Module(body=statements_before(f.node.body, c), type_ignores=[])).body:
            if isinstance(st, ast.If) and st.body and isinstance(st.body[-1], ast.Return) and not st.orelse:
                guards.append(norm(st.test))
        want = {f"{val} < 1", f"not {val} >= 1", f"1 > {val}", f"not ({val} >= 1)"}
        if any(g in want for g in guards):
            rep.ok(RID, key, f"no bound is computed when `{val} < 1`", f.loc(c))
        else:
            rep.violation(RID, key, f"`max_multiplicity={val}` is a flow value, not a count: for float flows below 1 (s->a 0.75, a->t 0.5, a->u 0.25) MinGenSet rejects it and "
                          "solve() raises '`max_multiplicity` must be at least 1.' with use_min_gen_set_lowerbound=True; no guard leaves the helper before the call when "
                          f"`{val} < 1`", f.loc(c))


def check(prog: Program, rep):
    rep.rule("C15.R1", "formulations conform to the frozen table; helper preconditions", floor=20)
    conformance(prog, rep, "C15.R1", "C15")
    semantic.helper_preconditions(prog, rep, "C15.R1", "MinGenSet")
    from rules.common import helpers_exact
    helpers_exact(prog, rep, "C15.R1")
    rep.rule("C15.R2", "search protocol of MinGenSet.solve", floor=4)
    k_loop_protocol(prog, rep, "C15.R2", "MinGenSet", "solve", {"self.lowerbound"})
    start_not_empty(prog, rep, "C15.R2")
    from rules.values import solver_members_exist
    solver_members_exist(prog, rep, "C15.R2", ["MinGenSet", "MinSetCover"])
    rep.rule("C15.R3", "k-range reaches len(numbers)+1", floor=1)
    range_rule(prog, rep, "C15.R3", "MinGenSet", "solve")
    rep.rule("C15.R4", "None-default parameters", floor=1)
    none_defaults(prog, rep, "C15.R4")
    rep.rule("C15.R5", "complement removal is strict", floor=1)
    complement_removal(prog, rep, "C15.R5")
    trivial_value_removal(prog, rep, "C15.R5")
    rep.rule("C15.R6", "with multiplicities the bound of the products x*g covers max(numbers), not only the total", floor=2)
    from rules.bounds import product_covers_rhs
    product_covers_rhs(prog, rep, "C15.R6")
    rep.rule("C15.R7", "values read from the solver are rounded (never truncated) and binaries are read by threshold (never == 1); data in equality rows is "
             "converted to Python numbers", floor=4)
    from rules.values import solver_value_reads, data_rhs_converted
    solver_value_reads(prog, rep, "C15.R7", ["MinGenSet", "MinSetCover"])
    data_rhs_converted(prog, rep, "C15.R7", {"MinGenSet": ["_create_solver", "_encode_partition_constraints"]})
    from rules.values import float_sum_exact_compare
    float_sum_exact_compare(prog, rep, "C15.R7", "MinGenSet", "__init__")
    from rules.values import coefficients_converted
    coefficients_converted(prog, rep, "C15.R7", ["MinSetCover"])
    rep.rule("C15.R8", "the numbers handed to MinGenSet by the lower-bound helpers, and its own count parameter, are Python numbers before any arithmetic; "
             "the multiplicity MinFlowDecompCycles passes is a count", floor=4)
    from rules.values import python_arithmetic, count_parameter_as_python_number
    helpers = [prog.own_method("MinFlowDecomp", m) for m in ("_get_source_flow", "_get_partition_constraints_for_min_gen_set", "_get_lowerbound_with_min_gen_set")] + \
              [prog.own_method("MinFlowDecompCycles", m) for m in ("_get_source_flow", "_get_lowerbound_with_min_gen_set")]
    if python_arithmetic(prog, rep, "C15.R8", helpers, "the total handed to MinGenSet wraps around (np.uint8 169 + 170 + 171 = 254): the 'lower bound' 4 is computed for three "
                         "disjoint routes and MinFlowDecomp reports 4 paths instead of 3") < 3:
        raise AnalysisError("the sums of the lower-bound helpers of MinFlowDecomp / MinFlowDecompCycles were not found")
    count_parameter_as_python_number(prog, rep, "C15.R8", "MinGenSet", "max_multiplicity",
                                     "ceil(log2(max_multiplicity + 1)) bits are counted from it, and np.uint8(255) + 1 is 0 (math domain error from the constructor of the model)")
    multiplicity_is_a_count(prog, rep, "C15.R8")

