"""Helpers shared by the rule modules."""
from __future__ import annotations

import ast
from typing import Dict, Iterable, List, Optional, Set, Tuple

from sa.pm import Program, FuncInfo, ClassInfo, ModuleInfo, dotted, norm, calls_in, walk_no_nested, AnalysisError


def stores_to_self_attr(func: ast.AST, attr: str) -> List[ast.AST]:
    """Assignments `self.<attr> = ...` (incl. augmented / annotated) directly in func."""
    out = []
    for n in walk_no_nested(func):
        targets = []
        if isinstance(n, ast.Assign):
            targets = n.targets
        elif isinstance(n, (ast.AugAssign, ast.AnnAssign)):
            targets = [n.target]
        for t in targets:
            for e in ([t] if not isinstance(t, (ast.Tuple, ast.List)) else t.elts):
                if dotted(e) == f"self.{attr}":
                    out.append(n)
    return out


def self_methods_assigning(prog: Program, cls: ClassInfo, attr: str, depth: int = 4) -> Set[str]:
    """Names of methods of cls (MRO) that may assign self.<attr>, directly or through self-calls."""
    direct = {}
    calls = {}
    for c in prog.mro(cls):
        for name, f in c.methods.items():
            if name in direct:
                continue
            direct[name] = bool(stores_to_self_attr(f.node, attr))
            calls[name] = {dotted(k.func).split(".", 1)[1] for k in calls_in(f.node)
                           if dotted(k.func) and dotted(k.func).startswith("self.") and dotted(k.func).count(".") == 1}
    result = {n for n, d in direct.items() if d}
    for _ in range(depth):
        new = {n for n in direct if n not in result and calls[n] & result}
        if not new:
            break
        result |= new
    return result


def self_methods_assigning_non_none(prog: Program, cls: ClassInfo, attr: str, depth: int = 4) -> Set[str]:
    direct = {}
    calls = {}
    for c in prog.mro(cls):
        for name, f in c.methods.items():
            if name in direct:
                continue
            sts = [s for s in stores_to_self_attr(f.node, attr)
                   if not (isinstance(s, ast.Assign) and isinstance(s.value, ast.Constant) and s.value.value is None)]
            direct[name] = bool(sts)
            calls[name] = {dotted(k.func).split(".", 1)[1] for k in calls_in(f.node)
                           if dotted(k.func) and dotted(k.func).startswith("self.") and dotted(k.func).count(".") == 1}
    result = {n for n, d in direct.items() if d}
    for _ in range(depth):
        new = {n for n in direct if n not in result and calls[n] & result}
        if not new:
            break
        result |= new
    return result


def fkey(f: FuncInfo) -> str:
    return f.qualname


def local_single_defs(func: ast.AST) -> Dict[str, ast.AST]:
    """Local names assigned exactly once (by a plain `name = expr`) in func -> expr."""
    counts: Dict[str, int] = {}
    vals: Dict[str, ast.AST] = {}
    for n in walk_no_nested(func):
        if isinstance(n, ast.Assign):
            for t in n.targets:
                for e in ast.walk(t):
                    if isinstance(e, ast.Name):
                        counts[e.id] = counts.get(e.id, 0) + 1
                        if isinstance(t, ast.Name):
                            vals[e.id] = n.value
        elif isinstance(n, (ast.AugAssign, ast.AnnAssign)):
            for e in ast.walk(n.target):
                if isinstance(e, ast.Name):
                    counts[e.id] = counts.get(e.id, 0) + 2
        elif isinstance(n, (ast.For, ast.comprehension)):
            for e in ast.walk(n.target):
                if isinstance(e, ast.Name):
                    counts[e.id] = counts.get(e.id, 0) + 2
        elif isinstance(n, (ast.With,)):
            for it in n.items:
                if it.optional_vars is not None:
                    for e in ast.walk(it.optional_vars):
                        if isinstance(e, ast.Name):
                            counts[e.id] = counts.get(e.id, 0) + 2
    a = func.args
    for p in a.posonlyargs + a.args + a.kwonlyargs:
        counts[p.arg] = counts.get(p.arg, 0) + 2
    out = {k: v for k, v in vals.items() if counts.get(k) == 1}
    out.update(_conditional_defs(func, counts))
    return out


def _conditional_defs(func: ast.AST, counts: Dict[str, int]) -> Dict[str, ast.AST]:
    """`if c: x = A  else: x = B` (the only two bindings of x) is the definition x = A if c else B"""
    out: Dict[str, ast.AST] = {}
    for n in walk_no_nested(func):
        if isinstance(n, ast.If) and len(n.body) == 1 and len(n.orelse) == 1 and isinstance(n.body[0], ast.Assign) and isinstance(n.orelse[0], ast.Assign):
            a_, b_ = n.body[0], n.orelse[0]
            if len(a_.targets) == 1 and len(b_.targets) == 1 and isinstance(a_.targets[0], ast.Name) and isinstance(b_.targets[0], ast.Name) and \
                    a_.targets[0].id == b_.targets[0].id and counts.get(a_.targets[0].id) == 2:
                out[a_.targets[0].id] = ast.IfExp(test=n.test, body=a_.value, orelse=b_.value)
    return out


class Subst(ast.NodeTransformer):
    def __init__(self, defs: Dict[str, ast.AST], depth: int = 4):
        self.defs = defs
        self.depth = depth

    def visit_Name(self, node):
        if isinstance(node.ctx, ast.Load) and node.id in self.defs and self.depth > 0:
            import copy
            sub = copy.deepcopy(self.defs[node.id])
            return Subst(self.defs, self.depth - 1).visit(sub)
        return node


def substitute_locals(expr: ast.AST, defs: Dict[str, ast.AST]) -> ast.AST:
    import copy
    return Subst(defs).visit(copy.deepcopy(expr))


class _CallOverIfExp(ast.NodeTransformer):
    """(f if c else g)(x)  ->  f(x) if c else g(x)   (a conversion chosen once and applied later)"""

    def visit_Call(self, node):
        node = self.generic_visit(node)
        if isinstance(node.func, ast.IfExp):
            import copy
            return ast.IfExp(test=node.func.test,
                             body=ast.Call(func=node.func.body, args=copy.deepcopy(node.args), keywords=copy.deepcopy(node.keywords)),
                             orelse=ast.Call(func=node.func.orelse, args=copy.deepcopy(node.args), keywords=copy.deepcopy(node.keywords)))
        return node


def all_local_defs(func: ast.AST) -> Dict[str, ast.AST]:
    """like local_single_defs, but also locals assigned once *syntactically* inside loops (re-evaluated per iteration)"""
    defs = dict(local_single_defs(func))
    counts: Dict[str, int] = {}
    vals: Dict[str, ast.AST] = {}
    for n in walk_no_nested(func):
        if isinstance(n, ast.Assign):
            for t in n.targets:
                for e in ast.walk(t):
                    if isinstance(e, ast.Name) and isinstance(e.ctx, ast.Store):
                        counts[e.id] = counts.get(e.id, 0) + 1
                        if isinstance(t, ast.Name):
                            vals[e.id] = n.value
        elif isinstance(n, (ast.AugAssign, ast.AnnAssign, ast.For, ast.comprehension, ast.With)):
            for e in ast.walk(n):
                if isinstance(e, ast.Name) and isinstance(e.ctx, ast.Store):
                    counts[e.id] = counts.get(e.id, 0) + 2
    for k, v in vals.items():
        if counts.get(k) == 1:
            defs.setdefault(k, v)
    for k, v in _conditional_defs(func, counts).items():
        defs.setdefault(k, v)
    return defs


def normalise_expr(e: ast.AST, defs: Dict[str, ast.AST]) -> ast.AST:
    """local substitution + distribution of calls over conditionally chosen functions + (a, b)[i] -> element"""
    from sa.mir import _tuple_index_simplify
    x = substitute_locals(e, defs)
    x = _CallOverIfExp().visit(x)
    x = _tuple_index_simplify(x)
    ast.fix_missing_locations(x)
    return x


def expr_cases(e: ast.AST):
    """[(guard formula, expression)] after splitting the conditional expressions of e"""
    from sa.mir import _split_cases
    return [(g, a["x"]) for g, a in _split_cases({"x": e})]


def canonical_value(func_node: ast.AST, expr: ast.AST) -> str:
    """Canonical text of the value `expr` has in `func_node`: accumulator loops are read as comprehensions, locals and self
    attributes that are assigned exactly once in the function are replaced by their definition, then sa.mir.canon_expr."""
    from sa.mir import comprehensionise, canon_expr
    body = comprehensionise(func_node.body)
    mod = ast.Module(body=body, type_ignores=[])
    defs: Dict[str, ast.AST] = {}
    counts: Dict[str, int] = {}
    for n in walk_no_nested(mod):
        if isinstance(n, ast.Assign):
            for t in n.targets:
                d = dotted(t)
                if d and (d.count(".") == 0 or (d.startswith("self.") and d.count(".") == 1)):
                    counts[d] = counts.get(d, 0) + 1
                    defs[d] = n.value
                else:
                    for x in ast.walk(t):
                        dd = dotted(x) if isinstance(x, (ast.Name, ast.Attribute)) else None
                        if dd:
                            counts[dd] = counts.get(dd, 0) + 2
        elif isinstance(n, (ast.AugAssign, ast.AnnAssign)):
            dd = dotted(n.target)
            if dd:
                counts[dd] = counts.get(dd, 0) + 2
        elif isinstance(n, (ast.For, ast.comprehension)):
            for x in ast.walk(n.target):
                if isinstance(x, ast.Name):
                    counts[x.id] = counts.get(x.id, 0) + 2
    for a in getattr(func_node, "args", None).args if hasattr(func_node, "args") else []:
        counts[a.arg] = counts.get(a.arg, 0) + 2
    defs = {k: v for k, v in defs.items() if counts.get(k) == 1}

    import copy
    x = expr
    for _ in range(4):
        d = dotted(x)
        if d in defs:
            x = defs[d]
        else:
            break
    return norm(canon_expr(copy.deepcopy(x)))


def canonical_text(src: str) -> str:
    from sa.mir import canon_expr
    return norm(canon_expr(ast.parse(src, mode="eval").body))


def bind_loop_target(target: ast.AST, prefix: str = "E") -> Dict[str, ast.AST]:
    """canonical names for a loop target: `for (u, v) in X` and `for e in X` (e used as e[0], e[1] or whole) both bind the
    element to the tuple (E0, E1): returns a substitution for the target's names"""
    if isinstance(target, ast.Name):
        return {target.id: ast.Tuple(elts=[ast.Name(id=f"{prefix}0", ctx=ast.Load()), ast.Name(id=f"{prefix}1", ctx=ast.Load())], ctx=ast.Load())}
    if isinstance(target, (ast.Tuple, ast.List)) and all(isinstance(x, ast.Name) for x in target.elts):
        return {x.id: ast.Name(id=f"{prefix}{i}", ctx=ast.Load()) for i, x in enumerate(target.elts)}
    return {}


def canon_in_loop(e: ast.AST, defs: Dict[str, ast.AST], binding: Dict[str, ast.AST], loop: Optional[ast.AST] = None) -> str:
    """text of e after substitution of the loop-local scalars (locals assigned inside `loop`), canonical loop-element names
    and (a, b)[i] simplification"""
    from sa.mir import _tuple_index_simplify
    if loop is not None:
        # scalars assigned at the top level of the loop body (the last assignment wins; good enough for straight-line bodies)
        defs = {}
        for n in loop.body:
            if isinstance(n, ast.Assign) and len(n.targets) == 1 and isinstance(n.targets[0], ast.Name):
                defs[n.targets[0].id] = substitute_locals(n.value, dict(defs))
    x = substitute_locals(e, {k: v for k, v in defs.items() if k not in binding})
    x = Subst(binding, depth=1).visit(x)
    x = _tuple_index_simplify(x)
    return norm(x)


def find_for_loops(func: ast.AST) -> List[ast.For]:
    return [n for n in walk_no_nested(func) if isinstance(n, ast.For)]


def contains_call_attr(node: ast.AST, attr_names: Iterable[str]) -> bool:
    names = set(attr_names)
    for c in calls_in(node):
        if isinstance(c.func, ast.Attribute) and c.func.attr in names:
            return True
        if isinstance(c.func, ast.Name) and c.func.id in names:
            return True
    return False


def append_counts(body: List[ast.stmt], acc: str, is_append=None) -> Set[Tuple[int, str]]:
    """Per-iteration append profile of a loop body: the set of (number of appends to `acc`, exit kind) over the
    non-raising paths through `body`; counts saturate at 3, exit kinds are 'fall', 'continue', 'break', 'return'.
    Nested loops that append to `acc` make the count 3 ("many")."""
    def is_app(st):
        if is_append is not None:
            return is_append(st)
        return isinstance(st, ast.Expr) and isinstance(st.value, ast.Call) and isinstance(st.value.func, ast.Attribute) and \
            st.value.func.attr in ("append",) and dotted(st.value.func.value) == acc

    def seq(stmts, states):
        # states: set of counts for paths still running; returns (running, finished)
        finished = set()
        for st in stmts:
            if not states:
                break
            nxt = set()
            if isinstance(st, ast.Raise):
                states = set()
                break
            if isinstance(st, (ast.Continue, ast.Break, ast.Return)):
                kind = {ast.Continue: "continue", ast.Break: "break", ast.Return: "return"}[type(st)]
                finished |= {(c, kind) for c in states}
                states = set()
                break
            if isinstance(st, ast.If):
                a, fa = seq(st.body, set(states))
                b, fb = seq(st.orelse, set(states))
                finished |= fa | fb
                nxt = a | b
            elif isinstance(st, (ast.For, ast.While)):
                inner = any(is_app(s) for s in ast.walk(st) if isinstance(s, ast.stmt))
                nxt = {3} | set(states) if inner else set(states)
            elif isinstance(st, ast.Try):
                a, fa = seq(st.body + st.orelse, set(states))
                finished |= fa
                nxt = a
                for h in st.handlers:
                    hb, fh = seq(h.body, set(states) | a)
                    finished |= fh
                    nxt |= hb
                if st.finalbody:
                    nxt, ff = seq(st.finalbody, nxt)
                    finished |= ff
            elif isinstance(st, ast.With):
                nxt, fw = seq(st.body, set(states))
                finished |= fw
            elif is_app(st):
                nxt = {min(3, c + 1) for c in states}
            else:
                nxt = set(states)
            states = nxt
        return states, finished

    running, finished = seq(body, {0})
    return {(c, "fall") for c in running} | finished


def iteration_paths(body: List[ast.stmt], acc: str, defs: Optional[Dict[str, ast.AST]] = None, limit: int = 256):
    """Non-raising paths through one loop iteration: [(path condition as a sa.boolnf formula, number of appends to `acc`
    (saturating at 3), exit kind)].  Tests are read after substituting `defs` (single-definition locals), so that a hoisted
    sub-expression and its in-place use give the same atoms.  Nested loops that append make the count 3."""
    from sa import boolnf as B
    defs = defs or {}

    def is_app(st):
        return isinstance(st, ast.Expr) and isinstance(st.value, ast.Call) and isinstance(st.value.func, ast.Attribute) and \
            st.value.func.attr == "append" and dotted(st.value.func.value) == acc

    def seq(stmts, states):
        finished = []
        for st in stmts:
            if not states:
                break
            if len(states) > limit:
                raise AnalysisError("too many paths through one loop iteration")
            if isinstance(st, ast.Raise):
                states = []
                break
            if isinstance(st, (ast.Continue, ast.Break, ast.Return)):
                kind = {ast.Continue: "continue", ast.Break: "break", ast.Return: "return"}[type(st)]
                finished += [(c, n, kind) for c, n in states]
                states = []
                break
            if isinstance(st, ast.If):
                t = B.parse(substitute_locals(st.test, defs))
                a, fa = seq(st.body, [(B.mk_and([c, t]), n) for c, n in states if B.satisfiable(B.mk_and([c, t]))])
                b, fb = seq(st.orelse, [(B.mk_and([c, B.mk_not(t)]), n) for c, n in states if B.satisfiable(B.mk_and([c, B.mk_not(t)]))])
                finished += fa + fb
                states = a + b
            elif isinstance(st, (ast.For, ast.While)):
                if any(is_app(s) for s in ast.walk(st) if isinstance(s, ast.stmt)):
                    states = [(c, 3, ) for c, n in states] + states
            elif isinstance(st, ast.Try):
                a, fa = seq(st.body + st.orelse, list(states))
                finished += fa
                nxt = a
                for h in st.handlers:
                    hb, fh = seq(h.body, list(states) + a)
                    finished += fh
                    nxt = nxt + hb
                states = nxt
            elif isinstance(st, ast.With):
                states, fw = seq(st.body, states)
                finished += fw
            elif is_app(st):
                states = [(c, min(3, n + 1)) for c, n in states]
        return states, finished

    running, finished = seq(body, [(B.T, 0)])
    return [(c, n, "fall") for c, n in running] + finished


def canonical_calls(func_node: ast.AST, self_aliases: bool = True):
    """All call statements / store statements of a function in a name-free form.

    The body is walked in order with an environment of straight-line definitions (locals assigned from pure expressions are
    substituted at their uses; a re-assignment replaces the definition; definitions made inside a branch or loop do not
    escape it).  A loop variable is written as `<iter text>` (its iterable, itself canonical), tuple targets as
    `<iter>[0]`, `<iter>[1]`.  Locals that alias a self attribute (`flow_attr = self.node_flow_attr`) are resolved.
    Returns [(text of the statement, path condition as sa.boolnf formula, lineno)] for every expression statement, assignment
    to a subscript / attribute, and augmented assignment."""
    from sa import boolnf as B
    from sa.mir import _tuple_index_simplify, subst as _subst, SUBSTITUTABLE
    out: List[Tuple[str, tuple, int]] = []
    mutated = set()
    for n in walk_no_nested(func_node):
        if isinstance(n, ast.Call) and isinstance(n.func, ast.Attribute) and isinstance(n.func.value, ast.Name) and \
                n.func.attr in ("add", "append", "extend", "update", "insert", "remove", "discard", "pop", "clear", "setdefault", "sort"):
            mutated.add(n.func.value.id)
        if isinstance(n, ast.Assign):
            for t in n.targets:
                if isinstance(t, ast.Subscript) and isinstance(t.value, ast.Name):
                    mutated.add(t.value.id)
        if isinstance(n, ast.AugAssign) and isinstance(n.target, ast.Name):
            mutated.add(n.target.id)

    mutated_calls = mutated
    # locals used as the receiver of a method call are objects with identity (graphs, solvers, queues): never substituted
    receivers = {n.func.value.id for n in walk_no_nested(func_node) if isinstance(n, ast.Call) and isinstance(n.func, ast.Attribute) and isinstance(n.func.value, ast.Name)}

    def S(e, env):
        x = e
        plain = {k: v for k, v in env.items() if not k.startswith("@")}
        for _ in range(3):
            x = _subst(x, plain)
        x = _tuple_index_simplify(x)
        # store forwarding: d[k] read after `d[k] = v` in the same straight-line region
        fw = {k: v for k, v in env.items() if k.startswith("@")}
        if fw:
            class F(ast.NodeTransformer):
                def visit_Subscript(self, node):
                    node = self.generic_visit(node)
                    if isinstance(node.value, ast.Name) and isinstance(node.ctx, ast.Load):
                        k_ = f"@{node.value.id}[{norm(node.slice)}]"
                        if k_ in fw:
                            import copy as _c
                            return _c.deepcopy(fw[k_])
                    return node
            x = F().visit(x)
        return x

    def bind(target, it_text, env):
        env = dict(env)
        if isinstance(target, ast.Name):
            env[target.id] = ast.Name(id=f"<{it_text}>", ctx=ast.Load())
        elif isinstance(target, (ast.Tuple, ast.List)):
            for i, t in enumerate(target.elts):
                if isinstance(t, ast.Name):
                    env[t.id] = ast.Name(id=f"<{it_text}>[{i}]", ctx=ast.Load())
                else:
                    for j, x in enumerate([x for x in ast.walk(t) if isinstance(x, ast.Name)]):
                        env[x.id] = ast.Name(id=f"<{it_text}>[{i}][{j}]", ctx=ast.Load())
        return env

    def walk(stmts, env, cond):
        env = dict(env)
        for st in stmts:
            if isinstance(st, ast.Assign) and len(st.targets) == 1 and isinstance(st.targets[0], ast.Name) and st.targets[0].id not in mutated and \
                    isinstance(st.value, SUBSTITUTABLE) and not (st.targets[0].id in receivers and isinstance(st.value, ast.Call)):
                v = S(st.value, env)
                if isinstance(st.value, ast.Call):
                    out.append((f"{st.targets[0].id} = {norm(v)}", cond, st.lineno))
                env[st.targets[0].id] = v
            elif isinstance(st, ast.Assign):
                tg = ", ".join(norm(S(t, env)) for t in st.targets)
                out.append((f"{tg} = {norm(S(st.value, env))}", cond, st.lineno))
                for t in st.targets:
                    if isinstance(t, ast.Subscript) and isinstance(t.value, ast.Name) and isinstance(st.value, SUBSTITUTABLE):
                        env[f"@{t.value.id}[{norm(S(t.slice, env))}]"] = S(st.value, env)
                for t in st.targets:
                    for x in ast.walk(t):
                        if isinstance(x, ast.Name) and isinstance(x.ctx, ast.Store):
                            env.pop(x.id, None)
            elif isinstance(st, ast.AugAssign):
                out.append((f"{norm(S(st.target, env))} {type(st.op).__name__}= {norm(S(st.value, env))}", cond, st.lineno))
                if isinstance(st.target, ast.Name):
                    if st.target.id in env and st.target.id not in mutated_calls:
                        env[st.target.id] = ast.BinOp(left=env[st.target.id], op=st.op, right=S(st.value, env))
                    else:
                        env.pop(st.target.id, None)
            elif isinstance(st, ast.Expr):
                out.append((norm(S(st.value, env)), cond, st.lineno))
            elif isinstance(st, ast.If):
                test_s = S(st.test, env)
                out.append(("test " + norm(test_s), cond, st.lineno))
                t = B.parse(test_s)
                e1 = walk(st.body, env, B.mk_and([cond, t]))
                e2 = walk(st.orelse, env, B.mk_and([cond, B.mk_not(t)]))
                j1 = bool(st.body) and isinstance(st.body[-1], (ast.Return, ast.Raise, ast.Continue, ast.Break))
                j2 = bool(st.orelse) and isinstance(st.orelse[-1], (ast.Return, ast.Raise, ast.Continue, ast.Break))
                if j1 and not st.orelse:
                    cond = B.mk_and([cond, B.mk_not(t)])
                assigned = {x.id for s_ in st.body + st.orelse for x in ast.walk(s_) if isinstance(x, ast.Name) and isinstance(x.ctx, ast.Store)}
                for a_ in assigned:
                    # the value after the conditional: a conditional expression over the two branch values
                    v1, v2 = e1.get(a_), e2.get(a_)
                    if j1 and not j2 and v2 is not None:
                        env[a_] = v2
                    elif j2 and not j1 and v1 is not None:
                        env[a_] = v1
                    elif v1 is not None and v2 is not None and not j1 and not j2:
                        env[a_] = v1 if ast.dump(v1) == ast.dump(v2) else ast.IfExp(test=test_s, body=v1, orelse=v2)
                    else:
                        env.pop(a_, None)
            elif isinstance(st, (ast.For, ast.AsyncFor)):
                it_text = norm(S(st.iter, env))
                walk(st.body, bind(st.target, it_text, env), cond)
                assigned = {x.id for s_ in st.body for x in ast.walk(s_) if isinstance(x, ast.Name) and isinstance(x.ctx, ast.Store)}
                for a_ in assigned:
                    env.pop(a_, None)
            elif isinstance(st, ast.While):
                walk(st.body, env, B.mk_and([cond, B.parse(S(st.test, env))]))
            elif isinstance(st, (ast.With,)):
                walk(st.body, env, cond)
            elif isinstance(st, ast.Try):
                walk(st.body, env, cond)
                for h in st.handlers:
                    walk(h.body, env, cond)
                walk(st.finalbody, env, cond)
            elif isinstance(st, ast.Return) and st.value is not None:
                out.append(("return " + norm(S(st.value, env)), cond, st.lineno))
            elif isinstance(st, ast.Raise):
                out.append(("raise " + (norm(S(st.exc, env))[:60] if st.exc is not None else ""), cond, st.lineno))
        return env

    walk(func_node.body, {}, B.T)
    return out


class RuleProxy:
    """Report view that files every obligation of a borrowed rule module under one rule id of the borrowing property."""

    def __init__(self, rep, rid: str):
        self._rep = rep
        self._rid = rid

    def rule(self, rid, text, floor=1):
        pass

    def ok(self, rid, key, *a, **k):
        return self._rep.ok(self._rid, f"{rid}:{key}", *a, **k)

    def violation(self, rid, key, *a, **k):
        return self._rep.violation(self._rid, f"{rid}:{key}", *a, **k)

    def note(self, t):
        return self._rep.note(t)

    def __getattr__(self, name):
        return getattr(self._rep, name)


def helpers_exact(prog, rep, rid: str, piecewise: bool = False):
    """The modelling helpers a model relies on encode exactly the product / piecewise relation (C12.R1-R3)."""
    from rules import c12
    px = RuleProxy(rep, rid)
    c12.r1(prog, px)
    c12.r2(prog, px)
    if piecewise:
        c12.r3(prog, px)


def node_mode_plumbing(prog, rep, rid: str):
    """Node-weighted input reaches the model through NodeExpandedDiGraph: its naming scheme, attribute handling and
    translators are a necessary condition of every property that quantifies over node-weighted graphs (C11.R3)."""
    from rules import c11
    c11.naming_rule(prog, RuleProxy(rep, rid), "C11.R3")


def split_or_return_guards(func: ast.AST) -> ast.AST:
    """A copy of the function in which `if A or B: return X` (no else) is written as `if A: return X` followed by `if B: return X`
    (the same control flow: `or` evaluates left to right and stops at the first true operand).  Line numbers are kept."""
    import copy
    f2 = copy.deepcopy(func)

    def fix(block):
        out = []
        for st in block:
            for fld in ("body", "orelse", "finalbody"):
                if isinstance(getattr(st, fld, None), list) and not isinstance(st, (ast.FunctionDef, ast.AsyncFunctionDef, ast.ClassDef)):
                    setattr(st, fld, fix(getattr(st, fld)))
            if isinstance(st, ast.If) and not st.orelse and isinstance(st.test, ast.BoolOp) and isinstance(st.test.op, ast.Or) and \
                    len(st.body) == 1 and isinstance(st.body[0], (ast.Return, ast.Continue, ast.Break)):
                for v in st.test.values:
                    out.append(ast.copy_location(ast.If(test=v, body=[copy.deepcopy(st.body[0])], orelse=[]), st))
            else:
                out.append(st)
        return out
    f2.body = fix(f2.body)
    return f2


def statements_before(body, node):
    """the top-level statements of `body` that come before the one containing `node` (by position: statements of an inlined helper keep the
    helper's line numbers, so line numbers do not order them)"""
    out = []
    for st in body:
        if any(x is node for x in ast.walk(st)):
            return out
        out.append(st)
    return out



def inline_block_locals(loop: ast.AST, once: Set[str] = None) -> ast.AST:
    """A copy of a loop whose body has its leading local definitions inlined: `a, b = x, y; r = f(a, b); T[a][b] = r` becomes `T[x][y] = f(x, y)`.
    A definition is carried only across further definitions of plain local names (nothing is written in between, so the inlined expression
    reads the same state); the first other statement uses the definitions and ends their reach.  `once`: names that may be inlined (assigned
    once in the function)."""
    import copy
    loop = copy.deepcopy(loop)
    env: Dict[str, ast.AST] = {}
    out = []
    for st in loop.body:
        st2 = ast.fix_missing_locations(ast.copy_location(Subst(env).visit(st), st)) if env else st
        if isinstance(st2, ast.Assign) and len(st2.targets) == 1:
            t = st2.targets[0]
            if isinstance(t, ast.Name) and (once is None or t.id in once):
                env[t.id] = st2.value
                continue
            if isinstance(t, ast.Tuple) and isinstance(st2.value, ast.Tuple) and len(t.elts) == len(st2.value.elts) and \
                    all(isinstance(e, ast.Name) and (once is None or e.id in once) for e in t.elts):
                for e, v_ in zip(t.elts, st2.value.elts):
                    env[e.id] = v_
                continue
        out.append(st2)
        env = {}
    loop.body = out or [ast.Pass()]
    return loop
