"""Table-free semantic rules over the MIR (V2 helper preconditions, V3 big-M sufficiency, V4 flag pairing) and small
dataflow rules shared by several properties."""
from __future__ import annotations

import ast
import json
import re
from typing import Dict, List, Optional, Set, Tuple

from sa.pm import Program, FuncInfo, ClassInfo, dotted, norm, calls_in, walk_no_nested, AnalysisError, kwarg
from sa.mir import extract, canon_effect, var_families, Normalizer, LinNF, canon_guard
from sa.poly import Poly, to_poly
from rules.formulation import method_effects, class_var_names, public
from rules.common import stores_to_self_attr

K_MODELS = ["kFlowDecomp", "kFlowDecompCycles", "kLeastAbsErrors", "kLeastAbsErrorsCycles", "kMinPathError",
            "kMinPathErrorCycles", "kPathCover", "kPathCoverCycles"]


def family_decl(prog: Program, cls: ClassInfo) -> Dict[str, Dict[str, object]]:
    """family name -> canonical declaration (lb, ub, var_type, guards) for all families of the class (MRO).  A family
    declared in several encoders (plain / given-weights variants) must agree on its bounds, else both are kept."""
    out: Dict[str, Dict[str, object]] = {}
    for c in prog.mro(cls):
        for f in c.methods.values():
            for e in method_effects(prog, cls, f):
                if e["kind"] == "add_variables" and e.get("family"):
                    out.setdefault(e["family"], e)
    return out


def family_decls_all(prog: Program, cls: ClassInfo, fam: str):
    """every declaration case (guard, payload) of a family in the class (several add_variables calls under different conditions)"""
    out = []
    for c in prog.mro(cls):
        for f in c.methods.values():
            for e in method_effects(prog, cls, f):
                if e["kind"] == "add_variables" and e.get("family") == fam:
                    for g, pl in (e.get("_cases") or [(e["_guard"], e)]):
                        out.append((g, pl))
    return out


# --------------------------------------------------------------------------------------- V2
# Quantities known to be at least 1 in every model that reaches the helpers (one line of reason each)
GE1 = {
    "self.slack_ub": "slack_ub >= w_max (it is w_max or ceil(w_max / factor) with factor <= 1)",
    "self.w_max": "w_max = k * (largest flow value) with k >= 1 and integer weights wherever these helpers are used with factors; a model whose "
                  "flows are all zero is outside the properties' preconditions",
}


def attr_cases(prog: Program, cls: ClassInfo, attr: str):
    """[(guard, value)] of a self attribute stored in the constructor: one unconditional store, possibly overridden by stores under
    `if` blocks later in the constructor.  None if the stores have another shape."""
    from sa import boolnf as B
    init = prog.lookup_method(cls, "__init__")
    stores = [st for st in stores_to_self_attr(init.node, attr) if isinstance(st, ast.Assign)]
    if not stores:
        return None
    stores.sort(key=lambda st: st.lineno)
    cases = []
    rest = B.parse(ast.parse("True", mode="eval").body) if False else None
    covered = []
    for st in reversed(stores):
        tests = enclosing_tests(init.node, st)
        g = B.mk_and([B.parse_pol(t, pol) for t, pol in tests]) if tests else None
        if g is None:
            ng = B.mk_and([B.mk_not(c) for c in covered]) if covered else None
            cases.append((ng, st.value))
            break
        cases.append((B.mk_and([g] + [B.mk_not(c) for c in covered]), st.value))
        covered.append(g)
    else:
        # every store is conditional (`if c: self.a = X  else: self.a = Y`): the cases are those of the stores; where none applies the
        # attribute does not exist, and no case is invented for it
        return cases or None
    return cases


def _subst_attrs(prog, cls, e: ast.AST, guard, depth: int = 3) -> ast.AST:
    """Replace self attributes by their constructor value under `guard` when exactly one case is compatible and it is not opaque."""
    from sa import boolnf as B
    for _ in range(depth):
        changed = False

        class T(ast.NodeTransformer):
            def visit_Attribute(self, node):
                nonlocal changed
                d = dotted(node)
                if d and d.startswith("self.") and d.count(".") == 1 and d not in ("self.w_max",):
                    cs = attr_cases(prog, cls, d[5:])
                    if cs:
                        comp = [(g, v) for g, v in cs if g is None or B.satisfiable(B.mk_and([g, guard]))]
                        if len(comp) == 1:
                            v = comp[0][1]
                            # opaque values (calls other than max / plain arithmetic) stay as the attribute atom
                            if not any(isinstance(x, ast.Call) and dotted(x.func) not in ("max",) for x in ast.walk(v)) and not any(isinstance(x, ast.Name) and x.id not in ("self", "max") for x in ast.walk(v)):
                                changed = True
                                return v
                return node
        e = T().visit(ast.parse(norm(e), mode="eval").body)
        if not changed:
            break
    return e


def bound_dominates(prog, cls, told: str, declared: str, guard):
    """told >= declared under `guard`?  True / False / None.  max(...) on the left: some argument dominates; attributes are replaced by
    their constructor values; atoms in GE1 are written 1 + a' with a' >= 0, every other atom is taken as >= 0."""
    from sa.poly import to_poly, Poly
    try:
        t = _subst_attrs(prog, cls, ast.parse(told, mode="eval").body, guard)
        d = _subst_attrs(prog, cls, ast.parse(declared, mode="eval").body, guard)
    except SyntaxError:
        return None

    def shift(p: Poly) -> Poly:
        out = Poly.const(0)
        for mono, c in p.t.items():
            term = Poly.const(c)
            for a in mono:
                term = term * ((Poly.const(1) + Poly.atom(a + "'")) if a in GE1 else Poly.atom(a))
            out = out + term
        return out

    def go(t_):
        if isinstance(t_, ast.Call) and dotted(t_.func) == "max" and not t_.keywords and len(t_.args) == 1:
            # max([a, b] + collection), max([a, b]): every listed element is dominated by the maximum
            a0 = t_.args[0]
            lists = [x for x in ([a0] if isinstance(a0, ast.List) else ([a0.left, a0.right] if isinstance(a0, ast.BinOp) and isinstance(a0.op, ast.Add) else []))
                     if isinstance(x, ast.List)]
            rs = [go(x) for l_ in lists for x in l_.elts]
            if any(r is True for r in rs):
                return True
            return None
        if isinstance(t_, ast.Call) and dotted(t_.func) == "max" and not t_.keywords and len(t_.args) >= 2:
            rs = [go(a) for a in t_.args]
            if any(r is True for r in rs):
                return True
            if all(r is False for r in rs):
                return False
            return None
        diff = shift(to_poly(t_) - to_poly(d))
        if diff.is_zero():
            return True
        cs = list(diff.t.values())
        if all(c >= 0 for c in cs):
            return True
        if all(c <= 0 for c in cs):
            return False
        return None
    return go(t)


def _compatible_cases(decl_eff, guard):
    """declaration cases (payloads after splitting conditional bounds) whose guard can hold together with `guard`"""
    from sa import boolnf as B
    out = [pl for g, pl in decl_eff.get("_cases", []) if B.satisfiable(B.mk_and([g, guard]))]
    return out or [decl_eff]


def helper_preconditions(prog: Program, rep, RID: str, cname: str):
    """V2, decided per case: conditional bounds / kinds (`ub = 1 if m == 1 else m`) are split, and a helper call is compared with
    the declaration case(s) that can hold under the helper's own guard."""
    cls = prog.cls(cname)
    decl = family_decl(prog, cls)
    n = 0
    for f in cls.methods.values():
        for e0 in method_effects(prog, cls, f):
            k = e0["kind"]
            if k not in ("add_binary_continuous_product_constraint", "add_integer_continuous_product_constraint"):
                continue
            n += 1
            for guard, e in (e0.get("_cases") or [(e0["_guard"], e0)]):
                fac = e.get("binary_var") or e.get("integer_var") or ""
                fam = fac.split("[")[0]
                prod = (e.get("product_var") or "").split("[")[0]
                key = f"{cname}.{f.name}:{k.replace('_constraint', '').replace('add_', '')}:{prod}"
                loc = f"{e0.get('_file') or f.module.relpath}:{e0['_line']}"
                d0 = decl.get(fam)
                if d0 is None:
                    raise AnalysisError(f"{key}: factor family `{fam}` has no declaration in {cname}")
                for d in _compatible_cases(d0, guard):
                    # kind of helper vs declared range of the discrete factor
                    if k.startswith("add_binary") and d.get("ub") != "1":
                        rep.violation(RID, key + ":kind", f"binary*continuous helper used although `{fam}` is declared with ub = {d.get('ub')} (not 1): "
                                      "the McCormick rows are exact only for a 0/1 factor; multiplicities > 1 are cut off or mis-multiplied", loc)
                    elif d.get("var_type") != "'integer'" and not _int_by_validation(prog, cls, d0.get("var_type"), e0):
                        rep.violation(RID, key + ":kind", f"discrete factor `{fam}` is declared {d.get('var_type')}", loc)
                    else:
                        rep.ok(RID, key + ":kind", f"{'binary' if k.startswith('add_binary') else 'integer'} helper matches declared range of {fam} (ub {str(d.get('ub'))[:40]})", loc)
                # bounds of the continuous factor
                cont = e.get("continuous_var", "")
                alts = [a.strip() for a in re.split(r" if .* else ", cont)] if " if " in cont else [cont]
                for a in alts:
                    cf = a.split("[")[0]
                    cd0 = decl.get(cf)
                    if cd0 is None:
                        raise AnalysisError(f"{key}: continuous factor family `{cf}` has no declaration")
                    for cd in _compatible_cases(cd0, guard):
                        hub, dub = e.get("ub"), cd.get("ub")
                        hlb, dlb = e.get("lb"), cd.get("lb")
                        okub = True if hub == dub else bound_dominates(prog, cls, str(hub), str(dub), guard)
                        if okub is True:
                            rep.ok(RID, key + f":ub:{cf}", f"helper ub `{hub}` >= declared ub `{dub}` of {cf}", loc,
                                   sample={"helper": k, "factor": cf, "ub": hub, "declared": dub})
                        elif okub is False:
                            rep.violation(RID, key + f":ub:{cf}", f"helper is told ub = `{hub}` but `{cf}` is declared with ub = `{dub}`, which is larger: values of the "
                                          "continuous factor above the helper's bound are linearised wrongly (the product is cut off)", loc)
                        else:
                            raise AnalysisError(f"{key}: cannot compare the helper's ub `{hub}` with the declared ub `{dub}` of {cf}")
                        # the integer helper sizes the bit expansion of the integer factor from the same ub
                        if k.startswith("add_integer"):
                            from sa import boolnf as _B
                            for d in [pl for g_, pl in family_decls_all(prog, cls, fam) if _B.satisfiable(_B.mk_and([g_, guard]))]:
                                iub = d.get("ub")
                                sized = e.get("integer_ub") if e.get("integer_ub") not in (None, "None") else hub
                                r = True if iub == sized else bound_dominates(prog, cls, str(sized), str(iub), guard)
                                if r is None and sized == "self.w_max" and "self.edge_upper_bounds[" in str(iub):
                                    # reviewed fact: every repetition cap a flow model passes is a flow value (own flow, largest reachable flow) or w_max
                                    # itself, hence <= w_max (providers checked by C04.R5)
                                    r = True
                                if r is True:
                                    rep.ok(RID, key + f":bits:{fam}", f"bit expansion sized from `{sized}` >= declared ub `{iub}` of the integer factor {fam}", loc)
                                elif r is False:
                                    rep.violation(RID, key + f":bits:{fam}", f"the bit expansion of `{fam}` is sized from `{sized}`, which is below the "
                                                  f"declared ub `{iub}` of that factor: larger multiplicities cannot be represented (the model is cut)", loc)
                                else:
                                    raise AnalysisError(f"{key}: cannot compare `{sized}` (sizing the bit expansion) with the declared ub `{iub}` of the integer factor {fam}")
                        if hlb == dlb or (hlb == "0" and dlb in ("0", "min(self.path_length_factors)")):
                            rep.ok(RID, key + f":lb:{cf}", f"helper lb `{hlb}` vs declared lb `{dlb}`", loc, nontrivial=False)
                        else:
                            rep.violation(RID, key + f":lb:{cf}", f"helper is told lb = `{hlb}` but `{cf}` is declared with lb = `{dlb}`", loc)
    return n


def _int_by_validation(prog: Program, cls: ClassInfo, var_type: str, eff) -> bool:
    """`integer iff weight_type == int` counts as integer where the constructor rejects float weights for the very
    configuration under which the helper is used (kMinPathError: path length factors require integer weights)."""
    if var_type != "('integer' if self.weight_type == int else 'continuous')":
        return False
    from sa import boolnf as B
    factors = B.parse(ast.parse("len(self.path_length_factors) > 0", mode="eval").body)
    if not B.implies(eff["_guard"], factors):
        return False
    want = B.parse(ast.parse("self.weight_type == float and len(self.path_length_factors) > 0", mode="eval").body)
    init = prog.lookup_method(cls, "__init__")
    for st in walk_no_nested(init.node):
        if isinstance(st, ast.If) and any(isinstance(b, ast.Raise) for b in st.body):
            if B.implies(want, B.parse(st.test)):
                return True
    return False


# --------------------------------------------------------------------------------------- V4
def flag_pairing(prog: Program, rep, RID: str):
    """Every store into edges_set_to_one / edges_set_to_zero is paired, under the same quantifier and guards, with the
    constraint or queued fix it advertises (x == 1 / x == 0 on the same index)."""
    n = 0
    for cname in ("AbstractPathModelDAG", "AbstractWalkModelDiGraph"):
        cls = prog.cls(cname)
        for f in cls.methods.values():
            effs = method_effects(prog, cls, f)
            for fl in [e for e in effs if e["kind"] == "flag"]:
                n += 1
                want = "1" if fl["flag"] == "edges_set_to_one" else "0"
                idx = fl["index"].strip("()")
                key = f"{cname}.{f.name}:{fl['flag']}"
                loc = f"{f.module.relpath}:{fl['_line']}"
                if fl.get("value") != "True":
                    rep.violation(RID, key, f"flag stored with value {fl.get('value')} (consumers test membership only)", loc)
                    continue

                def strip(gs):
                    return sorted(g for g in gs if "fix_via_bounds" not in g)
                partners = []
                for e in effs:
                    if e["quant"] != fl["quant"] or strip(e["guards"]) != strip(fl["guards"]):
                        continue
                    if e["kind"] == "add_constraint":
                        nf: LinNF = e.get("_nf")
                        if nf is not None and nf.rel == "==" and len(nf.terms) == 1:
                            t = list(nf.terms)[0]
                            coef = nf.terms[t].const_value()
                            cst = nf.const.const_value()
                            if coef and cst is not None and t == f"self.edge_vars[{idx}]" and str(-cst / coef) == want:
                                partners.append(("constraint", e))
                    if e["kind"] in ("queue_fix_variable", "fix_variable") and e.get("var") == f"self.edge_vars[{idx}]" and e.get("value") == want:
                        partners.append(("bound", e))
                if partners:
                    rep.ok(RID, key, f"paired with {', '.join(p[0] for p in partners)} `edge_vars[{idx}] == {want}` under the same guards", loc,
                           sample={"flag": fl["flag"], "index": idx, "partners": [p[0] for p in partners], "guards": fl["guards"]})
                else:
                    rep.violation(RID, key, f"`self.{fl['flag']}[({idx})] = True` is not accompanied (same loop, same guards) by a constraint or queued "
                                  f"fix `edge_vars[{idx}] == {want}`: subclasses simplify their product rows for a variable that is not fixed", loc)
    return n


def flag_consumers(prog: Program, rep, RID: str, classes: List[str]):
    """In every encoder: under `idx in edges_set_to_zero` the product row is `p == 0`, under `idx in edges_set_to_one` it is
    `p == factor`, where factor is the continuous factor of the exact helper for the same product in the same loop."""
    n = 0
    for cname in classes:
        cls = prog.cls(cname)
        for f in cls.methods.values():
            effs = method_effects(prog, cls, f)
            helpers = [e for e in effs if e["kind"].endswith("product_constraint")]
            for h in helpers:
                prod = h.get("product_var")
                cont = h.get("continuous_var")
                base = [g for g in h["guards"] if "edges_set_to_" not in g]
                zero = one = None
                for e in effs:
                    if e["kind"] != "add_constraint" or e["quant"] != h["quant"]:
                        continue
                    g = e["guards"]
                    if sorted(x for x in g if "edges_set_to_" not in x) != sorted(base):
                        continue
                    nf: LinNF = e.get("_nf")
                    if nf is None or prod not in nf.terms:
                        continue
                    pos_zero = any(x.endswith("in self.edges_set_to_zero") and not x.startswith("not") for x in g)
                    pos_one = any(x.endswith("in self.edges_set_to_one") and not x.startswith("not") for x in g)
                    if pos_zero:
                        zero = e
                    elif pos_one:
                        one = e
                if zero is None and one is None:
                    continue        # encoder without simplification (given-weights variants)
                n += 1
                names = class_var_names(prog, cls, []) | {prod.split("[")[0]}
                nz = Normalizer(names)
                key = f"{cname}.{f.name}:{prod.split('[')[0]}"
                loc = f"{f.module.relpath}:{h['_line']}"
                exp_zero = nz.nf(ast.parse(f"{prod} == 0", mode="eval").body)
                exp_one = nz.nf(ast.parse(f"{prod} == ({cont})", mode="eval").body)
                okz = zero is not None and zero["_nf"].equivalent(exp_zero)
                oko = one is not None and one["_nf"].equivalent(exp_one)
                if okz and oko:
                    rep.ok(RID, key, f"zero-flag -> {prod} == 0 ; one-flag -> {prod} == {cont[:50]} ; else exact helper", loc,
                           sample={"product": prod, "factor": cont, "zero_row": zero["nf"], "one_row": one["nf"]})
                else:
                    what = []
                    if not okz:
                        what.append(f"under `in edges_set_to_zero` the row is `{zero['nf'] if zero else 'missing'}` (expected {prod} == 0)")
                    if not oko:
                        what.append(f"under `in edges_set_to_one` the row is `{one['nf'] if one else 'missing'}` (expected {prod} == {cont})")
                    rep.violation(RID, key, "flag consumers do not map each safety flag to the right simplification: " + "; ".join(what), loc)
    return n


# ------------------------------------------------------------------------------- constructor order
def encoder_order(prog: Program, rep, RID: str, classes: List[str]):
    """create_solver_and_paths|walks (which may populate the safety flags) precedes every encoder that reads them."""
    for cname in classes:
        f = prog.own_method(cname, "__init__")
        calls = sorted([c for c in calls_in(f.node) if (dotted(c.func) or "").startswith("self.")], key=lambda c: (c.lineno, c.col_offset))
        create = [c for c in calls if dotted(c.func) in ("self.create_solver_and_paths", "self.create_solver_and_walks")]
        enc = [c for c in calls if re.match(r"self\._encode_", dotted(c.func) or "")]
        key = f"{cname}.__init__:create-before-encode"
        if not create or not enc:
            raise AnalysisError(f"{cname}.__init__: create_solver_and_* / _encode_* calls not found")
        if all(create[0].lineno < e.lineno for e in enc) and _top_level(f.node, create[0]):
            rep.ok(RID, key, f"{dotted(create[0].func)}() at top level precedes {len(enc)} encoder call(s)", f.loc(create[0]))
        else:
            rep.violation(RID, key, "an encoder that reads edges_set_to_one/zero runs before (or without) create_solver_and_paths|walks: "
                          "it sees empty flags while the base class later fixes variables", f.loc(enc[0]))


def _top_level(func: ast.AST, call: ast.Call) -> bool:
    for st in func.body:
        if isinstance(st, ast.Expr) and st.value is call:
            return True
    return False


# -------------------------------------------------------------------------------- option keys
def option_keys(prog: Program, rep, RID: str):
    written: Dict[str, List[str]] = {}
    read: Set[str] = set()
    for f in prog.all_functions():
        for n in ast.walk(f.node):
            if isinstance(n, ast.Assign):
                for t in n.targets:
                    if isinstance(t, ast.Subscript) and isinstance(t.slice, ast.Constant) and isinstance(t.slice.value, str) and \
                            "options" in (dotted(t.value) or ""):
                        written.setdefault(t.slice.value, []).append(f.loc(n))
            if isinstance(n, ast.Call) and isinstance(n.func, ast.Attribute) and n.func.attr in ("get", "pop") and n.args and \
                    isinstance(n.args[0], ast.Constant) and isinstance(n.args[0].value, str):
                recv = dotted(n.func.value) or ""
                if "options" in recv or recv == "kwargs":
                    read.add(n.args[0].value)
            if isinstance(n, ast.Subscript) and isinstance(n.ctx, ast.Load) and isinstance(n.slice, ast.Constant) and isinstance(n.slice.value, str) \
                    and "options" in (dotted(n.value) or ""):
                read.add(n.slice.value)
            if isinstance(n, ast.Compare) and isinstance(n.left, ast.Constant) and isinstance(n.left.value, str) and \
                    any(isinstance(op, (ast.In, ast.NotIn)) for op in n.ops) and "options" in norm(n.comparators[0]):
                read.add(n.left.value)
    for k, locs in sorted(written.items()):
        if k in read:
            rep.ok(RID, f"option-key:{k}", "written key is read under the same spelling", locs[0], nontrivial=True)
        else:
            rep.violation(RID, f"option-key:{k}", f"option key '{k}' is written into an options dict but never read under that spelling: "
                          "the setting silently has no effect (or the reader uses its default)", locs[0])
    rep.extra["option_keys_written"] = len(written)
    rep.extra["option_keys_read"] = len(read)
    return len(written)


# ------------------------------------------------------------------------- trusted-edge providers
def implies_full_coverage(test: ast.AST) -> bool:
    if isinstance(test, ast.BoolOp):
        if isinstance(test.op, ast.And):
            return any(implies_full_coverage(v) for v in test.values)
        return all(implies_full_coverage(v) for v in test.values)
    if isinstance(test, ast.Compare) and len(test.ops) == 1:
        l, r = norm(test.left), test.comparators[0]
        if "coverage" in l and isinstance(r, ast.Constant) and r.value == 1 and isinstance(test.ops[0], (ast.Eq, ast.GtE)):
            return True
        if "coverage" in norm(r) and isinstance(test.left, ast.Constant) and test.left.value == 1 and isinstance(test.ops[0], (ast.Eq, ast.LtE)):
            return True
    return False


def parents_map(root: ast.AST) -> Dict[int, ast.AST]:
    pm = {}
    for p in ast.walk(root):
        for c in ast.iter_child_nodes(p):
            pm[id(c)] = p
    return pm


def enclosing_tests(root: ast.AST, node: ast.AST) -> List[Tuple[ast.AST, bool]]:
    pm = parents_map(root)
    out = []
    cur = node
    while id(cur) in pm:
        par = pm[id(cur)]
        if isinstance(par, ast.If):
            if any(cur is s for s in par.body):
                out.append((par.test, True))
            elif any(cur is s for s in par.orelse):
                out.append((par.test, False))
        cur = par
    return out


def trusted_edge_providers(prog: Program, rep, RID: str):
    """Constraint edges may be added to trusted_edges_for_safety only under a test that implies full coverage (then every
    solution contains them); the base set comes from the tabled providers."""
    n = 0
    for cname in K_MODELS:
        f = prog.own_method(cname, "__init__")
        # local aliases of the trusted set (`trusted = set(...); options['trusted_edges_for_safety'] = trusted`)
        trusted_aliases = {st.value.id for st in walk_no_nested(f.node) if isinstance(st, ast.Assign) and isinstance(st.value, ast.Name) and
                           any(isinstance(t, ast.Subscript) and isinstance(t.slice, ast.Constant) and t.slice.value == "trusted_edges_for_safety" for t in st.targets)}
        for c in calls_in(f.node):
            if isinstance(c.func, ast.Attribute) and c.func.attr in ("update", "add", "__ior__") and \
                    ("trusted_edges_for_safety" in norm(c.func.value) or (isinstance(c.func.value, ast.Name) and c.func.value.id in trusted_aliases)):
                n += 1
                tests = enclosing_tests(f.node, c)
                ok = any(pol and implies_full_coverage(t) for t, pol in tests)
                key = f"{cname}.__init__:trusted.update({norm(c.args[0]) if c.args else ''})"
                if ok:
                    rep.ok(RID, key, "constraint edges trusted only under a full-coverage test", f.loc(c),
                           sample={"site": norm(c), "guards": [canon_guard(t, p) for t, p in tests]})
                else:
                    rep.violation(RID, key, f"`{norm(c)}` adds constraint edges to the trusted set without a test implying coverage == 1: with partial "
                                  "coverage a solution need not contain them, so safe sequences through them are fixed wrongly "
                                  f"(guards: {[canon_guard(t, p) for t, p in tests]})", f.loc(c))
        # base provider
        for st in walk_no_nested(f.node):
            if isinstance(st, ast.Assign) and any(isinstance(t, ast.Subscript) and isinstance(t.slice, ast.Constant) and
                                                  t.slice.value == "trusted_edges_for_safety" for t in st.targets):
                n += 1
                v = st.value
                if isinstance(v, ast.Name):
                    from rules.common import local_single_defs as _lsd_t
                    v = _lsd_t(f.node).get(v.id, v)
                txt = norm(v)
                key = f"{cname}.__init__:trusted-base"
                ok = False
                why = ""
                if "get_non_zero_flow_edges" in txt and "edges_to_ignore=self.edges_to_ignore" in txt:
                    ok, why = True, "non-zero-flow edges outside the ignore set"
                elif re.fullmatch(r"set\(\(?(\w+) for \1 in self\.G\.edges\(\) if \1 not in self\.edges_to_ignore\)?\)", txt):
                    ok, why = True, "all non-ignored edges (cover models)"
                elif re.fullmatch(r"(set\()?self\.trusted_edges_for_safety( or (\[\]|set\(\)))?\)?", txt):
                    ok, why = True, "user-provided / class-level trusted set (checked where it is built)"
                if ok:
                    rep.ok(RID, key, why, f.loc(st), sample={"provider": txt[:120]})
                else:
                    rep.violation(RID, key, f"trusted_edges_for_safety is set from `{txt[:100]}`, which is not a tabled provider (non-zero-flow "
                                  "non-ignored edges / all non-ignored edges / the user's set)", f.loc(st))
    return n
