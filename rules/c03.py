"""C03 - MinFlowDecomp (DAG) always finds a decomposition and it has the fewest paths.

Minimality and completeness quantify over solver verdicts and Dilworth-type bounds: not decidable statically.
Decided: four structural necessary conditions of the search (DESIGN C03.R1-R4).
"""
from __future__ import annotations

import ast
import re

from sa.pm import Program, dotted, norm, AnalysisError
from sa.worlds import passed
from rules.c13 import k_loop_protocol, no_process_exit, SolveFlow, loop_with_solver_run
from rules.search import range_rule, lowerbound_rule

EXPLANATION = (
    "Decides structural necessary conditions of the minimum search of MinFlowDecomp on all paths of the current tree: "
    "(R1) the k-loop starts at the lower bound, ascends by one, moves on only after an infeasible verdict, returns True "
    "only with a proven-optimal model and publishes that model's solution; the guessed-weights model may replace the "
    "k-model only under an equality test between its path count and k; (R2) the loop's exclusive upper bound is >= |E|+1 "
    "(polynomial normal-form comparison; witness: a single-edge graph has optimum 1 = |E|); (R3) every candidate that "
    "can become the lower bound is a tabled provider combined by max, width queries ignore the synthetic source/sink "
    "edges together with the user's ignore set, provider functions return len() of a *solved* sub-model's solution; "
    "(R4) no process exit is reachable; (R7) node-weighted input and its subpath constraints reach the model through total translators "
    "following the expansion scheme (dropping a constraint element weakens the problem and lowers the reported minimum); (R6) the caller's options dict - from which the `lowerbound_k` option is read - and the other "
    "(R8) the greedy shortcut is accepted only after a coverage test that counts the constraint's edges among the *edges* of a path (body of graphutils.max_occurrence) in the unit of the threshold.  "
    " (R2, extended) the exclusive upper end of the k-range is at least |E| + number of subpath constraints + 1: pairwise incompatible constraints need a path each. "
    " (R9) elements of a float generating set that are zero up to the tolerance (solver noise) are not handed to the given-weights model as coefficients. "
    "input objects are never written (sub-searches work on copies), so a bound computed for one graph cannot leak into the search on another.  The greedy shortcut is accepted only against the thresholds of rows 7a (C10.R5), and the safety fixings / prunings of the base class conform to the table.  NOT decided: minimality, completeness, validity of each provider as a bound."
    ' (R9, round 3) the guessed-weights candidates exclude the values of ignored edges; the subgraph-scanning bound skips windows without an edge to explain; the min-gen-set total is used only when every edge has a flow value (both classes).'
)
DECIDED = ["search protocol of MinFlowDecomp.solve on every path", "range reaches the largest attainable optimum",
           "lower-bound candidates come from tabled providers, composed by max, with the width-call convention",
           "no process exit"]
NOT_DECIDED = ["the number of returned paths is minimum (for all smaller k none exists)", "solve() succeeds on every conserving positive flow",
               "each provider is a valid lower bound (Dilworth / generating-set arguments)"]

CLS = "MinFlowDecomp"
SOL_KEY = "paths"


def given_weights_guard(prog, rep, RID, cname, sol_key):
    f = prog.own_method(cname, "solve")
    loop = loop_with_solver_run(None, prog, f)
    loopvar = norm(loop.target)
    flow = SolveFlow(prog, f)
    hits = []

    orig = flow.on_assign

    def on_assign(stmt, target, value, state):
        orig(stmt, target, value, state)
        if dotted(value) == "self._given_weights_model":
            flow.record(hits, (stmt, target, state))
    flow.on_assign = on_assign
    flow.run(f.node)
    pat = re.compile(r"^len\(self\._given_weights_model\.get_solution\(.*\)\[['\"]%s['\"]\]\)==%s$|^%s==len\(self\._given_weights_model\.get_solution\(.*\)\[['\"]%s['\"]\]\)$"
                     % (sol_key, re.escape(loopvar), re.escape(loopvar), sol_key))
    n = 0
    for stmt, target, state in hits:
        inside = any(x is stmt for x in ast.walk(loop))
        if not inside:
            continue
        n += 1
        ok = state is not None
        for w in (state or []):
            good = False
            for k, v in w.d.items():
                if k.startswith("?") and v == frozenset(["True"]):
                    t = (k[5:] if k.startswith("?was:") else k[1:]).replace(" ", "")
                    if pat.match(t):
                        good = True
            opt = w.get("self._given_weights_model")
            if not (good and opt is not None and opt <= {"opt"}):
                ok = False
        key = f"{cname}.solve:adopt-given-weights-model"
        if ok:
            rep.ok(RID, key, f"guessed-weights model adopted only if solved and its number of {sol_key} equals {loopvar}", f.loc(stmt),
                   sample={"assignment": norm(stmt), "guard": f"len(...['{sol_key}']) == {loopvar} and is_solved()"})
        else:
            rep.violation(RID, key, f"`{norm(stmt)}`: the guessed-weights model replaces the k-model without the test that its number of "
                          f"{sol_key} equals the k under test (a larger, non-minimal decomposition could be returned for this k)", f.loc(stmt))
    if n == 0:
        raise AnalysisError(f"{cname}.solve: adoption site of the given-weights model not found")


def run(prog: Program, rep, pid: str, cls: str, sol_key: str, allow_log2: bool, r3_floor: int):
    rep.rule(f"{pid}.R1", f"search protocol of {cls}.solve", floor=6)
    k_loop_protocol(prog, rep, f"{pid}.R1", cls, "solve", {"self.get_lowerbound_k()"})
    given_weights_guard(prog, rep, f"{pid}.R1", cls, sol_key)
    rep.rule(f"{pid}.R2", "k-range reaches the largest attainable optimum", floor=1)
    range_rule(prog, rep, f"{pid}.R2", cls, "solve")
    rep.rule(f"{pid}.R3", "lower-bound composition", floor=r3_floor)
    lowerbound_rule(prog, rep, f"{pid}.R3", cls, allow_log2=allow_log2)
    rep.rule(f"{pid}.R4", "no process exit in library code", floor=1)
    no_process_exit(prog, rep, f"{pid}.R4")
    rep.rule(f"{pid}.R6", "the options dict that provides `lowerbound_k` and the other inputs are never written by the class", floor=3)
    from rules.c18 import class_inputs_not_mutated
    class_inputs_not_mutated(prog, rep, f"{pid}.R6", [cls])


def check(prog: Program, rep):
    run(prog, rep, "C03", CLS, SOL_KEY, True, 5)
    rep.rule("C03.R7", "node-weighted input and its subpath constraints reach the model unchanged (expansion scheme, total translators; C11.R3)", floor=14)
    from rules.common import node_mode_plumbing
    node_mode_plumbing(prog, rep, "C03.R7")
    rep.rule("C03.R8", "the greedy shortcut is accepted only if its paths really contain the constraint edges (coverage test counts path edges; C10.R5)", floor=2)
    from rules.c10 import max_occurrence_rule
    from rules.common import RuleProxy
    max_occurrence_rule(prog, RuleProxy(rep, "C03.R8"), "C10.R5")
    # ... and only against the thresholds of rows 7a (accepted below them, MinFlowDecomp reports fewer paths than the constrained minimum)
    from rules.c10 import greedy_rejection, greedy_units
    greedy_rejection(prog, RuleProxy(rep, "C03.R8"), "C10.R5")
    greedy_units(prog, RuleProxy(rep, "C03.R8"), "C10.R5")
    rep.rule("C03.R9", "solver noise of a float generating set does not reach the given-weights model as coefficients", floor=1)
    from rules.values import generating_set_as_weights
    generating_set_as_weights(prog, rep, "C03.R9", "MinFlowDecomp")
    from rules.values import candidate_weights_exclude_ignored, subgraph_windows_guarded
    candidate_weights_exclude_ignored(prog, rep, "C03.R9", "MinFlowDecomp")
    subgraph_windows_guarded(prog, rep, "C03.R9")

