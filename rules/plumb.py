"""Argument plumbing: what the caller declares (additional starts / ends, ignored elements) reaches every derived
computation of a model - the lower-bound graph as well as the k-model, the safety pre-computation as well as the
greedy shortcut.  Sibling computations of one class must agree on these arguments (cross-checking siblings)."""
from __future__ import annotations

import ast
import re
from typing import Dict, List, Optional, Set, Tuple

from sa.pm import Program, FuncInfo, ClassInfo, dotted, norm, calls_in, kwarg, walk_no_nested, AnalysisError
from sa import boolnf as B
from rules.common import local_single_defs, stores_to_self_attr, all_local_defs
from rules.semantic import enclosing_tests

ST_GRAPHS = ("stDAG", "stDiGraph")

# classes whose additional starts / ends are materialised in the graph itself: one line of reason each, premise checked in code
MATERIALISED = {
    "MinFlowDecomp": "additional starts/ends are accepted in node mode only, where NodeExpandedDiGraph wires them to a global source / sink of the graph",
    "MinFlowDecompCycles": "additional starts/ends are accepted in node mode only, where NodeExpandedDiGraph wires them to a global source / sink of the graph",
}


def _materialised_premise(prog: Program, cname: str) -> bool:
    init = prog.own_method(cname, "__init__")
    rejects_edge_mode = False
    for st in ast.walk(init.node):
        if isinstance(st, ast.If) and "additional_starts" in norm(st.test) and "additional_ends" in norm(st.test) and \
                any(isinstance(x, ast.Raise) for x in st.body):
            tests = enclosing_tests(init.node, st)
            if any("'edge'" in norm(t) and pol for t, pol in tests):
                rejects_edge_mode = True
    wires = False
    for c in calls_in(init.node):
        if (dotted(c.func) or "").endswith("NodeExpandedDiGraph") and kwarg(c, "additional_starts", 4) is not None and kwarg(c, "additional_ends", 5) is not None:
            wires = True
    return rejects_edge_mode and wires


def stgraph_starts_rule(prog: Program, rep, RID: str) -> int:
    """Every source-sink graph a model builds over its graph gets the model's additional starts and ends."""
    n = 0
    for cls in prog.all_classes():
        init = cls.methods.get("__init__")
        if init is None or "additional_starts" not in [a.arg for a in init.node.args.args]:
            continue
        for m in cls.methods.values():
            for c in calls_in(m.node):
                d = dotted(c.func) or ""
                if d.split(".")[-1] not in ST_GRAPHS or not c.args:
                    continue
                g = norm(c.args[0])
                if g not in ("self.G", "self.G_internal", "G_internal", "G"):
                    continue
                n += 1
                key = f"{cls.name}.{m.name}:{d.split('.')[-1]}({g})"
                a, b = kwarg(c, "additional_starts", 1), kwarg(c, "additional_ends", 2)
                if a is not None and b is not None and "additional_starts" in norm(a) and "additional_ends" in norm(b):
                    rep.ok(RID, key, f"gets additional_starts={norm(a)}, additional_ends={norm(b)}", m.loc(c))
                elif cls.name in MATERIALISED:
                    if not _materialised_premise(prog, cls.name):
                        raise AnalysisError(f"{cls.name}: tabled as materialising additional starts/ends in the graph, but the constructor no longer rejects them "
                                            "in edge mode or no longer passes them to NodeExpandedDiGraph")
                    rep.ok(RID, key, f"built without additional starts/ends: {MATERIALISED[cls.name]} (premise checked in __init__)", m.loc(c))
                else:
                    rep.violation(RID, key, f"`{norm(c)}` in {cls.name}.{m.name} is built without the model's additional starts / ends although the class accepts "
                                  "them: a graph whose only starts or ends are the additional ones has no source / sink there (ValueError), and any "
                                  "width computed on it ignores the routes starting / ending at the declared nodes", m.loc(c))
    return n


def node_expansion_fill_rule(prog: Program, rep, RID: str) -> int:
    """NodeExpandedDiGraph rejects additional starts / ends without try_filling_in_missing_flow_attr=True: every construction that
    passes them passes the flag as well (siblings: MinFlowDecomp does)."""
    n = 0
    ne = prog.own_method("NodeExpandedDiGraph", "__init__")
    demands_flag = any(isinstance(st, ast.If) and "additional_starts" in norm(st.test) and "try_filling_in_missing_flow_attr" in norm(st.test)
                       and any(isinstance(x, ast.Raise) for x in st.body) for st in ast.walk(ne.node))
    if not demands_flag:
        rep.ok(RID, "NodeExpandedDiGraph.__init__:fill-flag", "additional starts / ends no longer require try_filling_in_missing_flow_attr", ne.loc())
        return 1
    for cls in prog.all_classes():
        for m in cls.methods.values():
            for c in calls_in(m.node):
                if not (dotted(c.func) or "").endswith("NodeExpandedDiGraph"):
                    continue
                if kwarg(c, "additional_starts", 4) is None and kwarg(c, "additional_ends", 5) is None:
                    continue
                n += 1
                key = f"{cls.name}.{m.name}:NodeExpandedDiGraph"
                flag = kwarg(c, "try_filling_in_missing_flow_attr", 2)
                if isinstance(flag, ast.Constant) and flag.value is True:
                    rep.ok(RID, key, "additional starts / ends are passed together with try_filling_in_missing_flow_attr=True", m.loc(c))
                else:
                    rep.violation(RID, key, f"`NodeExpandedDiGraph(...)` in {cls.name}.{m.name} passes additional starts / ends without "
                                  "try_filling_in_missing_flow_attr=True, which the expansion rejects with ValueError: every node-weighted model "
                                  "with additional starts or ends fails in the constructor", m.loc(c))
    if n == 0:
        raise AnalysisError("no NodeExpandedDiGraph construction with additional starts / ends found")
    return n


def whole_flow_shortcuts_rule(prog: Program, rep, RID: str, cname: str = "kFlowDecomp") -> int:
    """Shortcuts that reason about the decompositions of the *whole* flow (greedy peeling, flow-safe paths) are sound only if no
    element is ignored and the flow is conserved: each of them is taken under both guards."""
    f = prog.own_method(cname, "__init__")
    n = 0
    targets = []
    for c in calls_in(f.node):
        d = dotted(c.func) or ""
        if d.endswith("_get_solution_with_greedy") or d.endswith("compute_flow_decomp_safe_paths"):
            targets.append(c)
    if len(targets) < 2:
        raise AnalysisError(f"{cname}.__init__: the greedy and the flow-safe-paths shortcuts were not both found")
    defs = all_local_defs(f.node)
    for c in targets:
        n += 1
        what = (dotted(c.func) or "").split(".")[-1]
        tests = enclosing_tests(f.node, c)
        # conditions computed into a local first (`whole_flow = len(ignored) == 0 and conserved`) are written out
        from rules.common import substitute_locals as _sl_w
        _ld = local_single_defs(f.node)
        tests = [(_sl_w(t, _ld), pol) for t, pol in tests]
        guard = B.mk_and([B.parse_pol(t, pol) for t, pol in tests])
        atoms = B.atoms_of(guard)
        ign = [a for a in atoms if "edges_to_ignore" in a]
        cons = [a for a in atoms if "satisfies_flow_conservation" in a or "check_flow_conservation" in a]
        key = f"{cname}.__init__:{what}"
        nothing_ignored = any(B.implies(guard, B.mk_not(B.atom(a))) for a in ign)
        conserved = any(B.implies(guard, B.atom(a)) for a in cons)
        if nothing_ignored and conserved:
            rep.ok(RID, key, f"taken only when nothing is ignored and the flow is conserved ({B.key(guard)[:100]})", f.loc(c))
        else:
            missing = []
            if not nothing_ignored:
                missing.append("no element is ignored")
            if not conserved:
                missing.append("the flow is conserved")
            rep.violation(RID, key, f"`{what}` is used under `{[('' if p else 'not ') + norm(t) for t, p in tests]}`, which does not ensure that {' and '.join(missing)}: "
                          "paths that are safe for (or a greedy decomposition of) the whole flow are not valid for the decompositions the model accepts "
                          "once edges are ignored - with safety as subpath constraints a feasible k becomes unsolvable", f.loc(c))
        if what == "_get_solution_with_greedy":
            # the greedy weights are not taken from a given weight set: the shortcut is taken only without one
            n += 1
            sup = [a for a in atoms if "solution_weights_superset" in a]
            keyg = key + ":no-superset"
            no_superset = any(B.implies(guard, B.atom(a)) for a in sup if "is None" in a or a.startswith("EQ0")) or \
                any(B.implies(guard, B.mk_not(B.atom(a))) for a in sup if "is None" not in a and not a.startswith("EQ0"))
            if no_superset:
                rep.ok(RID, keyg, "the greedy shortcut is not taken when solution_weights_superset is given", f.loc(c))
            else:
                rep.violation(RID, keyg, "the greedy decomposition marks the model solved whether or not solution_weights_superset is given: with the default "
                              "optimize_with_greedy the weights are not taken from the superset (s->a->t with flow 5, superset [2, 2]: solved with weights [5, 0], "
                              "infeasible with greedy off)", f.loc(c))
        # the graph argument is the model's internal graph (the caller's graph carries node flows in node-weighted mode)
        g = kwarg(c, "G", 0) if what == "compute_flow_decomp_safe_paths" else None
        if g is not None:
            n += 1
            if norm(g) in ("self.G_internal", "G_internal"):
                rep.ok(RID, key + ":graph", f"computed on the internal graph `{norm(g)}`", f.loc(c))
            else:
                rep.violation(RID, key + ":graph", f"flow-safe paths are computed on `{norm(g)}`, not on the model's internal graph: in node-weighted mode the "
                              "caller's graph has no edge flows (KeyError on a graph without inner node)", f.loc(c))
    return n


def ignore_list_accumulates(prog: Program, rep, RID: str, name: str = "edges_to_ignore_internal") -> int:
    """The internal ignore list is defined once per input mode (in node-weighted mode it starts with the edges of the node
    expansion that carry no flow attribute) and afterwards only grows: a later assignment that does not contain the previous
    value loses those edges, and the encoders then read a flow attribute that does not exist."""
    n = 0
    for cls in prog.all_classes():
        init = cls.methods.get("__init__")
        if init is None:
            continue
        assigns = [st for st in walk_no_nested(init.node) if isinstance(st, ast.Assign) and any(isinstance(t, ast.Name) and t.id == name for t in st.targets)]
        if not assigns:
            continue
        assigns.sort(key=lambda st: st.lineno)
        seen_modes: Set[str] = set()
        for st in assigns:
            tests = enclosing_tests(init.node, st)
            mode = [("" if pol else "not ") + norm(t) for t, pol in tests if "flow_attr_origin" in norm(t) or "cover_type" in norm(t)]
            refs_self = any(isinstance(x, ast.Name) and x.id == name for x in ast.walk(st.value))
            key = f"{cls.name}.__init__:{name}@{'/'.join(mode) or 'after-modes'}"
            n += 1
            if refs_self:
                rep.ok(RID, key, f"`{norm(st)[:90]}` keeps the previous entries", init.loc(st))
            elif mode and mode[0] not in seen_modes:
                seen_modes.add(mode[0])
                rep.ok(RID, key, f"definition of the list for the mode `{mode[0]}`", init.loc(st))
            else:
                rep.violation(RID, key, f"`{norm(st)[:110]}` replaces the ignore list built so far: in node-weighted mode the edges of the node expansion "
                              "without flow attribute are no longer ignored and the constructor fails on the first of them (ValueError / KeyError)", init.loc(st))
    if n == 0:
        raise AnalysisError(f"no constructor defines `{name}`")
    return n


def node_expansion_length_rule(prog: Program, rep, RID: str) -> int:
    """Sibling agreement: a class that takes `length_attr` and builds the node expansion passes it as `node_length_attr`
    (then the expanded copies of the original edges get length 0 instead of the default 1 in length coverage)."""
    n = 0
    for cls in prog.all_classes():
        init = cls.methods.get("__init__")
        if init is None or "length_attr" not in [a.arg for a in init.node.args.args]:
            continue
        for c in calls_in(init.node):
            if not (dotted(c.func) or "").endswith("NodeExpandedDiGraph"):
                continue
            n += 1
            key = f"{cls.name}.__init__:NodeExpandedDiGraph(node_length_attr)@{c.lineno - init.node.lineno}"
            v = kwarg(c, "node_length_attr", 3)
            if v is not None and norm(v) in ("length_attr", "self.length_attr"):
                rep.ok(RID, key, "the node expansion gets the length attribute", init.loc(c))
            else:
                rep.violation(RID, key, f"{cls.name} accepts length_attr but builds `{norm(c)[:90]}` without node_length_attr: the expanded copies of the original edges have "
                              "no length and count 1 in subpath_constraints_coverage_length, unlike in the other node-weighted DAG models and in the explicit expansion",
                              init.loc(c))
    if n < 6:
        raise AnalysisError(f"node expansion with length attribute: only {n} constructions found")
    return n


def percentile_rules(prog: Program, rep, RID: str) -> int:
    """Percentile options are statistics over the elements that count: the population excludes ignored elements (in node mode the
    edges between expanded nodes, whatever attribute they carry), and a trusted set built from a percentile contains no edge of
    flow 0 (an edge with flow 0 need not be on any walk, exactly as for the default trusted set)."""
    n = 0
    for cls in prog.all_classes():
        init = cls.methods.get("__init__")
        if init is None:
            continue
        defs = local_single_defs(init.node)
        for c in calls_in(init.node):
            if (dotted(c.func) or "").split(".")[-1] != "percentile" or not c.args:
                continue
            n += 1
            pop = c.args[0]
            if isinstance(pop, ast.Name):
                # last definition before the call
                cands = [st for st in walk_no_nested(init.node) if isinstance(st, ast.Assign) and any(isinstance(t, ast.Name) and t.id == pop.id for t in st.targets)
                         and st.lineno < c.lineno]
                pop = max(cands, key=lambda st: st.lineno).value if cands else pop
            key = f"{cls.name}.__init__:percentile({norm(c.args[1])[:40] if len(c.args) > 1 else ''}):population"
            filters = [norm(cond) for comp in ast.walk(pop) if isinstance(comp, (ast.ListComp, ast.GeneratorExp, ast.SetComp)) for g in comp.generators for cond in g.ifs]
            if any("not in" in t and "edges_to_ignore" in t for t in filters):
                rep.ok(RID, key, "the percentile is taken over non-ignored elements", init.loc(c))
            else:
                rep.violation(RID, key, f"the percentile is computed over `{norm(pop)[:110]}`, ignored elements included: in node-weighted mode an original edge that carries an "
                              "attribute of the same name is copied onto the (ignored) edge between the expanded nodes and shifts the threshold", init.loc(c))
        # trusted sets derived from a percentile
        for st in walk_no_nested(init.node):
            if isinstance(st, ast.Assign) and any(dotted(t) == "self.trusted_edges_for_safety" for t in st.targets) and "percentile" in norm(st.value) and \
                    any(isinstance(x, (ast.ListComp, ast.GeneratorExp, ast.SetComp)) for x in ast.walk(st.value)):
                n += 1
                key = f"{cls.name}.__init__:trusted-from-percentile"
                filters = [norm(cond) for comp in ast.walk(st.value) if isinstance(comp, (ast.ListComp, ast.GeneratorExp, ast.SetComp)) for g in comp.generators for cond in g.ifs]
                txt = " and ".join(filters)
                if re.search(r"\] (!= 0|> 0)\b", txt):
                    rep.ok(RID, key, "edges with flow 0 are never trusted", init.loc(st))
                else:
                    rep.violation(RID, key, f"the trusted set built from the percentile (`{txt[:100]}`) can contain edges with flow 0 (percentile 0): safe sequences then force "
                                  "walks through edges that need not be covered, and the model is infeasible with safe sequences but solved without them", init.loc(st))
    if n < 3:
        raise AnalysisError(f"percentile options: only {n} sites found")
    return n


def flow_safe_override_rule(prog: Program, rep, RID: str, cname: str = "kFlowDecomp") -> int:
    """Documented: flow-safe paths (on by default) override optimize_with_safe_paths.  Where the flow-safe paths are installed, the
    other safety options are switched off - not answered with a ValueError, which makes a documented option value unusable."""
    f = prog.own_method(cname, "__init__")
    site = None
    for st in ast.walk(f.node):
        if isinstance(st, ast.If) and any((dotted(c.func) or "").endswith("compute_flow_decomp_safe_paths") for b in st.body for c in ast.walk(b) if isinstance(c, ast.Call)):
            site = st
    if site is None:
        raise AnalysisError(f"{cname}.__init__: the branch installing flow-safe paths was not found")
    n = 0
    for opt in ("optimize_with_safe_paths", "optimize_with_safe_sequences"):
        n += 1
        key = f"{cname}.__init__:flow-safe-paths-vs-{opt}"
        raises = [x for x in ast.walk(site) if isinstance(x, ast.If) and x is not site and f"'{opt}'" in norm(x.test) and any(isinstance(b, ast.Raise) for b in x.body)]
        offs = [x for x in ast.walk(site) if isinstance(x, ast.Assign) and any(isinstance(t, ast.Subscript) and isinstance(t.slice, ast.Constant) and t.slice.value == opt
                                                                                 for t in x.targets) and isinstance(x.value, ast.Constant) and x.value.value is False]
        if raises:
            rep.violation(RID, key, f"with flow-safe paths in use the constructor raises ValueError when `{opt}` is on, although the documentation says flow-safe paths "
                          "override it: switching a documented option on makes MinFlowDecomp / kFlowDecomp unusable", f.loc(raises[0]))
        elif offs:
            rep.ok(RID, key, f"`{opt}` is switched off where flow-safe paths are installed", f.loc(offs[0]))
        else:
            raise AnalysisError(f"{cname}.__init__: `{opt}` is neither switched off nor rejected where flow-safe paths are installed")
    return n



# ---------------------------------------------------------------------------------------------------------------------------
# option dictionaries: None stands for "no option given"
# ---------------------------------------------------------------------------------------------------------------------------

_MAPPING_ATTRS = {"get", "copy", "items", "keys", "values", "update", "pop", "setdefault"}


def _parents(root) -> Dict[int, ast.AST]:
    par = {}
    for n in ast.walk(root):
        for c in ast.iter_child_nodes(n):
            par[id(c)] = n
    return par


def _mentions(node, text: str) -> bool:
    return any(norm(x) == text for x in ast.walk(node))


def _guarded(node, par, text: str) -> bool:
    """node is evaluated only when `text` was tested (truthiness / is not None / isinstance) on the way"""
    cur = node
    while id(cur) in par:
        p = par[id(cur)]
        if isinstance(p, ast.IfExp) and cur is p.body and _mentions(p.test, text):
            return True
        if isinstance(p, ast.IfExp) and cur is p.orelse and _mentions(p.test, text) and ("is None" in norm(p.test) or norm(p.test).startswith("not ")):
            return True
        if isinstance(p, ast.If) and any(cur is s for s in p.body) and _mentions(p.test, text):
            return True
        if isinstance(p, ast.BoolOp) and isinstance(p.op, ast.And) and any(_mentions(v, text) for v in p.values[:p.values.index(cur)] if cur in p.values):
            return True
        if isinstance(p, ast.BoolOp) and isinstance(p.op, ast.Or) and cur is p.values[0] and norm(cur) == text:
            # `(x or {})`: x itself is only tested here
            return True
        cur = p
    return False


def _in_orelse_of_none_test(node, par, text: str) -> bool:
    cur = node
    while id(cur) in par:
        p = par[id(cur)]
        if isinstance(p, ast.If) and any(cur is s for s in p.orelse) and _mentions(p.test, text) and ("is None" in norm(p.test) or norm(p.test).startswith("not ")):
            return True
        cur = p
    return False


def _mapping_derefs(root, text: str) -> List[ast.AST]:
    out = []
    for n in ast.walk(root):
        if isinstance(n, ast.Attribute) and norm(n.value) == text and n.attr in _MAPPING_ATTRS:
            out.append(n)
        elif isinstance(n, ast.Subscript) and norm(n.value) == text:
            out.append(n)
        elif isinstance(n, ast.Compare) and any(isinstance(o, (ast.In, ast.NotIn)) for o in n.ops) and any(norm(c) == text for c in n.comparators):
            out.append(n)
        elif isinstance(n, ast.keyword) and n.arg is None and norm(n.value) == text:
            out.append(n)
        elif isinstance(n, ast.Dict) and any(k is None and norm(v) == text for k, v in zip(n.keys, n.values)):
            out.append(n)
    return out


def options_none_safe(prog: Program, rep, RID: str) -> int:
    """solver_options / optimization_options: the base classes document None as 'no option given'; every class that uses the dictionary
    (get / [] / in / ** / copy) either normalises None to {} when it stores it or tests it before each use."""
    n = 0
    for ci in prog.all_classes():
        init = ci.methods.get("__init__")
        if init is None:
            continue
        params = [a.arg for a in init.node.args.args + init.node.args.kwonlyargs if a.arg in ("solver_options", "optimization_options")]
        for p in params:
            par = _parents(init.node)
            rebound = [st for st in ast.walk(init.node) if isinstance(st, ast.Assign) and any(isinstance(t, ast.Name) and t.id == p for t in st.targets)
                       and ("{}" in norm(st.value) or "dict(" in norm(st.value))]
            key = f"{ci.name}.__init__:{p}"
            n += 1
            bad = None
            if not rebound:
                for d in _mapping_derefs(init.node, p):
                    if not _guarded(d, par, p):
                        bad = (init, d, f"`{norm(par.get(id(d), d))[:70]}` uses the parameter although it may be None")
                        break
            stores = [st for st in ast.walk(init.node) if isinstance(st, ast.Assign) and any(norm(t) == f"self.{p}" for t in st.targets)]
            # (the program model writes `self.a = x if x is not None else {}` as an if / else of two stores)
            raw = [st for st in stores if isinstance(st.value, ast.Name) and st.value.id == p and not _guarded(st, par, p) and not _in_orelse_of_none_test(st, par, p)] \
                if not rebound else []
            fixed_later = any(isinstance(st, ast.If) and _mentions(st.test, f"self.{p}") and "None" in norm(st.test) and
                              any(isinstance(x, ast.Assign) and any(norm(t) == f"self.{p}" for t in x.targets) for x in st.body) for st in ast.walk(init.node))
            if bad is None and raw and not fixed_later:
                for m in ci.methods.values():
                    mpar = _parents(m.node)
                    for d in _mapping_derefs(m.node, f"self.{p}"):
                        if not _guarded(d, mpar, f"self.{p}"):
                            bad = (m, d, f"the parameter is stored as it came and `{norm(mpar.get(id(d), d))[:70]}` ({m.name}) uses it as a dictionary")
                            break
                    if bad:
                        break
            if bad:
                m, d, why = bad
                rep.violation(RID, key, f"{why}: {p}=None - the default the base classes document for 'no option given' - raises TypeError / AttributeError instead of "
                              "running with the defaults", m.loc(d))
            else:
                rep.ok(RID, key, "None is normalised to {} (or tested) before the dictionary is used", init.loc())
    if n < 10:
        raise AnalysisError(f"only {n} option parameters found")
    return n


def default_k_handled(prog: Program, rep, RID: str) -> int:
    """A class that declares k=None reads None as 'choose k' (the width of the graph / the guessed lower bound): None is replaced before
    the base class compares k with 0."""
    n = 0
    for ci in prog.all_classes():
        init = ci.methods.get("__init__")
        if init is None:
            continue
        args = init.node.args
        pos = args.args
        defaults = dict(zip([a.arg for a in pos[len(pos) - len(args.defaults):]], args.defaults))
        defaults.update({a.arg: d for a, d in zip(args.kwonlyargs, args.kw_defaults) if d is not None})
        d = defaults.get("k")
        if d is None or not (isinstance(d, ast.Constant) and d.value is None):
            continue
        n += 1
        key = f"{ci.name}.__init__:k-default"
        tests = [c for c in ast.walk(init.node) if isinstance(c, ast.Compare) and norm(c.left) in ("k", "self.k") and len(c.ops) == 1 and
                 isinstance(c.ops[0], (ast.Is, ast.IsNot)) and norm(c.comparators[0]) == "None"]
        if tests:
            rep.ok(RID, key, "k=None is replaced by a computed value before it is validated", init.loc(tests[0]))
        else:
            rep.violation(RID, key, f"{ci.name} declares k=None but never tests it: the default is passed on to the base class, whose `k <= 0` raises TypeError - "
                          f"{ci.name}(G) with the documented default cannot be constructed (the sibling models replace None by the width of the graph)", init.loc())
    if n < 3:
        raise AnalysisError(f"only {n} classes with a default k=None found")
    return n


def additional_nodes_typed(prog: Program, rep, RID: str) -> int:
    """get_expanded_edge maps nodes *and* edges of the original graph; the translation of additional starts / ends goes through it, so an
    edge given as a start / end node has to be rejected before (it would become the middle of a node of the expanded graph)."""
    ci = prog.cls("NodeExpandedDiGraph")
    n = 0
    for mname in ("get_expanded_additional_starts", "get_expanded_additional_ends"):
        m = ci.methods.get(mname)
        if m is None:
            raise AnalysisError(f"NodeExpandedDiGraph.{mname} not found")
        n += 1
        key = f"NodeExpandedDiGraph.{mname}:nodes-only"
        uses = [c for c in calls_in(m.node) if isinstance(c.func, ast.Attribute) and c.func.attr == "get_expanded_edge"]
        if not uses:
            rep.ok(RID, key, "the translation does not go through get_expanded_edge", m.loc())
            continue

        def rejects(fn) -> bool:
            # `if <not a node>: raise ValueError`, or `if <is a node>: continue` followed by the raise
            raises = [x for x in ast.walk(fn) if isinstance(x, ast.Raise) and "ValueError" in norm(x)]
            tests = [i for i in ast.walk(fn) if isinstance(i, ast.If) and ("original_G" in norm(i.test) or "isinstance" in norm(i.test)) and
                     (any(isinstance(x, ast.Raise) for x in ast.walk(i)) or any(isinstance(x, ast.Continue) for x in i.body))]
            return bool(raises) and bool(tests)
        ok_ = rejects(m.node)
        for c in calls_in(m.node):
            if isinstance(c.func, ast.Attribute) and norm(c.func.value) == "self" and c.func.attr in ci.methods and c.func.attr != "get_expanded_edge":
                ok_ = ok_ or rejects(ci.methods[c.func.attr].node)
            elif isinstance(c.func, ast.Name):
                try:
                    ok_ = ok_ or rejects(prog.function(m.module.name, c.func.id).node)
                except Exception:
                    pass
        if ok_:
            rep.ok(RID, key, "entries that are not nodes of the original graph raise ValueError before the translation", m.loc())
        else:
            rep.violation(RID, key, f"`{norm(uses[0])}` also translates an edge (u, v) of the original graph (to ('u.1', 'v.0')): additional_ends=[('a', 'c')] becomes the "
                          "end node 'c.0', passes the membership test of the source-sink graph and the model reports solved with a path ending in the middle of a node - "
                          "an unknown additional start / end node is not rejected", m.loc(uses[0]), self_contained=True)   # (every callee of the method was looked into)
    return n


def fill_in_uses_global_terminals(prog: Program, rep, RID: str) -> int:
    """The fill-in of missing flow values solves an auxiliary flow from a super source to a super sink.  The expansion hangs the additional
    starts / ends on a global source / sink of its own; flow entering or leaving there needs an arc from the super source / to the super sink,
    otherwise the auxiliary flow is infeasible exactly when an additional start or end is needed and the fill-in is skipped silently."""
    ci = prog.cls("NodeExpandedDiGraph")
    f = ci.methods.get("_try_filling_in_missing_flow_values")
    if f is None:
        raise AnalysisError("NodeExpandedDiGraph._try_filling_in_missing_flow_values not found")
    has_globals = any("global_source_id" in norm(st) for st in ast.walk(ci.methods["__init__"].node) if isinstance(st, ast.Assign))
    key = "NodeExpandedDiGraph._try_filling_in_missing_flow_values:global-terminals"
    if not has_globals:
        rep.ok(RID, key, "the expansion has no global source / sink of its own", f.loc())
        return 1
    # arcs are added by add_edge, possibly through a nested helper `def add_arc(u, v): network.add_edge(u, v); ...`
    helpers = {fd.name for fd in ast.walk(f.node) if isinstance(fd, ast.FunctionDef) and fd is not f.node and len(fd.args.args) >= 2 and
               any(isinstance(c, ast.Call) and isinstance(c.func, ast.Attribute) and c.func.attr == "add_edge" and len(c.args) >= 2 and
                   [norm(a) for a in c.args[:2]] == [fd.args.args[0].arg, fd.args.args[1].arg] for c in ast.walk(fd))}
    adds = [c for c in calls_in(f.node) if len(c.args) >= 2 and ((isinstance(c.func, ast.Attribute) and c.func.attr == "add_edge") or
                                                                (isinstance(c.func, ast.Name) and c.func.id in helpers))]
    if not adds:
        raise AnalysisError("fill-in: arcs of the auxiliary network not found")
    from rules.common import substitute_locals as _sl
    ldefs = local_single_defs(f.node)

    def arg(c, i):
        return norm(_sl(c.args[i], ldefs))
    src = [c for c in adds if "global_source_id" in arg(c, 1) and "source" in norm(c.args[0])]
    snk = [c for c in adds if "global_sink_id" in arg(c, 0) and "sink" in norm(c.args[1])]
    if src and snk:
        rep.ok(RID, key, "the super source feeds the global source and the global sink drains into the super sink", f.loc(src[0]))
    else:
        missing = [w for w, l in (("super source -> global source", src), ("global sink -> super sink", snk)) if not l]
        rep.violation(RID, key, f"the auxiliary flow of the fill-in has no arc {' / '.join(missing)}: flow can enter only at the in-degree-0 nodes, so whenever an additional "
                      "start is really needed (a(5) -> b(8) -> c(8) with additional_starts=['b']) the flow is infeasible and the fill-in is skipped silently, although the "
                      "constructor demands it for additional starts / ends", f.loc(adds[0]))
    return 1


# ---------------------------------------------------------------------------------------------------------------------------
# whole constraints as safe sequences: only under full coverage
# ---------------------------------------------------------------------------------------------------------------------------

def _eval_small(e: ast.AST, env: Dict[str, object]):
    """value of a small test over `self.<attr>` (from env) and constants; raises KeyError / ValueError on anything else"""
    if isinstance(e, ast.Constant):
        return e.value
    if isinstance(e, (ast.List, ast.Tuple, ast.Set)):
        return [_eval_small(x, env) for x in e.elts]
    if isinstance(e, ast.Attribute) and isinstance(e.value, ast.Name) and e.value.id == "self":
        return env[e.attr]
    if isinstance(e, ast.UnaryOp) and isinstance(e.op, ast.Not):
        return not _eval_small(e.operand, env)
    if isinstance(e, ast.BoolOp):
        vals = [_eval_small(v, env) for v in e.values]
        return all(vals) if isinstance(e.op, ast.And) else any(vals)
    if isinstance(e, ast.Compare):
        left = _eval_small(e.left, env)
        for op, right in zip(e.ops, e.comparators):
            r = _eval_small(right, env)
            if isinstance(op, ast.Eq):
                ok_ = left == r
            elif isinstance(op, ast.NotEq):
                ok_ = left != r
            elif isinstance(op, ast.Is):
                ok_ = left is r
            elif isinstance(op, ast.IsNot):
                ok_ = left is not r
            elif isinstance(op, ast.In):
                ok_ = any(left is x or left == x for x in r)
            elif isinstance(op, ast.NotIn):
                ok_ = not any(left is x or left == x for x in r)
            elif isinstance(op, (ast.Lt, ast.LtE, ast.Gt, ast.GtE)):
                if left is None or r is None:
                    raise ValueError("ordering with None")
                ok_ = {ast.Lt: left < r, ast.LtE: left <= r, ast.Gt: left > r, ast.GtE: left >= r}[type(op)]
            else:
                raise ValueError("operator")
            if not ok_:
                return False
            left = r
        return True
    if isinstance(e, ast.Call) and isinstance(e.func, ast.Name) and e.func.id in ("all", "any") and "__quantified__" in env:
        # a quantified sub-condition over the input (e.g. all lengths positive): a free boolean of the case under evaluation
        return env["__quantified__"]
    raise ValueError(f"cannot evaluate {norm(e)}")


def _eval_ok(conj, cov, covlen):
    """is the call reachable with these coverage settings for some value of the quantified sub-conditions?"""
    out = []
    for q in (True, False):
        env = {"subpath_constraints_coverage": cov, "subpath_constraints_coverage_length": covlen, "__quantified__": q}
        try:
            out.append(all(bool(_eval_small(p, env)) == pol for p, pol in conj))
        except (KeyError, ValueError):
            out.append(False)
    return out


def constraints_as_safe_sequences_rule(prog: Program, rep, RID: str) -> int:
    """A subpath constraint is a safe sequence - contained as a whole in one path of every solution - only if it has to be covered in full,
    in both metrics: coverage == 1 and coverage_length in (1, None).  The call that computes safe sequences from the constraints is evaluated
    under every combination of full / partial coverage: it may be reached only when both are full."""
    ci = prog.cls("AbstractPathModelDAG")
    n = 0
    for m in ci.methods.values():
        for c in calls_in(m.node):
            all_args = list(c.args) + [k.value for k in c.keywords]
            direct = (dotted(c.func) or "").endswith("safe_sequences")
            # or through a local helper that gets the function and its argument: add_safe_lists(safetypathcovers.safe_sequences, self.subpath_constraints, ...)
            by_reference = any((dotted(a) or "").endswith("safe_sequences") for a in all_args)
            if not (direct or by_reference) or not any(norm(a) == "self.subpath_constraints" for a in all_args):
                continue
            n += 1
            key = f"AbstractPathModelDAG.{m.name}:constraints-as-safe-sequences"
            tests = enclosing_tests(m.node, c)
            conj = []
            for t, pol in tests:
                parts = t.values if (isinstance(t, ast.BoolOp) and isinstance(t.op, ast.And) and pol) else [t]
                for p in parts:
                    if "subpath_constraints_coverage" in norm(p):
                        conj.append((p, pol))
            bad = None
            reached_with_length_coverage = False
            for cov in (1, 0.5):
                for covlen in (1, None, 0.5):
                    for quantified in (True, False):
                        env = {"subpath_constraints_coverage": cov, "subpath_constraints_coverage_length": covlen, "__quantified__": quantified}
                        try:
                            reached = all(bool(_eval_small(p, env)) == pol for p, pol in conj)
                        except (KeyError, ValueError) as ex:
                            raise AnalysisError(f"AbstractPathModelDAG.{m.name}: cannot evaluate the coverage guard of the safe-sequence computation ({ex})")
                        if reached and not (cov == 1 and covlen in (1, None)):
                            bad = bad or (cov, covlen)
                        if reached and cov == 1 and covlen == 1 and not quantified:
                            reached_with_length_coverage = True
            # under full *length* coverage the coverage row sum(len_e * x_e) >= total never requires an edge of length 0: the constraints are safe
            # sequences only if every constraint edge has positive length - a condition on the lengths has to stand in the guard
            length_guard = any(isinstance(x, ast.Call) and isinstance(x.func, ast.Name) and x.func.id in ("all", "any") and "length_attr" in norm(x) and
                               re.search(r"> ?0|!= ?0|>= ?1\b", norm(x)) for p, _pol in conj for x in ast.walk(p))
            if bad is None and (reached_with_length_coverage or not length_guard) and any(_eval_ok(conj, 1, 1)):
                rep.violation(RID, key + ":zero-length", "with subpath_constraints_coverage_length = 1 the subpath constraints are used as safe sequences whatever the lengths of "
                              "their edges are: the coverage row sum(len_e * x_e) >= total never requires an edge of length 0, so such a constraint is not contained as a whole "
                              "in one path of every solution (s->b len 5, b->c len 0, c->t, b->t with the constraint [(s,b),(b,c)]: error 10 / 15 reported where 0 is optimal)",
                              m.loc(c))
            if bad:
                rep.violation(RID, key, f"safe sequences are computed from the subpath constraints also when subpath_constraints_coverage = {bad[0]} and "
                              f"subpath_constraints_coverage_length = {bad[1]} (guard: `{' and '.join(('' if pol else 'not ') + norm(p) for p, pol in conj) or 'none'}`): a constraint "
                              "that only has to be covered in part is not contained as a whole in one path of every solution; used as a safe sequence (fixing, or added as a subpath "
                              "constraint with optimize_with_safety_as_subpath_constraints) it cuts off the optimum", m.loc(c))
            else:
                rep.ok(RID, key, "computed only under full coverage in both metrics (coverage == 1, coverage_length in (1, None))", m.loc(c))
    if n == 0:
        raise AnalysisError("AbstractPathModelDAG: the computation of safe sequences from the subpath constraints was not found")
    return n


def constraint_edges_trusted_rule(prog: Program, rep, RID: str, cname: str = "kLeastAbsErrors") -> int:
    """The edges of a fully covered subpath constraint are added to the trusted edges (they lie on a path of every solution).  Under full *length*
    coverage that holds only for edges of positive length: the update has to filter them."""
    f = prog.own_method(cname, "__init__")
    n = 0
    aliases = {st.value.id for st in ast.walk(f.node) if isinstance(st, ast.Assign) and isinstance(st.value, ast.Name) and
               any(isinstance(t, ast.Subscript) and isinstance(t.slice, ast.Constant) and t.slice.value == "trusted_edges_for_safety" for t in st.targets)}
    nested = {fd.name: fd for fd in ast.walk(f.node) if isinstance(fd, ast.FunctionDef) and fd is not f.node}
    for c in calls_in(f.node):
        if isinstance(c.func, ast.Attribute) and c.func.attr in ("update", "add") and c.args and \
                ("trusted_edges_for_safety" in norm(c.func.value) or (isinstance(c.func.value, ast.Name) and c.func.value.id in aliases)):
            all_tests = [(t, pol) for t, pol in enclosing_tests(f.node, c)]
            tests = [norm(t) for t, pol in all_tests if pol]
            if not any("subpath_constraints_coverage_length == 1" in t for t in tests):
                continue
            n += 1
            key = f"{cname}.__init__:constraint-edges-trusted"
            arg = c.args[0]
            positive = lambda txt: "length_attr" in txt and re.search(r"> ?0|!= ?0", txt)
            filtered = isinstance(arg, (ast.GeneratorExp, ast.ListComp, ast.SetComp)) and any(positive(norm(i)) for g in arg.generators for i in g.ifs)
            # or: an explicit loop that adds the edge under a test on its length - directly, or through a local predicate
            for t, pol in all_tests:
                if pol and positive(norm(t)):
                    filtered = True
                if pol and isinstance(t, ast.Call) and isinstance(t.func, ast.Name) and t.func.id in nested and \
                        any(isinstance(r, ast.Return) and r.value is not None and positive(norm(r.value)) for r in ast.walk(nested[t.func.id])):
                    filtered = True
            if filtered:
                rep.ok(RID, key, "under length coverage only constraint edges of positive length are trusted", f.loc(c))
            else:
                rep.violation(RID, key, f"`{norm(c)[:80]}` trusts every edge of a constraint also under subpath_constraints_coverage_length = 1, although an edge of length 0 need "
                              "not lie on the covering path: the safe sequences through it cut off the optimum (s->b len 5, b->c len 0, c->t, b->t, constraint [(s,b),(b,c)], "
                              "superset [5]: error 15 where 0 is optimal)", f.loc(c))
    if n == 0:
        raise AnalysisError(f"{cname}.__init__: the update of the trusted edges with the constraint edges was not found")
    return n
