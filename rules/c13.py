"""C13 - solved means proven optimal; inconclusive solver runs never yield an answer.

All rules are all-paths statements over control flow, decided by the worlds dataflow
(sa/worlds.py) on the current tree.
"""
from __future__ import annotations

import ast
import re
from typing import Dict, List, Optional, Set

from sa.pm import Program, FuncInfo, ClassInfo, dotted, norm, calls_in, walk_no_nested, AnalysisError, kwarg
from sa.worlds import WorldFlow, World, must, describe, passed, OPT, INF, OTHER, TOP3, NONE, NOTNONE, TRUTHY, FALSY
from rules.common import (stores_to_self_attr, self_methods_assigning, self_methods_assigning_non_none,
                          local_single_defs, substitute_locals, find_for_loops)

EXPLANATION = (
    "Decides the control-flow obligations of C13 on every path of the current tree: (R1) every writer of "
    "`_is_solved = True` / caller of set_solved() is reached only with a proof condition (status class of the "
    "solver run it follows is {optimal}, or the delegate model is proven solved, or one of two tabled non-solver "
    "routes); (R2) in each minimum search over k the back edge is reached only with status class {infeasible}, "
    "`return True` only with {optimal}, the search starts at the lower bound and ascends by one, and the published "
    "solution is read from the proven model; NumPathsOptimization publishes only a proven model; (R3) every getter "
    "path to solver data passes check_is_solved() or a guarded cache test, and a cached solution is never left behind "
    "when the solved flag is lowered or the solver replaced; (R4) the custom timeout wins over the backend status and "
    "is reset before each run; (R5) no process exit is reachable and no handler swallows an exception around a solver "
    "(P5 of the search protocol) a lower bound cached across calls is raised inside the search only after a proven-infeasible run.  "
    " (R6) re-entrancy of solve(): a model's own solve() drops the cached solution (and the solver values read) before it runs the solver, a search over sub-models lowers its flag and drops its solution before the first run, and every class with solve() initialises the flag in its constructor. "
    "run except the one tabled in _run_with_timeout.  NOT decided: that HiGHS' kOptimal is a proof (trusted)."
)
DECIDED = ["is_solved() is raised only under a proof condition (all writers, all paths)",
           "minimum searches stop on any status other than optimal/infeasible (all paths of the 5 k-loops)",
           "getters raise before solve (guard on every path to data)",
           "NumPathsOptimization publishes only a model proven optimal for its k",
           "custom timeout overrides the backend status"]
NOT_DECIDED = ["that the solver's 'optimal' status is a proof of optimality (trusted external contract)"]

K_LOOPS = [  # (class, method, accepted start expressions after local substitution)
    ("MinFlowDecomp", "solve", {"self.get_lowerbound_k()"}),
    ("MinFlowDecompCycles", "solve", {"self.get_lowerbound_k()"}),
    ("MinPathCover", "solve", {"self.get_lowerbound_k()"}),
    ("MinPathCoverCycles", "solve", {"self.get_lowerbound_k()"}),
    ("MinGenSet", "solve", {"self.lowerbound"}),
]

# writers of `_is_solved = True` that are justified by something other than a solver verdict (frozen table, one
# line of reason each).  key = function qualname -> (kind, reason)
NON_SOLVER_WRITERS = {
    "AbstractPathModelDAG.set_solved": ("setter", "setter: every *caller* is checked instead"),
    "AbstractWalkModelDiGraph.set_solved": ("setter", "setter: every *caller* is checked instead"),
    "AbstractPathModelDAG.__init__": ("external", "solution supplied by the subclass (external_solution_paths is not None)"),
    "AbstractPathModelDAG.solve": ("external-or-status", "external solution branch, else solver status"),
    "kFlowDecomp._get_solution_with_greedy": ("greedy", "greedy decomposition accepted only if it fits in k paths (C02.R4)"),
}


class SolveFlow(WorldFlow):
    """Collects events with the worlds state at: solved-writers, returns, back edges, _solution stores."""

    def __init__(self, prog, f: FuncInfo, ctx_cls: Optional[ClassInfo] = None):
        super().__init__(prog, f.module, ctx_cls or f.cls)
        self.f = f
        self.events: List[tuple] = []
        cls = ctx_cls or f.cls
        self.solver_resetters = self_methods_assigning(prog, cls, "solver") if cls else set()
        self.cachers = self_methods_assigning_non_none(prog, cls, "_solution") if cls else set()

    def on_call(self, call, state):
        d = dotted(call.func)
        if d == "self.set_solved" or (d and d.endswith(".set_solved") and d.startswith("self")):
            self.record(self.events, ("writer", call, state, "set_solved()"))

    def effects_of_expr(self, expr, state):
        state = super().effects_of_expr(expr, state)
        if state is None:
            return None
        for n in ast.walk(expr):
            if isinstance(n, ast.Call):
                d = dotted(n.func) or ""
                if d.startswith("self.") and d.count(".") == 1:
                    m = d.split(".")[1]
                    if m in self.solver_resetters:
                        # the solver object is replaced: no verdict is known for the new one
                        state = self._map(state, lambda w: w.set("self", TOP3))
                        state = self._mark_stale(state, n, "solver re-created")
                    if m in self.cachers and m != self.f.name:
                        state = self._map(state, lambda w: w.set("#cached", ["T"]))
        return state

    def _mark_stale(self, state, node, why):
        def f(w: World):
            if w.get("#cached") == frozenset(["T"]):
                return w.set("#stale", ["T"])
            return w
        return self._map(state, f)

    def on_assign(self, stmt, target, value, state):
        if target.endswith("._is_solved") and target.startswith("self"):
            tok = self.const_token(value)
            if tok == "True":
                self.record(self.events, ("writer", stmt, state, "_is_solved = True"))
            elif tok in ("False", "None"):
                pass
            else:
                self.record(self.events, ("writer-expr", stmt, state, f"_is_solved = {norm(value)}"))
        if target == "self._solution":
            self.record(self.events, ("solution-store", stmt, state, norm(value)))
        if re.fullmatch(r"self\._?lowerbound_k", target) and self.const_token(value) != "None":
            self.record(self.events, ("lowerbound-store", stmt, state, norm(value)))

    def transfer(self, stmt, state):
        state = super().transfer(stmt, state)
        if state is None:
            return None
        if isinstance(stmt, ast.Assign):
            for t in stmt.targets:
                d = dotted(t)
                if d == "self._is_solved" and self.const_token(stmt.value) in ("False", "None"):
                    state = self._mark_stale(state, stmt, "_is_solved lowered")
                if d == "self._solution":
                    if isinstance(stmt.value, ast.Constant) and stmt.value.value is None:
                        state = self._map(state, lambda w: w.set("#cached", None).set("#stale", None))
                    else:
                        state = self._map(state, lambda w: w.set("#cached", ["T"]))
        return state

    def on_return(self, stmt, state):
        self.record(self.events, ("return", stmt, state, norm(stmt.value) if stmt.value is not None else "None"))

    def on_fallthrough(self, func, state):
        self.record(self.events, ("fallthrough", func, state, "end of function"))

    def on_back_edge(self, loop, state):
        self.record(self.events, ("back-edge", loop, state, ""))


def proof_keys(flow: SolveFlow, state) -> List[str]:
    """Model keys that received a solver run in this function and are {opt} in every world."""
    ks = [k for k in sorted(flow.solve_keys) if must(state, k, {OPT})]
    # delegates refined through is_solved() without a run in this function (e.g. the cached given-weights model)
    if state is not None:
        cand = set()
        for w in state:
            cand |= {k for k, v in w.d.items() if v <= {OPT} and v and not k.startswith(("?", "#"))
                     and all(t in (OPT,) for t in v)}
        for k in sorted(cand):
            if k not in ks and must(state, k, {OPT}):
                ks.append(k)
    return ks


def check(prog: Program, rep):
    r1(prog, rep)
    r1b(prog, rep)
    r2(prog, rep)
    r3(prog, rep)
    r4(prog, rep)
    r5(prog, rep)
    r6(prog, rep)


# ----------------------------------------------------------------------------------------------- R6
def r6(prog: Program, rep):
    """solve() may be called again on an object whose earlier solve() succeeded.  What that run left behind - the raised flag, the
    cached solution, the solver values read - must not be what the new run is judged by: a model's own solve() drops the cached
    solution before it runs the solver, and a search over sub-models lowers its flag and drops its solution before the first run."""
    rep.rule("C13.R6", "re-entrancy of solve(): cached solution (and, for searches, the solved flag) reset before the first solver run", floor=9)
    n = 0
    for cls in prog.all_classes():
        f = cls.methods.get("solve")
        if f is None or prog.lookup_method(cls, "is_solved") is None:
            continue
        body = [st for st in f.node.body if not (isinstance(st, ast.Expr) and isinstance(st.value, ast.Constant))]
        if all(isinstance(st, ast.Pass) for st in body):
            continue
        own_run = any((dotted(c.func) or "") == "self.solver.optimize" for c in calls_in(f.node))
        # index of the first top-level statement that runs a solver (own run, or sub-model solve / loop over k)
        first = None
        for i, st in enumerate(body):
            runs = any(isinstance(c.func, ast.Attribute) and c.func.attr in ("optimize", "solve") and (dotted(c.func) or "") != "self.solve" for c in calls_in(st))
            calls_self = any((dotted(c.func) or "").startswith("self._solve") or (dotted(c.func) or "").startswith("self.get_lowerbound") for c in calls_in(st))
            if runs or calls_self or isinstance(st, (ast.For, ast.While)):
                first = i
                break
        if first is None:
            raise AnalysisError(f"{cls.name}.solve: no solver run found")
        pre = body[:first]
        # statements before the first run that can leave the function (early exits) are fine: nothing is run after them
        resets = {dotted(t) for st in pre if isinstance(st, ast.Assign) and isinstance(st.value, ast.Constant) and st.value.value in (None, False)
                  for t in st.targets}
        has_cache = any(stores_to_self_attr(m.node, "_solution") for c_ in prog.mro(cls) for m in c_.methods.values()) or \
            any(stores_to_self_attr(m.node, "_solution") for sub in prog.all_classes() if cls in prog.mro(sub) for m in sub.methods.values())
        n += 1
        key = f"{cls.name}.solve:re-entrancy"
        missing = []
        if has_cache and "self._solution" not in resets:
            missing.append("self._solution = None")
        if not own_run and "self._is_solved" not in resets:
            missing.append("self._is_solved = False")
        if own_run and "self.edge_vars_sol" not in resets and any(stores_to_self_attr(m.node, "edge_vars_sol") for m in cls.methods.values()):
            if not any(isinstance(st, ast.Assign) and any(dotted(t) == "self.edge_vars_sol" for t in st.targets) for st in pre):
                missing.append("self.edge_vars_sol = {}")
        if not missing:
            rep.ok("C13.R6", key, f"before the first solver run: {sorted(r for r in resets if r)}", f.loc(body[first]))
        else:
            rep.violation("C13.R6", key, f"{cls.name}.solve() reaches its first solver run without {', '.join(missing)}: after a successful solve() a later run of the same "
                          "object that ends without a solution (time limit) still hands out the earlier solution"
                          + ("" if own_run else " and still reports solved"), f.loc(body[first]))
    if n < 9:
        raise AnalysisError(f"re-entrancy rule: only {n} solve() methods found")
    # is_solved() before / after an unsuccessful solve() answers False (or the documented 'not yet solved' exception): the flag exists from construction
    for cls in prog.all_classes():
        if "solve" not in cls.methods or prog.lookup_method(cls, "is_solved") is None:
            continue
        init = cls.methods.get("__init__")
        if init is None:
            continue
        key = f"{cls.name}.__init__:flag-initialised"
        own = bool(stores_to_self_attr(init.node, "_is_solved"))
        via_super = False
        for c in calls_in(init.node):
            if isinstance(c.func, ast.Attribute) and c.func.attr == "__init__" and isinstance(c.func.value, ast.Call) and dotted(c.func.value.func) == "super":
                for base in prog.mro(cls)[1:]:
                    bi = base.methods.get("__init__")
                    if bi is not None and stores_to_self_attr(bi.node, "_is_solved"):
                        via_super = True
        if own or via_super:
            rep.ok("C13.R6", key, "the solved flag is initialised by the constructor" + (" (base class)" if not own else ""), init.loc())
        else:
            rep.violation("C13.R6", key, f"{cls.name}.__init__ neither sets `_is_solved` nor calls a base constructor that does: is_solved() raises AttributeError "
                          "before solve() and after a search that found no solved model, instead of answering False", init.loc())


# ----------------------------------------------------------------------------------------------- R1
def r1(prog: Program, rep):
    rep.rule("C13.R1", "every writer of the solved flag is control-dependent on a proof condition", floor=14)
    for f in prog.all_functions():
        if f.cls is None:
            continue
        has_writer = any(True for s in stores_to_self_attr(f.node, "_is_solved")) or any(
            (dotted(c.func) or "").endswith("set_solved") for c in calls_in(f.node))
        if not has_writer:
            continue
        flow = SolveFlow(prog, f)
        flow.run(f.node)
        n = 0
        for kind, node, state, what in flow.events:
            if kind not in ("writer", "writer-expr"):
                continue
            n += 1
            key = f"{f.qualname}:{what}#{n}"
            st = state
            if kind == "writer-expr":
                st = flow._refine(node.value, True, state)
            table = NON_SOLVER_WRITERS.get(f.qualname)
            proofs = proof_keys(flow, st)
            loc = f.loc(node)
            if proofs:
                rep.ok("C13.R1", key, f"proof: status class of {proofs} is {{optimal}} on every path", loc,
                       sample={"writer": what, "function": f.qualname, "proof_keys": proofs, "state": describe(st, set(proofs))})
                continue
            if table:
                kind_t, reason = table
                if kind_t == "setter":
                    rep.ok("C13.R1", key, reason, loc)
                    continue
                if kind_t in ("external", "external-or-status"):
                    if must(st, "N:self.external_solution_paths", {NOTNONE}):
                        rep.ok("C13.R1", key, reason, loc,
                               sample={"writer": what, "function": f.qualname, "proof": "self.external_solution_paths is not None"})
                        continue
                if kind_t == "greedy":
                    if greedy_guard_holds(st):
                        rep.ok("C13.R1", key, reason, loc,
                               sample={"writer": what, "function": f.qualname, "proof": "len(paths) <= self.k on every path"})
                        continue
            rep.violation("C13.R1", f"{f.qualname}:{what}",
                          f"solved flag raised without a proof condition on some path (state: {describe(st)[:300]})", loc)


def r1b(prog: Program, rep):
    """A solve() that runs its own solver leaves the flag *lowered* on every exit that lacks a proof: the flag must never
    survive from an earlier, successful solve() of the same object."""
    rep.rule("C13.R1b", "solve() lowers the solved flag on every exit without a proof (no stale True from an earlier solve)", floor=8)
    for f in prog.all_functions():
        if f.cls is None or f.name != "solve":
            continue
        if not any((dotted(c.func) or "") == "self.solver.optimize" for c in calls_in(f.node)):
            continue
        flow = SolveFlow(prog, f)
        flow.run(f.node)
        n = 0
        for kind, node, state, what in flow.events:
            if kind not in ("return", "fallthrough") or state is None:
                continue
            n += 1
            bad = None
            for w in state:
                v = w.get("self._is_solved")
                proven = any(w.get(k) is not None and w.get(k) <= {OPT} for k in flow.solve_keys) or \
                    (w.get("N:self.external_solution_paths") is not None and w.get("N:self.external_solution_paths") <= {NOTNONE})
                if v is not None and v <= {"True"} and proven:
                    continue
                if v is not None and v <= {"False"}:
                    continue
                bad = (v, proven)
            key = f"{f.qualname}:exit:{what[:30]}"
            if bad is None:
                rep.ok("C13.R1b", key, "flag is True only with a proof and explicitly False otherwise", f.loc(node) if hasattr(node, "lineno") else f.loc())
            else:
                rep.violation("C13.R1b", f"{f.qualname}:flag-not-lowered", f"an exit of {f.qualname} (`{what[:30]}`) is reachable without a proof of optimality and without "
                              f"`self._is_solved = False` on that path (flag value there: {sorted(bad[0]) if bad[0] else 'whatever an earlier solve() left'}): after a "
                              "successful solve() a later inconclusive run on the same object still reports solved", f.loc(node) if hasattr(node, "lineno") else f.loc())
        if n == 0:
            raise AnalysisError(f"{f.qualname}: no exit found")


def greedy_guard_holds(state) -> bool:
    return (passed(state, {"len(paths) <= self.k", "self.k >= len(paths)"}, True)
            or passed(state, {"len(paths) > self.k", "self.k < len(paths)"}, False))


# ----------------------------------------------------------------------------------------------- R2
def loop_with_solver_run(flow_cls, prog, f) -> Optional[ast.For]:
    for loop in find_for_loops(f.node):
        for c in calls_in(loop):
            if isinstance(c.func, ast.Attribute) and c.func.attr in ("solve", "optimize"):
                return loop
    return None


def k_loop_protocol(prog: Program, rep, RID: str, cname: str, mname: str, starts):
    if True:
        f = prog.own_method(cname, mname)
        loop = loop_with_solver_run(None, prog, f)
        if loop is None:
            raise AnalysisError(f"{cname}.{mname}: no k-loop containing a solver run found")
        flow = SolveFlow(prog, f)
        flow.run(f.node)
        base = f"{cname}.{mname}"
        # keys solved inside the loop
        loop_keys = set()
        for c in calls_in(loop):
            k = flow.solve_call_key(c)
            if k is not None:
                loop_keys.add(k)
        # P1 start and step
        it = loop.iter
        defs = local_single_defs(f.node)
        if not (isinstance(it, ast.Call) and dotted(it.func) == "range" and len(it.args) in (2, 3) and not it.keywords):
            raise AnalysisError(f"{base}: k-loop iterator is not range(lo, hi[, step]): {norm(it)}")
        start_e = substitute_locals(it.args[0], defs)
        start = norm(start_e)
        # max(c, lower bound) with a constant c <= 1 is the lower bound for every admissible k (k >= 1 is required by the k-models)
        if isinstance(start_e, ast.Call) and dotted(start_e.func) == "max" and len(start_e.args) == 2 and not start_e.keywords:
            consts = [a for a in start_e.args if isinstance(a, ast.Constant) and isinstance(a.value, int) and a.value <= 1]
            others = [a for a in start_e.args if a not in consts]
            if len(consts) == 1 and len(others) == 1 and norm(others[0]) in starts:
                start = norm(others[0])
        if start in starts or start == "1":
            rep.ok(RID, f"{base}:P1-start", f"search starts at {start}", f.loc(loop))
        else:
            rep.violation(RID, f"{base}:P1-start", f"k-loop starts at `{start}`, not at the lower bound "
                          f"({' / '.join(sorted(starts))}): a smaller feasible k is skipped", f.loc(loop))
        if len(it.args) == 3 and norm(it.args[2]) != "1":
            rep.violation(RID, f"{base}:P1-step", f"k-loop step is {norm(it.args[2])}, must ascend by one", f.loc(loop))
        else:
            rep.ok(RID, f"{base}:P1-step", "ascends by one", f.loc(loop))
        # P2 back edge / returns
        for kind, node, state, what in flow.events:
            if kind == "back-edge" and node is loop:
                good = [k for k in loop_keys if must(state, k, {INF})]
                if good:
                    rep.ok(RID, f"{base}:P2-back-edge", f"next k only after status class {{infeasible}} of {good}",
                           f.loc(loop), sample={"loop": norm(loop.iter), "state_at_back_edge": describe(state, loop_keys)})
                else:
                    rep.violation(RID, f"{base}:P2-back-edge",
                                  f"the search moves on to the next k with status classes {describe(state, loop_keys)}: "
                                  f"an inconclusive run (time limit, unknown status) is skipped like an infeasible one", f.loc(loop))
            if kind == "return":
                val = node.value
                tok = flow.const_token(val) if val is not None else "None"
                if tok in ("False", "None"):
                    rep.ok(RID, f"{base}:P2-return-false@{_ctx(node, loop)}", "not-solved exit", f.loc(node), nontrivial=False)
                    continue
                st = state if tok == "True" else flow._refine(val, True, state)
                if proof_keys(flow, st):
                    rep.ok(RID, f"{base}:P2-return-true", f"`return {what}` only with {proof_keys(flow, st)} proven optimal", f.loc(node))
                else:
                    rep.violation(RID, f"{base}:P2-return-true", f"`return {what}` reachable without a proven-optimal model "
                                  f"(state {describe(st, loop_keys)[:200]})", f.loc(node))
            if kind == "lowerbound-store" and any(x is node for x in ast.walk(loop)):
                # the cached lower bound may be raised past k only when k was *proven* infeasible: it outlives this call
                good = [k for k in loop_keys if must(state, k, {INF})]
                if good:
                    rep.ok(RID, f"{base}:P5-lowerbound-cache", f"the cached lower bound is raised only after status class {{infeasible}} of {good}", f.loc(node))
                else:
                    rep.violation(RID, f"{base}:P5-lowerbound-cache",
                                  f"`{norm(node)}` inside the search raises the cached lower bound with status classes {describe(state, loop_keys)}: after an "
                                  "inconclusive run (time limit, unknown status) a later solve() starts above the true minimum and reports a non-minimum result as solved",
                                  f.loc(node))
            if kind == "fallthrough":
                rep.ok(RID, f"{base}:P4-fallthrough", "falls off the end (returns None = not solved)", f.loc(), nontrivial=False)
            if kind == "solution-store":
                # P3: published solution is read from the proven model
                val = node.value
                tokn = flow.const_token(val)
                if tokn == "None":
                    continue
                src_keys = set()
                for c in calls_in(val):
                    if isinstance(c.func, ast.Attribute) and c.func.attr in ("get_solution", "get_values"):
                        rk = dotted(c.func.value)
                        if rk:
                            src_keys.add(rk[:-len(".solver")] if rk.endswith(".solver") else rk)
                for nm in ast.walk(val):
                    if isinstance(nm, ast.Name) and nm.id in defs:
                        for c in calls_in(defs[nm.id]):
                            if isinstance(c.func, ast.Attribute) and c.func.attr in ("get_solution", "get_values"):
                                rk = dotted(c.func.value)
                                if rk:
                                    src_keys.add(rk[:-len(".solver")] if rk.endswith(".solver") else rk)
                proven = set(proof_keys(flow, state))
                if src_keys and src_keys <= proven:
                    rep.ok(RID, f"{base}:P3-publish", f"published solution read from proven model {sorted(src_keys)}", f.loc(node))
                else:
                    rep.violation(RID, f"{base}:P3-publish", f"`self._solution = {what[:80]}` is not read from a model proven "
                                  f"optimal at this point (sources {sorted(src_keys)}, proven {sorted(proven)})", f.loc(node))


def r2(prog: Program, rep):
    rep.rule("C13.R2", "search protocol of the minimum searches over k and of NumPathsOptimization", floor=20)
    for cname, mname, starts in K_LOOPS:
        k_loop_protocol(prog, rep, "C13.R2", cname, mname, starts)
    # NumPathsOptimization
    f = prog.own_method("NumPathsOptimization", "solve")
    flow = SolveFlow(prog, f)
    flow.run(f.node)
    base = "NumPathsOptimization.solve"
    seen = 0
    for kind, node, state, what in flow.events:
        if kind == "writer" or kind == "solution-store":
            seen += 1
            if kind == "solution-store" and flow.const_token(node.value) == "None":
                continue
            if must(state, "model", {OPT}):
                rep.ok("C13.R2", f"{base}:{kind}", "only with `model` proven optimal for its k (correlated with solve_status == 'solved')",
                       f.loc(node), sample={"event": what, "state": describe(state, {"model", "solve_status"})})
            else:
                rep.violation("C13.R2", f"{base}:{kind}", f"`{what[:60]}` reachable with model status classes "
                              f"{describe(state, {'model', 'solve_status'})[:200]}", f.loc(node))
        if kind == "return":
            tok = flow.const_token(node.value) if node.value is not None else "None"
            if tok == "True":
                if must(state, "model", {OPT}):
                    rep.ok("C13.R2", f"{base}:return-true", "return True only with proven model", f.loc(node))
                else:
                    rep.violation("C13.R2", f"{base}:return-true", "return True without proven model", f.loc(node))
    if seen < 2:
        raise AnalysisError("NumPathsOptimization.solve: publish sites not found")


def _ctx(node, loop) -> str:
    for n in ast.walk(loop):
        if n is node:
            return "in-loop"
    return "after-loop"


# ----------------------------------------------------------------------------------------------- R3
DATA_READS = {"get_values", "get_objective_value", "get_solution_paths", "get_solution_walks",
              "get_all_variable_values", "get_variable_values"}
GUARDS = {"check_is_solved", "_check_is_solved"}
GETTERS = ("get_solution", "get_objective_value", "get_corrected_graph")


class GetterFlow(WorldFlow):
    def __init__(self, prog, f, guarded_getters):
        super().__init__(prog, f.module, f.cls)
        self.f = f
        self.events = []
        self.guarded = guarded_getters

    def effects_of_expr(self, expr, state):
        if state is None:
            return None
        # evaluate calls in source order: guard calls establish the fact, data reads are observed
        calls = [n for n in ast.walk(expr) if isinstance(n, ast.Call)]
        calls.sort(key=lambda c: (getattr(c, "end_lineno", 0), getattr(c, "end_col_offset", 0)))
        for c in calls:
            d = dotted(c.func) or ""
            name = d.split(".")[-1]
            if d.startswith("self.") and d.count(".") == 1 and (name in GUARDS or name in self.guarded):
                state = self._map(state, lambda w: w.set("#checked", ["T"]))
            elif name in DATA_READS and (d.startswith("self.solver.") or (d.startswith("self.") and d.count(".") == 1)):
                self.record(self.events, ("read", c, state, d))
        return super().effects_of_expr(expr, state)

    def on_return(self, stmt, state):
        self.record(self.events, ("return", stmt, state, norm(stmt.value) if stmt.value is not None else "None"))


def guarded_state(state) -> bool:
    if state is None:
        return True
    for w in state:
        if w.get("#checked") == frozenset(["T"]):
            continue
        v = w.get("N:self._solution")
        if v is not None and v <= {NOTNONE}:
            continue
        return False
    return True


def r3(prog: Program, rep):
    rep.rule("C13.R3", "getters raise unless solved: every path to solver data passes check_is_solved() or a cache test", floor=25)
    rep.rule("C13.R3.I1", "a non-None store to the cached solution is itself guarded (or proven in solve())", floor=15)
    rep.rule("C13.R3.I2", "no cached solution is left behind when the solved flag is lowered or the solver replaced", floor=3)
    for cls in prog.all_classes():
        own = [m for m in GETTERS if m in cls.methods]
        if not own or prog.lookup_method(cls, "is_solved") is None:
            continue   # not a model class (e.g. SolverWrapper.get_objective_value is the raw backend accessor)
        # abstract declarations (body is docstring + pass) are skipped
        for m in own:
            f = cls.methods[m]
            body = [s for s in f.node.body if not (isinstance(s, ast.Expr) and isinstance(s.value, ast.Constant))]
            if all(isinstance(s, ast.Pass) for s in body):
                continue
            guarded_getters = {g for g in GETTERS if prog.lookup_method(cls, g) is not None and g != m}
            flow = GetterFlow(prog, f, guarded_getters)
            flow.run(f.node)
            n_ev = 0
            for kind, node, state, what in flow.events:
                if kind == "return":
                    if node.value is None or (isinstance(node.value, ast.Constant) and node.value.value is None):
                        continue
                n_ev += 1
                key = f"{cls.name}.{m}:{kind}:{what[:50]}"
                if guarded_state(state):
                    rep.ok("C13.R3", key, "guarded on every path", f.loc(node),
                           sample={"getter": f"{cls.name}.{m}", "site": what[:60], "fact": "check_is_solved() called or cached solution present"})
                else:
                    rep.violation("C13.R3", key, f"`{what[:60]}` reachable in {cls.name}.{m} without check_is_solved() "
                                  f"and without a cached-solution test", f.loc(node))
            if n_ev == 0:
                rep.ok("C13.R3", f"{cls.name}.{m}:no-data", "no data path", f.loc(), nontrivial=False)
    # I1 / I2 over all methods of classes that have a _solution cache
    for cls in prog.all_classes():
        for f in cls.methods.values():
            stores = [s for s in stores_to_self_attr(f.node, "_solution")
                      if not (isinstance(s, ast.Assign) and isinstance(s.value, ast.Constant) and s.value.value is None)]
            lowers = [s for s in stores_to_self_attr(f.node, "_is_solved")
                      if isinstance(s, ast.Assign) and isinstance(s.value, ast.Constant) and s.value.value in (False, None)]
            if not stores and not lowers:
                continue
            if f.name == "__init__" and not stores:
                continue
            flow = SolveFlow(prog, f)
            gflow = GetterFlow(prog, f, {g for g in GETTERS if prog.lookup_method(cls, g) is not None and g != f.name})
            gflow.run(f.node)
            flow.run(f.node)
            # I1
            gstate_at = {}

            class _G(GetterFlow):
                def on_assign(self_inner, stmt, target, value, state):
                    if target == "self._solution":
                        gstate_at[id(stmt)] = state if self_inner.quiet == 0 else gstate_at.get(id(stmt))
            g2 = _G(prog, f, gflow.guarded)
            g2.run(f.node)
            for kind, node, state, what in flow.events:
                if kind != "solution-store" or flow.const_token(node.value) == "None":
                    continue
                key = f"{f.qualname}:_solution-store"
                ok = bool(proof_keys(flow, state)) or guarded_state(gstate_at.get(id(node)))
                why = "proven model / guard"
                if not ok and f.qualname in NON_SOLVER_WRITERS and NON_SOLVER_WRITERS[f.qualname][0] == "greedy":
                    ok = greedy_guard_holds(state)
                    why = "greedy fits in k"
                if ok:
                    rep.ok("C13.R3.I1", key, why, f.loc(node))
                else:
                    rep.violation("C13.R3.I1", key, "a solution is cached without the model being proven solved at that point", f.loc(node))
            # I2
            stale_exit = None
            for kind, node, state, what in flow.events:
                if kind in ("return", "fallthrough") and state is not None:
                    if any(w.get("#stale") == frozenset(["T"]) for w in state):
                        stale_exit = (node, what)
                        break
            key = f"{f.qualname}:stale-solution"
            if stale_exit is not None:
                rep.violation("C13.R3.I2", key, "the solved flag is lowered (or the solver re-created) after a call that caches "
                              "`_solution`, and some exit is reached without resetting the cache: get_solution() then returns the "
                              "stale data even though is_solved() is False", f.loc(stale_exit[0]) if hasattr(stale_exit[0], "lineno") else f.loc())
            else:
                rep.ok("C13.R3.I2", key, "no stale cache on any exit", f.loc())


# ----------------------------------------------------------------------------------------------- R4
def r4(prog: Program, rep):
    rep.rule("C13.R4", "custom timeout wins over the backend status and is reset before each run", floor=3)
    f = prog.own_method("SolverWrapper", "get_model_status")

    class F(WorldFlow):
        def __init__(s):
            super().__init__(prog, f.module, f.cls)
            s.rets = []

        def on_return(s, stmt, state):
            s.record(s.rets, (stmt, state))
    fl = F()
    fl.run(f.node)
    n_backend = 0
    for stmt, state in fl.rets:
        tok = fl.const_token(stmt.value) if stmt.value is not None else "None"
        if tok == "'kTimeLimit'":
            continue
        n_backend += 1
        key = f"SolverWrapper.get_model_status:return:{norm(stmt.value)[:40]}"
        if must(state, "self.did_timeout", {FALSY, "False"}):
            rep.ok("C13.R4", key, "backend status only returned when did_timeout is false", f.loc(stmt))
        else:
            rep.violation("C13.R4", key, "a backend status is returned on a path where the custom timeout may have fired", f.loc(stmt))
    if n_backend == 0:
        raise AnalysisError("get_model_status: no backend-status return found")
    # optimize resets the flag before running
    g = prog.own_method("SolverWrapper", "optimize")

    class G(WorldFlow):
        def __init__(s):
            super().__init__(prog, g.module, g.cls)
            s.runs = []

        def on_call(s, call, state):
            d = dotted(call.func) or ""
            if d in ("self.solver.optimize", "self._run_with_timeout"):
                s.record(s.runs, (call, state))
    gl = G()
    gl.run(g.node)
    if not gl.runs:
        raise AnalysisError("SolverWrapper.optimize: no solver run found")
    for call, state in gl.runs:
        key = f"SolverWrapper.optimize:{dotted(call.func)}"
        if must(state, "self.did_timeout", {"False"}):
            rep.ok("C13.R4", key, "did_timeout reset before the run", g.loc(call))
        else:
            rep.violation("C13.R4", key, "solver run reachable without resetting did_timeout (a timeout of an earlier run "
                          "would make this run report kTimeLimit, or hide nothing - but a stale True is never cleared)", g.loc(call))
    h = prog.own_method("SolverWrapper", "_timeout_handler")
    if any(isinstance(s, ast.Assign) and dotted(s.targets[0]) == "self.did_timeout" and isinstance(s.value, ast.Constant) and s.value.value is True
           for s in walk_no_nested(h.node)):
        rep.ok("C13.R4", "SolverWrapper._timeout_handler", "handler sets did_timeout", h.loc())
    else:
        rep.violation("C13.R4", "SolverWrapper._timeout_handler", "the timeout handler no longer records that it fired", h.loc())


# ----------------------------------------------------------------------------------------------- R5
EXIT_CALLS = {"exit", "quit", "sys.exit", "os._exit", "os.abort", "os.kill"}
TABLED_SWALLOW = {("SolverWrapper._run_with_timeout", "Exception"):
                  "swallows around optimize(); the status is read afterwards, so a failure surfaces as non-optimal"}
RUN_NAMES = {"optimize", "solve", "_run_with_timeout", "get_model_status", "check_is_solved", "func"}


def handler_reraises(h: ast.ExceptHandler) -> bool:
    return any(isinstance(n, ast.Raise) for n in walk_no_nested(h))


def no_process_exit(prog: Program, rep, RID: str):
    n_exit = 0
    for f in prog.all_functions():
        for c in calls_in(f.node, nested=True):
            d = dotted(c.func)
            if d in EXIT_CALLS:
                n_exit += 1
                rep.violation(RID, f"{f.qualname}:{d}()", f"process exit `{d}(...)` inside library code: a search that "
                              "cannot conclude terminates the interpreter instead of reporting not-solved", f.loc(c))
        for n in ast.walk(f.node):
            if isinstance(n, ast.Raise) and n.exc is not None and (dotted(n.exc) == "SystemExit" or
                    (isinstance(n.exc, ast.Call) and dotted(n.exc.func) == "SystemExit")):
                n_exit += 1
                rep.violation(RID, f"{f.qualname}:raise SystemExit", "process exit inside library code", f.loc(n))
    for m in prog.modules.values():
        if m.name.endswith("__main__"):
            continue
        for st in m.tree.body:
            if isinstance(st, (ast.FunctionDef, ast.AsyncFunctionDef, ast.ClassDef)):
                continue
            for c in calls_in(st):
                if dotted(c.func) in EXIT_CALLS:
                    n_exit += 1
                    rep.violation(RID, f"{m.name}:<module>:{dotted(c.func)}()", "process exit at import time", f"{m.relpath}:{c.lineno}")
    if n_exit == 0:
        rep.ok(RID, "no-process-exit", f"no exit()/quit()/sys.exit()/os._exit()/SystemExit in {sum(1 for _ in prog.all_functions())} functions", "")


def r5(prog: Program, rep):
    rep.rule("C13.R5", "no process exit; no handler swallows around a solver run (one tabled exception)", floor=2)
    no_process_exit(prog, rep, "C13.R5")
    n_h = 0
    for f in prog.all_functions():
        for n in walk_no_nested(f.node):
            if not isinstance(n, ast.Try):
                continue
            wraps_run = any(isinstance(c.func, ast.Attribute) and c.func.attr in RUN_NAMES or
                            isinstance(c.func, ast.Name) and c.func.id in RUN_NAMES
                            for s in n.body for c in calls_in(s))
            for h in n.handlers:
                n_h += 1
                if not wraps_run:
                    continue
                tname = norm(h.type) if h.type is not None else "<bare>"
                key = f"{f.qualname}:except {tname}"
                if handler_reraises(h):
                    rep.ok("C13.R5", key, "handler around a solver run re-raises", f.loc(h))
                elif (f.qualname, tname) in TABLED_SWALLOW:
                    rep.ok("C13.R5", key, "tabled: " + TABLED_SWALLOW[(f.qualname, tname)], f.loc(h))
                else:
                    rep.violation("C13.R5", key, "exception swallowed around a solver run / solved check: a failed run could be "
                                  "taken for a verdict", f.loc(h))
    rep.extra["except_handlers_enumerated"] = n_h
