"""C05 - optimisation options never change solvability or the optimal objective.

Equality of optima across the option cross-product rests on C06 and on the solver: not decidable statically.  Decided: the
bookkeeping every option route depends on.
"""
from __future__ import annotations

import ast

from sa.pm import Program, AnalysisError, norm
from sa.mir import Normalizer, LinNF
from rules.formulation import conformance, method_effects, class_var_names
from rules import semantic
from rules.c03 import given_weights_guard
from rules.c13 import SolveFlow, greedy_guard_holds

EXPLANATION = (
    "Decides the bookkeeping all option routes depend on: (R1) every store into edges_set_to_one/zero is paired, in the same loop and "
    "under the same guards, with the constraint or queued fix it advertises, and all eight consumer loops map zero-flag -> product = 0, "
    "one-flag -> product = factor, else the exact helper; (R2) the call that may populate the flags dominates every encoder that reads "
    "them; (R3) the bound route and the constraint route of safe-sequence fixing impose the same relation on the same variable "
    "(x >= m <-> queue_set_var_lower_bound(x, m); x == 1 <-> queue_fix_variable(x, 1)); (R4) the safety rows conform to the frozen "
    "formulation table (layer bound min(len(to_fix), k), multiplicity guard, protection-set skip, builders of the protection set), and so do "
    "the subpath/subset-constraint rows through which the safety-as-constraints options act; "
    "(R5) greedy / guessed-weights results are adopted only under the tests that tie them to the k under test; (R6) every option key "
    "written is read under the same spelling; (R7) constraint edges enter the trusted set only under a full-coverage test; (R8) the flow-safe paths imposed by the flow-safety option are computed with the strict excess-flow threshold.  "
    "(R9) the greedy option's coverage test counts path edges (max_occurrence body) and queued bound fixes reach the solver on every path of optimize().  "
    " (R10) option interplay: the greedy shortcut is not taken when solution_weights_superset is given, flow-safe paths switch the other safety options off instead of raising, a trusted set built from a percentile contains no zero-flow edge and its population excludes ignored elements, flow-safe paths only when nothing is ignored (C10.R8). "
    "The greedy acceptance test uses the thresholds and units of rows 7a (C10.R5 rejection / units).  NOT decided: that fixing safe sequences / pruning edges preserves the optimum (C06), equality of optima."
    ' (R10, round 4) subpath constraints are used as safe sequences only under full coverage in both metrics (the guard is evaluated on the six combinations of full / partial coverage); cache ownership and purity of the reachability substrate (C17.R1 / R2).'
    ' (R10, hunt 4) under full length coverage a constraint with a zero-length edge is not a safe sequence and its zero-length edges are not trusted; noise weights of the subgraph-scanning windows are filtered.'
)
DECIDED = ["flag <-> constraint pairing and consumer mapping", "flag producers run before consumers", "bound route == constraint route",
           "safety rows conform to the formulation table", "adoption guards of greedy / guessed weights", "option-key agreement",
           "trusted-edge providers"]
NOT_DECIDED = ["equal solved status and optimal objective across the option cross-product", "soundness of safety fixing itself"]


def bound_vs_constraint_route(prog: Program, rep, RID: str):
    cls = prog.cls("AbstractWalkModelDiGraph")
    f = prog.own_method("AbstractWalkModelDiGraph", "_apply_safety_optimizations")
    effs = method_effects(prog, cls, f)
    nz = Normalizer(class_var_names(prog, cls, []))

    def split(e):
        via = [g for g in e["guards"] if "fix_via_bounds" in g]
        rest = sorted(g for g in e["guards"] if "fix_via_bounds" not in g)
        pol = None
        if via:
            pol = not via[0].startswith("not")
        return pol, (tuple(e["quant"]), tuple(rest))
    groups = {}
    for e in effs:
        if e["kind"] not in ("add_constraint", "queue_fix_variable", "queue_set_var_lower_bound"):
            continue
        pol, k = split(e)
        if pol is None:
            continue
        groups.setdefault(k, {True: [], False: []})[pol].append(e)
    if not groups:
        raise AnalysisError("no effects under a fix_via_bounds test found")
    for k, g in groups.items():
        for b in g[True]:
            key = f"AbstractWalkModelDiGraph._apply_safety_optimizations:{b['kind']}:{b.get('var')}"
            loc = f"{f.module.relpath}:{b['_line']}"
            if b["kind"] == "add_constraint":
                rep.violation(RID, key, "a constraint is added on the bounds route", loc)
                continue
            rel = ">=" if b["kind"] == "queue_set_var_lower_bound" else "=="
            exp = nz.nf(ast.parse(f"{b['var']} {rel} ({_py(b['value'])})", mode="eval").body)
            match = [c for c in g[False] if c["kind"] == "add_constraint" and c["_nf"].equivalent(exp)]
            if match:
                rep.ok(RID, key, f"bounds route `{b['kind']}({b['var']}, {b['value']})` == constraint route `{b['var']} {rel} {b['value']}`", loc,
                       sample={"bound": f"{b['kind']}({b['var']}, {b['value']})", "constraint": match[0]["nf"], "guards": list(k[1])})
            else:
                other = [c.get("nf") for c in g[False]]
                rep.violation(RID, key, f"with fix_via_bounds the code does `{b['kind']}({b['var']}, {b['value']})` (i.e. {b['var']} {rel} {b['value']}), "
                              f"without it the sibling branch imposes {other}: the two option routes give different models", loc)
        for c in g[False]:
            if c["kind"] != "add_constraint":
                rep.violation(RID, f"AbstractWalkModelDiGraph._apply_safety_optimizations:{c['kind']}:constraint-route",
                              "a queued bound update on the constraint route", f"{f.module.relpath}:{c['_line']}")
        if len(g[True]) != len(g[False]):
            rep.violation(RID, f"AbstractWalkModelDiGraph._apply_safety_optimizations:route-arity:{k[1][:2]}",
                          f"{len(g[True])} effect(s) on the bounds route vs {len(g[False])} on the constraint route under the same guards", f.loc())


def _py(poly_text: str) -> str:
    return poly_text


def adoption_guards(prog: Program, rep, RID: str):
    given_weights_guard(prog, rep, RID, "MinFlowDecomp", "paths")
    given_weights_guard(prog, rep, RID, "MinFlowDecompCycles", "walks")
    f = prog.own_method("kFlowDecomp", "_get_solution_with_greedy")
    fl = SolveFlow(prog, f)
    fl.run(f.node)
    n = 0
    for kind, node, state, what in fl.events:
        if kind == "writer":
            n += 1
            if greedy_guard_holds(state):
                rep.ok(RID, "kFlowDecomp._get_solution_with_greedy:accept", "greedy result adopted only if len(paths) <= k", f.loc(node))
            else:
                rep.violation(RID, "kFlowDecomp._get_solution_with_greedy:accept", "greedy decomposition adopted without the test that it fits in k paths", f.loc(node))
    if n == 0:
        raise AnalysisError("greedy acceptance site not found")


def check(prog: Program, rep):
    rep.rule("C05.R1", "flag <-> constraint pairing; consumers map each flag to the right simplification", floor=10)
    semantic.flag_pairing(prog, rep, "C05.R1")
    semantic.flag_consumers(prog, rep, "C05.R1", ["kFlowDecomp", "kFlowDecompCycles", "kLeastAbsErrors", "kLeastAbsErrorsCycles",
                                                   "kMinPathError", "kMinPathErrorCycles"])
    rep.rule("C05.R2", "flag producers dominate flag consumers in every constructor", floor=8)
    semantic.encoder_order(prog, rep, "C05.R2", semantic.K_MODELS)
    rep.rule("C05.R3", "bound route == constraint route", floor=2)
    bound_vs_constraint_route(prog, rep, "C05.R3")
    rep.rule("C05.R4", "safety rows conform to the frozen formulation table", floor=10)
    conformance(prog, rep, "C05.R4", "C05")
    rep.rule("C05.R5", "adoption guards (greedy fits in k; guessed-weights model size equals k)", floor=3)
    adoption_guards(prog, rep, "C05.R5")
    rep.rule("C05.R6", "option-key agreement", floor=10)
    semantic.option_keys(prog, rep, "C05.R6")
    rep.rule("C05.R7", "trusted-edge providers", floor=8)
    semantic.trusted_edge_providers(prog, rep, "C05.R7")
    rep.rule("C05.R8", "the flow-safe paths that the flow-safety option imposes are computed with the strict excess-flow threshold (C06.R4)", floor=1)
    from rules.c06 import flow_safety_threshold
    from rules.common import RuleProxy
    flow_safety_threshold(prog, RuleProxy(rep, "C05.R8"), "C06.R4")
    rep.rule("C05.R9", "the greedy shortcut is accepted only after a coverage test that counts path edges (C10.R5); queued bound fixes reach the solver on every path (C12.R5)", floor=3)
    from rules.c10 import max_occurrence_rule
    from rules.c12 import apply_before_run
    max_occurrence_rule(prog, RuleProxy(rep, "C05.R9"), "C10.R5")
    # the thresholds of that test are those of rows 7a (a greedy answer accepted below them makes optimize_with_greedy change the answer)
    from rules.c10 import greedy_rejection, greedy_units
    greedy_rejection(prog, RuleProxy(rep, "C05.R9"), "C10.R5")
    greedy_units(prog, RuleProxy(rep, "C05.R9"), "C10.R5")
    apply_before_run(prog, RuleProxy(rep, "C05.R9"), "C12.R5")
    rep.rule("C05.R10", "option interplay: greedy is not taken with given weights, flow-safe paths override (not reject) the other safety options, percentile-trusted "
             "edges carry flow, flow-safe paths only for the whole flow (C10.R8)", floor=6)
    from rules import plumb
    from rules.common import RuleProxy
    plumb.whole_flow_shortcuts_rule(prog, RuleProxy(rep, "C05.R10"), "C10.R8")
    plumb.flow_safe_override_rule(prog, rep, "C05.R10")
    plumb.percentile_rules(prog, RuleProxy(rep, "C05.R10"), "C10.R8")
    # the default safety pruning of the cyclic models reads nodes_reachable / nodes_reaching: their caches answer for the graph (C17.R1, C17.R2)
    from rules import c17 as _c17x
    from sa.alias import AliasModel as _AMx
    from rules.common import RuleProxy as _RPx
    _c17x.cache_ownership(prog, _RPx(rep, "C05.R10"), "C17.R1")
    _c17x.query_purity(prog, _RPx(rep, "C05.R10"), "C17.R2", _AMx(prog))
    from rules.plumb import constraints_as_safe_sequences_rule
    constraints_as_safe_sequences_rule(prog, rep, "C05.R10")
    from rules.plumb import constraint_edges_trusted_rule
    constraint_edges_trusted_rule(prog, rep, "C05.R10")
    from rules.values import generating_set_as_weights as _gsw
    from rules.common import RuleProxy as _RPg
    _gsw(prog, _RPg(rep, "C05.R10"), "C03.R9", "MinFlowDecomp")
    _gsw(prog, _RPg(rep, "C05.R10"), "C04.R10", "MinFlowDecompCycles")
