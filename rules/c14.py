"""C14 - walk reconstruction uses every edge exactly as often as the solver decided.

Correctness of the Hierholzer splice on all Eulerian multigraphs is an algorithm-correctness statement: not decidable here.
Decided: the local conservation clause "no edge dropped, none invented" - a linear-use (typestate) discipline on the three
loops that move residual edges into the walk, and the shape of the splice.
"""
from __future__ import annotations

import ast
from typing import Dict, List, Optional, Tuple

from sa.pm import Program, FuncInfo, dotted, norm, walk_no_nested, calls_in, AnalysisError
from rules.common import local_single_defs, substitute_locals

EXPLANATION = (
    "Decides the local conservation discipline of the Eulerian reconstruction by symbolic linear-use analysis of each loop body: on "
    "every path through one iteration (including the path that leaves through `break`) exactly one residual edge is popped from the "
    "adjacency of the current vertex (TAIL), its head (HEAD) is appended exactly once to the walk under construction, TAIL is pushed "
    "exactly once on the shared stack (so that further closed walks hanging off it are found later) and the current vertex becomes HEAD; "
    "the residual graph receives round(value) copies of each edge under the key of that same edge and layer; the splice inserts the "
    "closed walk minus its duplicated first vertex right after the anchor's first occurrence; an all-zero layer yields []; in node-weighted mode the walk handed out is "
    "obtained from the internal walk by the reader that matches the expansion scheme (one original node per entry node, step 2).  "
    " (R4) the reconstructed walk is not filtered away afterwards: the remove-empty filters of the cyclic models decide emptiness on the internal walk (C01.R5). "
    "NOT decided: that one single s-t walk results for every Eulerian multigraph (Hierholzer's correctness), connectivity assumptions."
    ' (R1, hunt 4) solver values are looked up under the node objects themselves, not under str() of them.'
    ' (R1, benign 4) the residual graph may be filled by an append loop, extend(generator over range(m)) or extend([v] * m).'
)
DECIDED = ["no edge dropped, none invented: linear use of residual edges in the two trail loops",
           "multiplicities rounded and keyed by the same edge and layer", "splice shape", "all-zero layer yields an empty walk"]
NOT_DECIDED = ["the result is one single source-to-sink walk for all Eulerian multigraphs (algorithm correctness)"]

TAIL, HEAD = "TAIL", "HEAD"


class World:
    def __init__(self, env, pops, wapp, sapp):
        self.env = dict(env)
        self.pops = list(pops)
        self.wapp = list(wapp)
        self.sapp = list(sapp)

    def copy(self):
        return World(self.env, self.pops, self.wapp, self.sapp)


def sym(e: ast.AST, w: World) -> str:
    if isinstance(e, ast.Name):
        return w.env.get(e.id, f"?{e.id}")
    return f"?{norm(e)}"


def run_iteration(body: List[ast.stmt], cur_var: str, graph_name: str, walk_names: Tuple[str, ...], stack_name: str):
    """Enumerate the paths through one loop iteration; returns list of (exit kind, World)."""
    exits = []

    def call_effects(expr: ast.AST, w: World):
        for c in [n for n in ast.walk(expr) if isinstance(n, ast.Call)]:
            if not isinstance(c.func, ast.Attribute):
                continue
            recv = c.func.value
            if c.func.attr == "append" and c.args:
                d = dotted(recv)
                if d in walk_names:
                    w.wapp.append(sym(c.args[0], w))
                elif d == stack_name:
                    w.sapp.append(sym(c.args[0], w))

    def block(stmts, w: World):
        for i, st in enumerate(stmts):
            if isinstance(st, ast.Assign) and len(st.targets) == 1 and isinstance(st.targets[0], ast.Name):
                v = st.value
                # x = graph[cur].pop()
                if isinstance(v, ast.Call) and isinstance(v.func, ast.Attribute) and v.func.attr in ("pop", "popleft") and \
                        isinstance(v.func.value, ast.Subscript) and dotted(v.func.value.value) == graph_name:
                    src = sym(v.func.value.slice, w)
                    w.pops.append(src)
                    w.env[st.targets[0].id] = HEAD if src == TAIL and len(w.pops) == 1 else f"POP{len(w.pops)}"
                else:
                    call_effects(v, w)
                    w.env[st.targets[0].id] = sym(v, w) if isinstance(v, ast.Name) else f"?{norm(v)}"
            elif isinstance(st, ast.Expr):
                call_effects(st.value, w)
            elif isinstance(st, ast.If):
                w1, w2 = w.copy(), w.copy()
                r1 = block(st.body, w1)
                r2 = block(st.orelse, w2)
                rest = stmts[i + 1:]
                if r1:
                    block_rest(rest, w1)
                if r2:
                    block_rest(rest, w2)
                return False
            elif isinstance(st, ast.Break):
                exits.append(("break", w))
                return False
            elif isinstance(st, ast.Continue):
                exits.append(("back-edge", w))
                return False
            elif isinstance(st, (ast.Return, ast.Raise)):
                exits.append(("leave", w))
                return False
            elif isinstance(st, (ast.For, ast.While)):
                raise AnalysisError("nested loop inside a trail loop: linear-use analysis not applicable")
        return True

    def block_rest(stmts, w):
        if block(stmts, w):
            exits.append(("back-edge", w))

    w0 = World({cur_var: TAIL}, [], [], [])
    if block(body, w0):
        exits.append(("back-edge", w0))
    return exits


def trail_loop_rule(prog: Program, rep, RID: str, f: FuncInfo, walk_names: Tuple[str, ...]):
    loops = []
    for n in walk_no_nested(f.node):
        if isinstance(n, ast.While) and isinstance(n.test, ast.Subscript) and dotted(n.test.value) in ("graph", "residual_graph") and \
                isinstance(n.test.slice, ast.Name):
            loops.append(n)
    if not loops:
        raise AnalysisError(f"{f.qualname}: no `while graph[<current>]:` trail loop found")
    for lp in loops:
        cur = lp.test.slice.id
        gname = dotted(lp.test.value)
        exits = run_iteration(lp.body, cur, gname, walk_names, "stack")
        for kind, w in exits:
            key = f"{f.qualname}:trail-loop:{kind}"
            probs = []
            if w.pops != [TAIL]:
                probs.append(f"residual edges popped per iteration: {w.pops or 'none'} (must be exactly one, from the current vertex)")
            if w.wapp != [HEAD]:
                probs.append(f"walk receives {w.wapp or 'nothing'} (must receive exactly the popped head once)")
            if w.sapp != [TAIL]:
                probs.append(f"stack receives {w.sapp or 'nothing'} (must receive exactly the tail = vertex being left, once, so that closed walks "
                             "hanging off it are found later)")
            if w.env.get(cur) != HEAD:
                probs.append(f"current vertex becomes {w.env.get(cur)} (must advance to the popped head)")
            if probs:
                rep.violation(RID, key, "linear use of residual edges broken on the path that ends in `" + kind + "`: " + "; ".join(probs), f.loc(lp))
            else:
                rep.ok(RID, key, "one edge popped from TAIL, HEAD appended once to the walk, TAIL pushed once, current := HEAD", f.loc(lp),
                       sample={"function": f.qualname, "exit": kind, "pops": w.pops, "walk_appends": w.wapp, "stack_pushes": w.sapp})


def residual_rule(prog: Program, rep, RID: str):
    f = prog.own_method("AbstractWalkModelDiGraph", "_build_residual_graph_for_layer")
    layer = f.params[1] if len(f.params) > 1 else "layer_i"
    ok = False
    converted_key = False
    why = "pattern not found"
    for outer in [n for n in walk_no_nested(f.node) if isinstance(n, ast.For)]:
        if not (isinstance(outer.target, ast.Tuple) and len(outer.target.elts) == 2 and "edges" in norm(outer.iter)):
            continue
        u, v = [norm(x) for x in outer.target.elts]
        defs: Dict[str, ast.AST] = {}
        for n in ast.walk(outer):
            if isinstance(n, ast.Assign) and len(n.targets) == 1 and isinstance(n.targets[0], ast.Name):
                defs[n.targets[0].id] = n.value
        # fill sites: (list written, element, multiplicity expression, body is exactly the one append)
        sites = []
        for inner in [n for n in ast.walk(outer) if isinstance(n, ast.For) and n is not outer]:
            it = inner.iter
            if not (isinstance(it, ast.Call) and dotted(it.func) == "range" and len(it.args) == 1):
                continue
            apps = [c for c in calls_in(inner) if isinstance(c.func, ast.Attribute) and c.func.attr == "append"]
            one = len(inner.body) == 1 and len(apps) == 1 and len(apps[0].args) == 1
            sites.append((norm(apps[0].func.value) if one else "?", norm(apps[0].args[0]) if one else norm(inner.body[0])[:60], it.args[0], one))
        for c in calls_in(outer):
            # residual_graph[u].extend(v for _ in range(m)) / .extend([v] * m)
            if not (isinstance(c.func, ast.Attribute) and c.func.attr == "extend" and len(c.args) == 1 and not c.keywords):
                continue
            a = c.args[0]
            if isinstance(a, (ast.GeneratorExp, ast.ListComp)) and len(a.generators) == 1 and not a.generators[0].ifs and \
                    isinstance(a.generators[0].iter, ast.Call) and dotted(a.generators[0].iter.func) == "range" and len(a.generators[0].iter.args) == 1 and \
                    not ({x.id for x in ast.walk(a.generators[0].target) if isinstance(x, ast.Name)} & {x.id for x in ast.walk(a.elt) if isinstance(x, ast.Name)}):
                sites.append((norm(c.func.value), norm(a.elt), a.generators[0].iter.args[0], True))
            elif isinstance(a, ast.BinOp) and isinstance(a.op, ast.Mult) and isinstance(a.left, ast.List) and len(a.left.elts) == 1:
                sites.append((norm(c.func.value), norm(a.left.elts[0]), a.right, True))
            elif norm(c.func.value).startswith("residual_graph["):
                raise AnalysisError(f"{f.qualname}: the residual graph is extended with `{norm(a)[:60]}`: form not recognised")
        for tgt_list, elt, m_expr, body_ok in sites:
            m = substitute_locals(m_expr, defs)
            mt = norm(m)
            # the variables are indexed by the node objects: (u, v, layer).  A key of converted nodes - (str(u), str(v), layer) - names another object for
            # every node whose str() differs from it (a str subclass such as `class Node(str, Enum)` passes the isinstance(node, str) validation):
            # no key matches, every edge is skipped and the solved model returns no walk
            want_key = f"{u}, {v}, {layer}"
            str_key = f"str({u}), str({v}), {layer}"
            mt = mt.replace("[(", "[").replace(")]", "]")
            if mt in (f"round(self.edge_vars_sol[{str_key}])", f"int(round(self.edge_vars_sol[{str_key}]))"):
                converted_key = True
            body_ok = body_ok and tgt_list == f"residual_graph[{u}]" and elt == v
            if mt in (f"round(self.edge_vars_sol[{want_key}])", f"int(round(self.edge_vars_sol[{want_key}]))") and body_ok:
                ok = True
                why = f"residual_graph[{u}] receives round(edge_vars_sol[{want_key}]) copies of {v}"
            else:
                why = f"multiplicity `{mt}` / `{tgt_list}` receives `{elt}`"
    key = "AbstractWalkModelDiGraph._build_residual_graph_for_layer:multiplicity"
    if converted_key:
        rep.violation(RID, key, "the solver values are looked up under (str(u), str(v), layer) although the variables are indexed by the node objects (u, v, layer): for nodes "
                      "whose str() differs from the node - `class Node(str, Enum)`, accepted by the isinstance(node, str) validation - no key matches, every edge is skipped "
                      "silently and the solved model returns an empty list of walks", f.loc())
    elif ok:
        rep.ok(RID, key, why, f.loc(), sample={"rule": why})
    else:
        rep.violation(RID, key, f"the residual graph is not filled with round(solver value of that same edge and layer) copies of each edge: {why}", f.loc())


def splice_rule(prog: Program, rep, RID: str):
    f = prog.own_method("AbstractWalkModelDiGraph", "_reconstruct_eulerian_walk")
    defs: Dict[str, ast.AST] = {}
    for n in walk_no_nested(f.node):
        if isinstance(n, ast.Assign) and len(n.targets) == 1 and isinstance(n.targets[0], ast.Name):
            defs.setdefault(n.targets[0].id, n.value)
    hit = None
    for n in walk_no_nested(f.node):
        if isinstance(n, ast.Assign) and len(n.targets) == 1 and isinstance(n.targets[0], ast.Subscript) and \
                dotted(n.targets[0].value) == "walk" and isinstance(n.targets[0].slice, ast.Slice):
            hit = n
    key = "AbstractWalkModelDiGraph._reconstruct_eulerian_walk:splice"
    if hit is None:
        rep.violation(RID, key, "no splice (slice assignment into the walk) found: closed walks are not inserted", f.loc())
        return
    sl = hit.targets[0].slice
    lo, hi = norm(sl.lower) if sl.lower else "", norm(sl.upper) if sl.upper else ""
    rhs = hit.value
    probs = []
    anchor = None
    if lo != hi or not lo.endswith("+ 1"):
        probs.append(f"slice [{lo}:{hi}] is not an insertion right after the anchor")
    else:
        idx_name = lo[:-3].strip()
        idx_def = defs.get(idx_name)
        if not (isinstance(idx_def, ast.Call) and norm(idx_def.func) == "walk.index" and len(idx_def.args) == 1):
            probs.append(f"anchor index `{idx_name}` is not walk.index(<vertex>)")
        else:
            anchor = norm(idx_def.args[0])
    if not (isinstance(rhs, ast.Subscript) and isinstance(rhs.slice, ast.Slice) and rhs.slice.lower is not None and norm(rhs.slice.lower) == "1"
            and rhs.slice.upper is None):
        probs.append(f"inserted value `{norm(rhs)}` is not the closed walk minus its duplicated first vertex ([1:])")
    else:
        cw = defs.get(norm(rhs.value))
        if not (isinstance(cw, ast.Call) and (dotted(cw.func) or "").endswith("_build_closed_walk_from_vertex")):
            probs.append("inserted list is not the result of _build_closed_walk_from_vertex")
        elif anchor is not None and (len(cw.args) < 2 or norm(cw.args[1]) != anchor):
            probs.append(f"closed walk is built from `{norm(cw.args[1]) if len(cw.args) > 1 else '?'}` but spliced at `{anchor}`")
    # guarded by remaining edges at the popped vertex
    if probs:
        rep.violation(RID, key, "; ".join(probs), f.loc(hit))
    else:
        rep.ok(RID, key, f"walk[i+1:i+1] = closed_walk[1:] with i = walk.index({anchor}), closed walk built from {anchor}", f.loc(hit),
               sample={"splice": norm(hit)})
    # drain loop: every stack vertex with remaining edges gets a closed walk
    drains = [n for n in walk_no_nested(f.node) if isinstance(n, ast.While) and norm(n.test) == "stack"]
    key2 = "AbstractWalkModelDiGraph._reconstruct_eulerian_walk:drain-stack"
    if drains and any(isinstance(s, ast.Assign) and isinstance(s.value, ast.Call) and norm(s.value.func) == "stack.pop" for s in drains[0].body):
        rep.ok(RID, key2, "`while stack:` pops every remembered vertex and builds a closed walk when it still has unused edges", f.loc(drains[0]))
    else:
        rep.violation(RID, key2, "no `while stack:` loop that pops the remembered vertices: dangling closed walks are never spliced in", f.loc())


def empty_walk_rule(prog: Program, rep, RID: str):
    f = prog.own_method("AbstractWalkModelDiGraph", "_reconstruct_eulerian_walk")
    ok = False
    for n in walk_no_nested(f.node):
        if isinstance(n, ast.If):
            t = norm(n.test)
            rets = [s for s in n.body if isinstance(s, ast.Return)]
            if rets and isinstance(rets[0].value, ast.List) and not rets[0].value.elts and \
                    (t in ("walk == [self.G.source]", "[self.G.source] == walk", "len(walk) == 1")):
                ok = True
    key = "AbstractWalkModelDiGraph._reconstruct_eulerian_walk:all-zero-layer"
    if ok:
        rep.ok(RID, key, "a walk consisting only of the synthetic source is published as []", f.loc())
    else:
        rep.violation(RID, key, "an all-zero layer (walk == [source]) is not published as the empty walk", f.loc())


def check(prog: Program, rep):
    rep.rule("C14.R1", "linear use of residual edges in the trail loops; multiplicities; splice shape", floor=6)
    trail_loop_rule(prog, rep, "C14.R1", prog.own_method("AbstractWalkModelDiGraph", "_reconstruct_eulerian_walk"), ("walk",))
    trail_loop_rule(prog, rep, "C14.R1", prog.own_method("AbstractWalkModelDiGraph", "_build_closed_walk_from_vertex"), ("closed_walk",))
    residual_rule(prog, rep, "C14.R1")
    splice_rule(prog, rep, "C14.R1")
    rep.rule("C14.R2", "all-zero layer yields an empty walk", floor=1)
    empty_walk_rule(prog, rep, "C14.R2")
    rep.rule("C14.R3", "node-weighted mode: the walk handed out is the condensed internal walk (every second node, entry suffix, own-length strip)", floor=12)
    from rules.common import node_mode_plumbing
    node_mode_plumbing(prog, rep, "C14.R3")
    rep.rule("C14.R4", "the walk handed out is not filtered away: remove-empty filters of the cyclic models decide emptiness on the internal walk (C01.R5)", floor=6)
    from rules import ns as _ns
    from rules.common import RuleProxy
    _ns.arity_rule(prog, RuleProxy(rep, "C14.R4"), "C01.R5", only=("kFlowDecompCycles", "kLeastAbsErrorsCycles", "kMinPathErrorCycles"))
