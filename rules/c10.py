"""C10 - constraints, ignored elements and extra start/end nodes behave as documented."""
from __future__ import annotations

import ast
import re
from typing import List, Set

from sa.pm import Program, FuncInfo, dotted, norm, calls_in, walk_no_nested, AnalysisError, kwarg
from sa.worlds import passed
from rules.formulation import conformance, method_effects
from rules import semantic
from rules.semantic import enclosing_tests, K_MODELS
from rules.search import class_ignore_terms
from rules.c13 import SolveFlow

EXPLANATION = (
    "Decides: (R1) the subpath/subset-constraint families 7a/7b (edge-count and length variants), the min(1,x) indicator rows "
    "z <= x, x <= U_e z with U_e the declared cap of x, and their binary variables conform to the frozen formulation table; (R2) in "
    "every per-edge family of every k-model the only guards that skip an edge are membership in the ignore set, the safety flags and "
    "the documented cover skip, and the ignore set is built as source/sink edges + translated user ignore list; (R3) every class "
    "taking error_scaling unions {e : scale(e) == 0} into the ignore set before the base constructor and the encoders run; (R4) "
    "the synthetic source edge is added iff in_degree == 0 or the node is a declared start, the sink edge iff out_degree == 0 or the "
    "node is a declared end (boolean normal form); (R5) the greedy solution is rejected unless every constraint reaches its coverage; (R6) constraint edges enter the "
    "trusted-for-safety set only under a test implying coverage == 1 (with partial coverage they need not be in a solution), and the caller's "
    "ignore / constraint / start-end lists are never written; (R7) for node-weighted input the constraint / start / end translators are total "
    "(no element of the user's list is dropped on a non-raising path) and follow the expansion scheme. "
    "(R5, extended) the body of graphutils.max_occurrence counts a constraint edge iff it is a consecutive node pair of the path, weighted by its length; the greedy test compares like with like (edge counts against len*coverage, lengths against total length*coverage).  "
    " (R8) declared starts / ends and ignored elements reach every derived computation: every source-sink graph a class builds over its graph gets the additional starts / ends (or the class provably materialises them in the node expansion), NodeExpandedDiGraph gets try_filling_in_missing_flow_attr=True whenever starts / ends are passed, the greedy and flow-safe-paths shortcuts of kFlowDecomp are taken only when nothing is ignored and the flow is conserved, the flow-valued repetition cap of kFlowDecompCycles reads only non-ignored edges, and the internal ignore list only grows after its per-mode definition. "
    " (R8, extended) a class that takes length_attr passes it to the node expansion (node_length_attr), and percentile options are computed over non-ignored elements. "
    "Rows 7a sum their indicators over the very collection whose size is the threshold (duplicates included: counted = measured).  NOT decided: that the optimum is taken over exactly the constrained solutions; 'and nothing else' for ignored elements."
    ' (R8, hunt 4) the cap provider of the cyclic error models excludes ignored edges from the maxima and gives them a structural bound (C04.R5).'
    " (R8, hunt 6) MinErrorFlow's variable bound is computed from non-ignored elements (C16.R8)."
)
DECIDED = ["constraint families present and complete", "ignoring is the only way an edge is skipped", "scale 0 implies ignored",
           "additional starts/ends wired to the synthetic source/sink by the documented rule", "greedy rejected on unmet constraints"]
NOT_DECIDED = ["the objective is the optimum over exactly the solutions satisfying the constraints",
               "ignoring an element has no other influence than removing its rows (solver-level statement)"]

ALLOWED_ATOMS = [
    r"^\(q\d_0, q\d_1\) in self\.edges_to_ignore$",
    r"^\(q\d_0, q\d_1, q\d_0\) in self\.edges_set_to_(zero|one)$",
    r"^self\._is_solved$|^self\.is_solved\(\)$",
    r"^self\.path_length_factors$",
    r"^\(q\d_0, q\d_1\) in sub(path|set)_constraint_edges$",
    r"^\(q\d_0, q\d_1\) in \{(\w+) for (\w+) in self\.sub(path|set)_constraints for \1 in zip\(\2\[:-1\], \2\[1:\]\)\}$",
    r"^\(q\d_0, q\d_1\) in \{\((\w+)\[(\w+)\], \1\[\2 \+ 1\]\) for \1 in self\.sub(path|set)_constraints for \2 in range\(len\(\1\) - 1\)\}$",
    r"^EQ0\[-1 \+ self\.sub(path|set)_constraints_coverage\]$",
    r"^self\.flow_attr in EDGEATTR\(.*\)$",
]
IGNORE_ATOM = r"^\(q\d_0, q\d_1\) in self\.edges_to_ignore$"


def ignore_only_skip(prog: Program, rep, RID: str):
    """Decided on the guard *formula* of every per-edge family (truth table over canonical atoms): the atoms the guard
    depends on are the ignore-set membership, the safety flags and the documented cover skip, and the guard implies that
    the edge is not ignored."""
    from sa import boolnf as B
    n = 0
    for cname in K_MODELS:
        cls = prog.cls(cname)
        for f in cls.methods.values():
            if not f.name.startswith("_encode"):
                continue
            for e in method_effects(prog, cls, f):
                if not any(q.endswith("in self.G.edges") for q in e["quant"]):
                    continue
                if e["kind"] not in ("add_constraint", "add_binary_continuous_product_constraint", "add_integer_continuous_product_constraint"):
                    continue
                n += 1
                gf = e["_guard"]
                rel = B.relevant_atoms(gf)
                bad = [a for a in rel if not any(re.match(p, a) for p in ALLOWED_ATOMS)]
                key = f"{cname}.{f.name}:{e['_fid'][:60]}"
                loc = f"{e.get('_file') or f.module.relpath}:{e['_line']}"
                ign = [a for a in rel if re.match(IGNORE_ATOM, a)]
                has_ignore = bool(ign) and B.implies(gf, B.mk_not(B.atom(ign[0])))
                if bad:
                    rep.violation(RID, key, f"per-edge family is skipped under an extra guard {bad} (guard: {B.key(gf)[:200]}): edges other than the ignored ones lose their rows "
                                  "(their weight no longer influences feasibility/objective)", loc)
                elif not has_ignore:
                    rep.violation(RID, key, "per-edge family is imposed on ignored edges as well (the guard does not imply `not in self.edges_to_ignore`): "
                                  "ignoring an element does not remove its influence", loc)
                else:
                    rep.ok(RID, key, "skipped only for ignored edges (+ safety flags / documented cover skip)", loc)
        terms = class_ignore_terms(prog, cls)
        key = f"{cname}.__init__:ignore-set"
        init = prog.own_method(cname, "__init__")
        if "self.G.source_sink_edges" in terms and any("edges_to_ignore_internal" in t or "elements_to_ignore" in t for t in terms):
            rep.ok(RID, key, "ignore set = synthetic source/sink edges + translated user ignore list", init.loc(), sample={"terms": sorted(terms)[:6]})
        else:
            rep.violation(RID, key, f"self.edges_to_ignore is built from {sorted(terms)}: it must contain self.G.source_sink_edges and the (translated) "
                          "user ignore list", init.loc())
        n += 1
    return n


def _is_scale0_comp(e: ast.AST) -> bool:
    for c in ast.walk(e):
        if isinstance(c, (ast.SetComp, ast.ListComp, ast.GeneratorExp)):
            g = c.generators[0]
            if "error_scaling" in norm(g.iter) and any(re.search(r"== 0(\.0)?$", norm(cond)) for cond in g.ifs):
                return True
    return False


def scale_zero_ignored(prog: Program, rep, RID: str):
    """The set {e : error_scaling[e] == 0} flows into self.edges_to_ignore before any row is built (directly, or through a
    local that is one of the union terms of the ignore set)."""
    from rules.search import union_terms
    from rules.common import local_single_defs
    n = 0
    for cls in prog.all_classes():
        init = cls.methods.get("__init__")
        if init is None or "error_scaling" not in init.params:
            continue
        n += 1
        receivers = {}
        for st in walk_no_nested(init.node):
            val = None
            tgt = None
            if isinstance(st, ast.AugAssign):
                tgt, val = dotted(st.target), st.value
            elif isinstance(st, ast.Assign) and len(st.targets) == 1:
                tgt, val = dotted(st.targets[0]), st.value
            elif isinstance(st, ast.Expr) and isinstance(st.value, ast.Call) and isinstance(st.value.func, ast.Attribute) and \
                    st.value.func.attr in ("update", "extend") and st.value.args:
                tgt, val = dotted(st.value.func.value), st.value.args[0]
            if tgt and val is not None and _is_scale0_comp(val):
                receivers[tgt] = st
        terms = class_ignore_terms(prog, cls)
        hit = None
        if "self.edges_to_ignore" in receivers:
            hit = receivers["self.edges_to_ignore"]
        else:
            for r, st in receivers.items():
                if r in terms:
                    hit = st
        key = f"{cls.name}.__init__:scale0-ignored"
        first_use = None
        for c in sorted(calls_in(init.node), key=lambda c: c.lineno):
            d = dotted(c.func) or ""
            if d.startswith("self._encode") or d.startswith("self.create_solver") or norm(c.func).startswith("super().__init__"):
                first_use = c
                break
        if hit is not None and (first_use is None or hit.lineno < first_use.lineno):
            rep.ok(RID, key, "edges with error scale 0 flow into the ignore set before any row is built", init.loc(hit), sample={"stmt": norm(hit)[:120]})
        elif hit is None:
            rep.violation(RID, key, "edges whose error_scaling factor is 0 do not reach the ignore set: they keep their rows (with a useless "
                          "zero-weight error) and still influence feasibility", init.loc())
        else:
            rep.violation(RID, key, "scale-0 edges are added to the ignore set only after rows were built", init.loc(hit))
    return n


def augmentation_guards(prog: Program, rep, RID: str):
    # decided on the name-free statements of the method and their path conditions (sa.boolnf): the disjunction of the conditions
    # under which a synthetic edge of the loop's node is created - directly by add_edge or through a list handed to
    # add_edges_from - must be *equivalent* to the documented rule
    from rules.common import canonical_calls
    from sa import boolnf as B
    f = prog.own_method("AbstractSourceSinkGraph", "_augment_with_source_sink")
    calls = canonical_calls(f.node)
    N = r"<self\.base_graph\.nodes(\(\))?>"
    for kind, deg, extra, pat in (("source", "in_degree", "additional_starts", r"\(self\.source, (%s)\)|add_edge\(self\.source, (%s)[,)]" % (N, N)),
                                  ("sink", "out_degree", "additional_ends", r"\((%s), self\.sink\)|add_edge\((%s), self\.sink[,)]" % (N, N))):
        key = f"AbstractSourceSinkGraph._augment_with_source_sink:{kind}-edge"
        ev = [(t, c, ln) for t, c, ln in calls if re.search(pat, t) and re.search(r"add_edge\(|\.append\(|\.add\(", t)]
        if not ev:
            raise AnalysisError(f"_augment_with_source_sink: creation of the synthetic {kind} edges not recognised (statements: {[t[:60] for t, c, ln in calls][:8]})")
        node = re.search(N, ev[0][0]).group(0)
        # appended lists must reach the graph
        for t, c, ln in ev:
            m = re.match(r"([\w.]+)\.append\(", t)
            if m and not any(re.search(r"add_edges_from\(%s\)" % re.escape(m.group(1)), t2) for t2, c2, l2 in calls):
                raise AnalysisError(f"_augment_with_source_sink: the {kind} edges collected in `{m.group(1)}` are never handed to add_edges_from")
        base = B.mk_or([c for t, c, ln in calls if False]) if False else None
        cond = B.mk_or([c for t, c, ln in ev])
        want = B.mk_or([B.parse(ast.parse(f"self.base_graph.{deg}(X) == 0", mode="eval").body), B.parse(ast.parse(f"X in self.{extra}", mode="eval").body)])
        # rename the loop element in the canonical atoms
        def ren(fm):
            if fm[0] == "a":
                return ("a", fm[1].replace(node, "X"))
            if fm[0] == "not":
                return ("not", ren(fm[1]))
            if fm[0] in ("and", "or"):
                return (fm[0], tuple(ren(x) for x in fm[1]))
            return fm
        cond = ren(cond)
        if B.equivalent(cond, want):
            rep.ok(RID, key, f"the synthetic {kind} edge of a node is created iff {deg}(node) == 0 or node in {extra}", f.loc(), sample={"condition": B.key(cond)[:160]})
        else:
            w = B.witness(cond, want) or {}
            rep.violation(RID, key, f"the synthetic {kind} edge of a node is created under [{B.key(cond)[:200]}]; documented rule: {deg}(node) == 0 or node in {extra}. "
                          f"They differ e.g. when {', '.join(f'{k_} is {v_}' for k_, v_ in sorted(w.items()))[:220]}: admissible start/end nodes are enlarged or shrunk",
                          f"{f.module.relpath}:{ev[0][2]}")
    # additional start/end membership validated and stored as given
    g = prog.own_method("AbstractSourceSinkGraph", "__init__")
    src = norm(g.node)
    for nm in ("additional_starts", "additional_ends"):
        key = f"AbstractSourceSinkGraph.__init__:{nm}"
        if f"self.{nm} = set({nm} or [])" in src:
            rep.ok(RID, key, f"self.{nm} holds exactly the declared nodes", g.loc())
        else:
            rep.violation(RID, key, f"self.{nm} is not set from the `{nm}` argument", g.loc())


def max_occurrence_rule(prog: Program, rep, RID: str):
    """graphutils.max_occurrence is the test the greedy route uses to decide whether its paths satisfy a subpath constraint:
    for each path it must count the constraint *edges* that are edges of the path (consecutive node pairs), weighted by their
    length (default 1), and return the maximum over the paths."""
    from rules.common import all_local_defs, substitute_locals
    from sa.mir import canon_expr
    f = prog.function("flowpaths.utils.graphutils", "max_occurrence")
    a = f.node.args.args
    if len(a) < 3:
        raise AnalysisError("max_occurrence: signature changed")
    SEQ, PATHS, LEN = a[0].arg, a[1].arg, a[2].arg
    key = "max_occurrence"
    loops = [n for n in f.node.body if isinstance(n, ast.For) and norm(n.iter) == PATHS and isinstance(n.target, ast.Name)]
    if len(loops) != 1:
        raise AnalysisError("max_occurrence: loop over the paths not found")
    lp = loops[0]
    P = lp.target.id
    ldefs = {}
    for s_ in lp.body:
        if isinstance(s_, ast.Assign) and len(s_.targets) == 1 and isinstance(s_.targets[0], ast.Name) and not (isinstance(s_.value, ast.Constant)):
            ldefs[s_.targets[0].id] = substitute_locals(s_.value, dict(ldefs))
    # the occurrence count of one path: accumulator loop or sum() over the constraint's edges
    cond = val = evar = None
    for s_ in lp.body:
        if isinstance(s_, ast.For) and norm(s_.iter) == SEQ:
            ifs = [x for x in s_.body if isinstance(x, ast.If)]
            augs = [x for x in ast.walk(s_) if isinstance(x, ast.AugAssign) and isinstance(x.op, ast.Add)]
            if len(augs) == 1 and len(ifs) == 1 and not ifs[0].orelse and len(s_.body) == 1:
                cond, val, evar = ifs[0].test, augs[0].value, s_.target
        for c in [x for x in ast.walk(s_) if isinstance(x, ast.Call) and dotted(x.func) == "sum" and x.args and isinstance(x.args[0], (ast.GeneratorExp, ast.ListComp))]:
            g = c.args[0]
            if len(g.generators) == 1 and norm(g.generators[0].iter) == SEQ:
                cond = ast.BoolOp(op=ast.And(), values=list(g.generators[0].ifs)) if len(g.generators[0].ifs) > 1 else (g.generators[0].ifs[0] if g.generators[0].ifs else None)
                val, evar = g.elt, g.generators[0].target
    if cond is None or val is None:
        raise AnalysisError("max_occurrence: the per-path count (accumulator loop or sum over the constraint's edges under a membership test) is not recognised")
    cond_s = substitute_locals(cond, ldefs)
    ev = norm(evar)
    # membership tests of the condition
    mems = [c for c in ast.walk(cond_s) if isinstance(c, ast.Compare) and len(c.ops) == 1 and isinstance(c.ops[0], ast.In)]

    def pairs_of_path(container: ast.AST) -> bool:
        t = norm(canon_expr(container)).replace(" ", "")
        t = re.sub(r"^(set|list|tuple|frozenset)\((.*)\)$", r"\2", t)
        pats = [r"^[\[{(]\(%s\[(\w+)\],%s\[\1\+1\]\)for\1inrange\(len\(%s\)-1\)[\]})]$" % (P, P, P),
                r"^zip\(%s,%s\[1:\]\)$" % (P, P), r"^zip\(%s\[:-1\],%s\[1:\]\)$" % (P, P),
                r"^[\[{(](\w+)for\1inzip\(%s(\[:-1\])?,%s\[1:\]\)[\]})]$" % (P, P)]
        return any(re.match(p_, t) for p_ in pats)

    def nodes_of_path(container: ast.AST) -> bool:
        t = norm(container).replace(" ", "")
        if t in (P, f"set({P})", f"list({P})", f"frozenset({P})", f"dict.fromkeys({P})"):
            return True
        # {n for n in P} / {n: i for i, n in enumerate(P)}: a collection keyed by the *nodes* of the path
        if isinstance(container, (ast.SetComp, ast.ListComp, ast.DictComp)) and len(container.generators) == 1:
            g = container.generators[0]
            keyexpr = norm(container.key if isinstance(container, ast.DictComp) else container.elt)
            if norm(g.iter) == P and norm(g.target) == keyexpr:
                return True
            if isinstance(g.iter, ast.Call) and dotted(g.iter.func) == "enumerate" and g.iter.args and norm(g.iter.args[0]) == P and \
                    isinstance(g.target, ast.Tuple) and len(g.target.elts) == 2 and norm(g.target.elts[1]) == keyexpr:
                return True
        return False
    k1 = key + ":edge-membership"
    if len(mems) == 1 and norm(mems[0].left) in (ev, ev.strip("()")) and pairs_of_path(mems[0].comparators[0]) and \
            norm(cond_s) == norm(mems[0]):
        rep.ok(RID, k1, "a constraint edge counts iff it is one of the consecutive node pairs of the path", f.loc(lp), sample={"test": norm(cond_s)[:120]})
    elif mems and all(nodes_of_path(m.comparators[0]) for m in mems) and all(norm(m.left) != ev for m in mems):
        rep.violation(RID, k1, f"a constraint edge is counted when `{norm(cond)[:90]}` - its endpoints lie on the path - not when the edge itself is an edge of the path: "
                      "a path going around a shortcut edge is taken to cover it, so a greedy decomposition that violates a subpath constraint is accepted", f.loc(lp))
    else:
        raise AnalysisError(f"max_occurrence: membership test `{norm(cond_s)[:100]}` not recognised")
    k2 = key + ":length"
    want = {f"{LEN}.get({ev}, 1)", f"{LEN}.get(({ev.strip('()')}), 1)", f"{LEN}.get({ev.strip('()')}, 1)"}
    if norm(val) in want:
        rep.ok(RID, k2, "each counted edge contributes its length (1 by default)", f.loc(lp))
    elif re.fullmatch(r"%s\.get\(.*, \d+\)|1|%s\[.*\]" % (LEN, LEN), norm(val)):
        rep.violation(RID, k2, f"a counted edge contributes `{norm(val)}` instead of its length with default 1", f.loc(lp))
    else:
        raise AnalysisError(f"max_occurrence: contribution `{norm(val)}` not recognised")


def _quantified_form_guard(f):
    """the greedy rules read the coverage check as a loop over the constraints with an early `return False`; a check written
    with any() / all() / next() over a predicate is the same code in a form they do not read: say so instead of judging"""
    for c in calls_in(f.node, nested=True):
        if isinstance(c.func, ast.Name) and c.func.id in ("any", "all", "next") and "max_occurrence(" in norm(c):
            raise AnalysisError("kFlowDecomp._get_solution_with_greedy: the coverage check of the greedy paths is written with a quantifier "
                                f"(`{c.func.id}(...)`) instead of a loop over self.subpath_constraints with an early `return False`: idiom not recognised")


def greedy_units(prog: Program, rep, RID: str):
    """The coverage test of the greedy paths compares like with like: when the coverage is counted in edges (no length
    coverage given) every covered edge counts 1 - the edge lengths must not be passed to max_occurrence; when it is counted in
    length, the same lengths are used on both sides."""
    from rules.common import canonical_calls, expr_cases
    from sa import boolnf as B
    f = prog.own_method("kFlowDecomp", "_get_solution_with_greedy")
    _quantified_form_guard(f)
    tests = [(t[5:], c, ln) for t, c, ln in canonical_calls(f.node) if t.startswith("test ") and "max_occurrence(" in t]
    key = "kFlowDecomp._get_solution_with_greedy:units"
    if len(tests) != 1:
        raise AnalysisError(f"kFlowDecomp._get_solution_with_greedy: expected one test on max_occurrence, found {len(tests)}")
    e = ast.parse(tests[0][0].replace("<self.subpath_constraints>", "SP").replace("<self.subpath_constraints or []>", "SP"), mode="eval").body
    by_edges = B.parse(ast.parse("self.subpath_constraints_coverage_length is None", mode="eval").body)
    probs = []
    n = 0
    for g, x in expr_cases(e):
        if not B.satisfiable(g):
            continue
        n += 1
        txt = norm(x)
        m = re.search(r"max_occurrence\((.*)\) < (.*)$", txt)
        if not m:
            raise AnalysisError(f"kFlowDecomp._get_solution_with_greedy: coverage test `{txt[:100]}` not recognised")
        call, thr = m.group(1), m.group(2)
        weighted = bool(re.search(r"edge_lengths=\{\(", call)) or bool(re.search(r"edge_lengths=(?!\{\})", call) and "edge_lengths=" in call and not re.search(r"edge_lengths=\{\}", call))
        if B.implies(g, by_edges):
            if weighted:
                probs.append(f"with the coverage counted in edges (threshold `{thr[:60]}`) the occurrences are weighted by edge lengths")
            if not re.search(r"len\(SP\)", thr):
                probs.append(f"edge-count variant compares with `{thr[:60]}` instead of len(constraint) * coverage")
        elif B.implies(g, B.mk_not(by_edges)):
            if not weighted:
                probs.append(f"with the coverage counted in length (threshold `{thr[:60]}`) the occurrences are counted in edges")
            if "sum(" not in thr or "length_attr" not in thr:
                probs.append(f"length variant compares with `{thr[:60]}` instead of the total length * coverage")
        else:
            probs.append("the test does not distinguish the edge-count and the length variant")
    if n < 2 and not probs:
        probs.append("only one coverage variant is tested")
    if probs:
        rep.violation(RID, key, probs[0] + ": a partially covered constraint with long edges passes, and greedy paths violating a subpath constraint are returned",
                      f"{f.module.relpath}:{tests[0][2]}")
    else:
        rep.ok(RID, key, "edge-count variant: every covered edge counts 1 against len * coverage; length variant: lengths on both sides", f"{f.module.relpath}:{tests[0][2]}")


def counted_vs_measured(prog: Program, rep, RID: str):
    """Rows 7a: the collection whose indicators are *summed* and the collection whose size is the *threshold* are the same collection,
    duplicates included: `sum over c` against `len(set(c))` lets an edge listed twice count twice on the left only (a walk constraint that
    passes an edge twice, a node-weighted constraint that revisits a node), and the row is met without the other edges.
    (The formulation table cannot see this: its iteration domains drop set()/list() wrappers - a row quantified over a set or over the
    list it was built from is the same family of rows, but a *sum* is not.)"""
    import copy
    from rules.common import all_local_defs, substitute_locals
    n_rows = 0
    for cname, mname in (("AbstractWalkModelDiGraph", "_encode_subset_constraints"), ("AbstractPathModelDAG", "_encode_paths")):
        f = prog.own_method(cname, mname)
        defs = all_local_defs(f.node)

        def resolve(e):
            for _ in range(4):
                e2 = substitute_locals(e, defs)
                if norm(e2) == norm(e):
                    break
                e = ast.parse(norm(e2), mode="eval").body
            return e
        for c in ast.walk(f.node):
            if not (isinstance(c, ast.Call) and isinstance(c.func, ast.Attribute) and c.func.attr == "add_constraint"):
                continue
            nm = next((kw.value for kw in c.keywords if kw.arg == "name"), c.args[1] if len(c.args) > 1 else None)
            if nm is None or not norm(nm).lstrip("f'\"").startswith("7a"):
                continue
            expr = c.args[0] if c.args else next((kw.value for kw in c.keywords if kw.arg == "expr"), None)
            if not (isinstance(expr, ast.Compare) and len(expr.ops) == 1):
                raise AnalysisError(f"{cname}.{mname}: row 7a is not a single comparison")
            key = f"{cname}.{mname}:7a:counted-vs-measured"
            expr = resolve(expr)            # (a sum or a threshold hoisted into a local is read in place)
            sums = [q for q in ast.walk(expr) if isinstance(q, ast.Call) and isinstance(q.func, ast.Attribute) and q.func.attr == "quicksum" and q.args and
                    isinstance(q.args[0], (ast.GeneratorExp, ast.ListComp)) and "edge" in norm(q.args[0].elt)]
            if len(sums) != 1 or len(sums[0].args[0].generators) != 1:
                raise AnalysisError(f"{key}: the sum of edge indicators of row 7a not recognised")
            counted = norm(resolve(sums[0].args[0].generators[0].iter))
            other = expr.comparators[0] if sums[0] in list(ast.walk(expr.left)) else expr.left
            lens = [q for q in ast.walk(resolve(other)) if isinstance(q, ast.Call) and isinstance(q.func, ast.Name) and q.func.id == "len" and len(q.args) == 1]
            n_rows += 1
            if not lens:
                # length-weighted variant: the threshold is a sum of lengths over the constraint - judged by the table (coefficients on both sides)
                rep.ok(RID, key, "threshold is not a count (length-weighted variant): judged by the formulation table", f.loc(c), nontrivial=False)
                continue
            measured = {norm(q.args[0]) for q in lens}
            strip = lambda t: re.sub(r"^(list|tuple|sorted)\((.*)\)$", r"\2", t)
            if {strip(m_) for m_ in measured} == {strip(counted)}:
                rep.ok(RID, key, f"the indicators are summed over `{counted}` and the threshold counts the same collection", f.loc(c), sample={"counted": counted, "measured": sorted(measured)})
            else:
                rep.violation(RID, key, f"row 7a sums the edge indicators over `{counted}` but its threshold is the size of `{sorted(measured)[0]}`: an edge listed twice in a "
                              "constraint is counted twice on one side only, so the row is met without the other edges of the constraint (or cannot be met at all) and the "
                              "constraint is not enforced as documented", f.loc(c))
    if n_rows < 2:
        raise AnalysisError(f"counted_vs_measured: {n_rows} rows 7a found, 2 expected")


def greedy_rejection(prog: Program, rep, RID: str):
    f = prog.own_method("kFlowDecomp", "_get_solution_with_greedy")
    _quantified_form_guard(f)
    # the constraint loop: for subpath in self.subpath_constraints: ... if gu.max_occurrence(...) < L * c: return False
    loop = None
    for n in walk_no_nested(f.node):
        if isinstance(n, ast.For) and norm(n.iter) in ("self.subpath_constraints", "self.subpath_constraints or []", "self.subpath_constraints or ()"):
            loop = n
    key = "kFlowDecomp._get_solution_with_greedy:constraint-check"
    if loop is None:
        if "max_occurrence(" in norm(f.node) and "subpath_constraints" in norm(f.node):
            raise AnalysisError("kFlowDecomp._get_solution_with_greedy: the coverage check of the greedy paths is present but not written as a loop over "
                                "self.subpath_constraints with an early `return False`: idiom not recognised")
        rep.violation(RID, key, "the greedy decomposition is no longer checked against the subpath constraints", f.loc())
        return
    ok = False
    for st in ast.walk(loop):
        if isinstance(st, ast.If) and any(isinstance(s, ast.Return) and isinstance(s.value, ast.Constant) and s.value.value is False for s in st.body):
            t = st.test
            if isinstance(t, ast.Compare) and len(t.ops) == 1 and isinstance(t.ops[0], (ast.Lt, ast.Gt)):
                from rules.common import all_local_defs as _ald, substitute_locals as _sl
                # (a local holding the result of max_occurrence, stored once in the loop, stands for the call; `b > a` is `a < b`)
                lo, hi = (t.left, t.comparators[0]) if isinstance(t.ops[0], ast.Lt) else (t.comparators[0], t.left)
                _d = {k_: v_ for k_, v_ in _ald(f.node).items() if isinstance(v_, ast.Call) and "max_occurrence" in norm(v_.func)}
                if "max_occurrence(" in norm(_sl(lo, _d)) and \
                        norm(hi).replace(" ", "") in ("constraint_length*coverage_fraction", "coverage_fraction*constraint_length"):
                    ok = True
    acc = [c for c in calls_in(f.node) if (dotted(c.func) or "") == "self.set_solved"]
    before = acc and all(loop.lineno < c.lineno for c in acc)
    # the loop must not be nested under a condition other than `if self.subpath_constraints`
    tests = [norm(t) for t, pol in enclosing_tests(f.node, loop)]
    if ok and before and all(t == "self.subpath_constraints" for t in tests):
        rep.ok(RID, key, "every subpath constraint must reach length*coverage in the greedy paths, else the greedy solution is rejected; the check "
               "precedes acceptance", f.loc(loop), sample={"loop": "for subpath in self.subpath_constraints", "reject": "max_occurrence(...) < constraint_length * coverage_fraction"})
    else:
        rep.violation(RID, key, "the greedy solution can be accepted although a subpath constraint is not covered to the requested fraction "
                      f"(rejection test present: {ok}; precedes acceptance: {bool(before)}; extra guards: {tests})", f.loc(loop))
    # coverage variants: constraint_length / coverage_fraction definitions
    defs = {}
    for n in ast.walk(loop):
        if isinstance(n, ast.Assign) and len(n.targets) == 1 and isinstance(n.targets[0], ast.Name):
            # (float() around an edge length is value-preserving: lengths are summed as Python numbers on both sides)
            defs.setdefault(n.targets[0].id, []).append(re.sub(r"float\((self\.G\[u\]\[v\]\.get\(self\.length_attr, 1\))\)", r"\1", norm(n.value)))
    want_len = {"len(subpath)", "sum((self.G[u][v].get(self.length_attr, 1) for u, v in subpath))"}
    want_cov = {"self.subpath_constraints_coverage", "self.subpath_constraints_coverage_length"}
    k2 = "kFlowDecomp._get_solution_with_greedy:coverage-variants"
    if set(defs.get("constraint_length", [])) == want_len and set(defs.get("coverage_fraction", [])) == want_cov:
        rep.ok(RID, k2, "edge-count and length variants use the same thresholds as rows 7a", f.loc(loop))
    else:
        rep.violation(RID, k2, f"thresholds of the greedy check differ from rows 7a: constraint_length in {defs.get('constraint_length')}, "
                      f"coverage_fraction in {defs.get('coverage_fraction')}", f.loc(loop))


def indicator_caps(prog: Program, rep, RID: str):
    """x <= U_e * z uses the declared cap of x (V3)."""
    cls = prog.cls("AbstractWalkModelDiGraph")
    f = prog.own_method("AbstractWalkModelDiGraph", "_encode_subset_constraints")
    g = prog.own_method("AbstractWalkModelDiGraph", "_encode_walks")
    decl = [e for e in method_effects(prog, cls, g) if e["kind"] == "add_variables" and e.get("family") == "self.edge_vars"]
    if not decl:
        raise AnalysisError("edge_vars declaration not found")
    ub = str(decl[0].get("ub"))
    hit = False
    for e in method_effects(prog, cls, f):
        if e["kind"] != "add_constraint":
            continue
        nf = e["_nf"]
        zs = [k for k in nf.terms if k.startswith("self.edge_used_vars[")]
        xs = [k for k in nf.terms if k.startswith("self.edge_vars[")]
        if len(zs) == 1 and len(xs) == 1 and nf.rel == ">=" and nf.terms[xs[0]].const_value() == -1:
            hit = True
            U = nf.terms[zs[0]]
            atoms = U.atoms()
            key = "AbstractWalkModelDiGraph._encode_subset_constraints:x<=U*z"
            loc = f"{f.module.relpath}:{e['_line']}"
            # (float() around the bound is value-preserving: the declaration converts the same way)
            if len(atoms) == 1 and list(atoms)[0].startswith(("self.edge_upper_bounds[", "float(self.edge_upper_bounds[")) and U.coeff((list(atoms)[0],)) >= 1 and \
                    "self.edge_upper_bounds[" in ub:
                rep.ok(RID, key, "U_e is the declared upper bound of the edge variable", loc, sample={"row": nf.key()})
            else:
                rep.violation(RID, key, f"indicator row uses U = `{U!r}` but edge variables are declared up to `{ub[:70]}`: multiplicities above U are cut off", loc)
    if not hit:
        raise AnalysisError("row x <= U*z not found")


def check(prog: Program, rep):
    rep.rule("C10.R1", "constraint families conform to the frozen formulation table", floor=10)
    conformance(prog, rep, "C10.R1", "C10")
    indicator_caps(prog, rep, "C10.R1")
    counted_vs_measured(prog, rep, "C10.R1")
    rep.rule("C10.R2", "ignoring is the only skip; ignore set composition", floor=30)
    ignore_only_skip(prog, rep, "C10.R2")
    rep.rule("C10.R3", "error scale 0 implies ignored", floor=5)
    scale_zero_ignored(prog, rep, "C10.R3")
    rep.rule("C10.R4", "augmentation guards", floor=4)
    augmentation_guards(prog, rep, "C10.R4")
    rep.rule("C10.R5", "greedy rejection on unmet constraints; the coverage test counts path *edges*", floor=4)
    greedy_rejection(prog, rep, "C10.R5")
    max_occurrence_rule(prog, rep, "C10.R5")
    greedy_units(prog, rep, "C10.R5")
    rep.rule("C10.R6", "constraint edges are trusted for safety only under full coverage; ignore lists are never written", floor=10)
    semantic.trusted_edge_providers(prog, rep, "C10.R6")
    from rules.c18 import class_inputs_not_mutated
    class_inputs_not_mutated(prog, rep, "C10.R6", K_MODELS, params=("elements_to_ignore", "subpath_constraints", "subset_constraints", "additional_starts", "additional_ends"))
    rep.rule("C10.R7", "node-weighted constraints, starts and ends are translated totally and by the expansion scheme (C11.R3)", floor=14)
    from rules.common import node_mode_plumbing
    node_mode_plumbing(prog, rep, "C10.R7")
    rep.rule("C10.R8", "declared starts / ends and ignored elements reach every derived computation: source-sink graphs, node expansion flag, "
             "whole-flow shortcuts (greedy, flow-safe paths), repetition caps, percentile ignore list", floor=16)
    from rules import plumb
    from rules.bounds import cap_premises
    plumb.stgraph_starts_rule(prog, rep, "C10.R8")
    plumb.node_expansion_fill_rule(prog, rep, "C10.R8")
    plumb.whole_flow_shortcuts_rule(prog, rep, "C10.R8")
    cap_premises(prog, rep, "C10.R8", "kFlowDecompCycles", which=("P1",))
    plumb.ignore_list_accumulates(prog, rep, "C10.R8")
    from rules.c16 import bound_excludes_ignored as _bei
    from rules.common import RuleProxy as _RPb
    _bei(prog, _RPb(rep, "C10.R8"), "C16.R8")
    plumb.node_expansion_length_rule(prog, rep, "C10.R8")
    plumb.percentile_rules(prog, rep, "C10.R8")
    from rules.values import python_arithmetic as _pa10
    from rules.common import RuleProxy as _RP10
    _pa10(prog, _RP10(rep, "C10.R8"), "C04.R5", [prog.own_method("kFlowDecompCycles", "__init__")],
          "the structural repetition bound of ignored edges comes out too small and a decomposable flow is reported infeasible")
    # ignored elements: the value of an ignored edge must not decide a repetition cap (C04.R5)
    from rules.c04 import repetition_caps as _rc10
    _rc10(prog, _RP10(rep, "C10.R8"), "C04.R5")
