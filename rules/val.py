"""VAL - validation-fact analysis.

A *validation site* is `if T: ... raise ValueError(...)` in a constructor or validation helper.  For a frozen table of such
sites (formulation/validation.json: function, canonical test, enclosing conditions, enclosing loop) the rule establishes on the
current tree

  (a) presence     - a `raise ValueError` that is control-dependent on an equivalent test exists in that function;
  (b) dominance    - on every path from the region entry (function entry, or entry of the loop body for per-element checks) to
                     the region's normal exit (fallthrough / return, resp. the loop's back edge) the test was evaluated with the
                     non-raising outcome, unless one of the site's enclosing conditions was false on that path (dataflow over
                     control-dependence facts; `continue` for ignored elements is a legitimate excuse only if the table says so);
  (c) exception    - what is raised is ValueError (or a bare re-raise inside `except ValueError`).

Delegations ("the st-graph constructor validates the nodes") are must-call obligations: the delegate is called on every normal
exit of the delegating constructor (conditionally on the mode branch where the table says so).
"""
from __future__ import annotations

import ast
import json
import os
import re
from typing import Dict, List, Optional, Set, Tuple

from sa.pm import Program, FuncInfo, ClassInfo, dotted, norm, calls_in, walk_no_nested, AnalysisError, is_super_call
from sa.flow import Flow
from sa.worlds import WorldFlow, World
from sa.mir import canon_guard
from rules.semantic import enclosing_tests, parents_map

HERE = os.path.dirname(os.path.dirname(os.path.abspath(__file__)))
TABLE = os.path.join(HERE, "formulation", "validation.json")

VALIDATION_FUNCS = re.compile(r"^(__init__|_check_valid_\w+|_pre_build_validate|_post_build|get_max_flow_value_and_check_non_negative_flow|"
                              r"get_expanded_\w+|_get_expanded_\w+|read_graph|_encode_\w+|_create_solver|add_piecewise_constant_constraint|set_objective)$")
DELEGATES = re.compile(r"(^|\.)(stDAG|stDiGraph|NodeExpandedDiGraph|_check_valid_subpath_constraints|_check_valid_subset_constraints|"
                       r"get_max_flow_value_and_check_non_negative_flow|check_flow_conservation|get_expanded_subpath_constraints|"
                       r"get_expanded_additional_starts|get_expanded_additional_ends|get_expanded_edge|SolverWrapper)$")


def raise_is_value_error(r: ast.Raise, func: ast.AST) -> Optional[bool]:
    if r.exc is None:
        # bare re-raise: inside except ValueError?
        pm = parents_map(func)
        cur = r
        while id(cur) in pm:
            cur = pm[id(cur)]
            if isinstance(cur, ast.ExceptHandler):
                return cur.type is not None and norm(cur.type) == "ValueError"
        return None
    e = r.exc
    name = dotted(e.func) if isinstance(e, ast.Call) else dotted(e)
    return name == "ValueError"


def atoms_of(test: ast.AST) -> List[ast.AST]:
    if isinstance(test, ast.BoolOp):
        out = []
        for v in test.values:
            out += atoms_of(v)
        return out
    if isinstance(test, ast.UnaryOp) and isinstance(test.op, ast.Not):
        return atoms_of(test.operand)
    return [test]


def eval3(test: ast.AST, facts: Dict[str, bool]) -> Optional[bool]:
    if isinstance(test, ast.BoolOp):
        vals = [eval3(v, facts) for v in test.values]
        if isinstance(test.op, ast.And):
            if any(v is False for v in vals):
                return False
            return True if all(v is True for v in vals) else None
        if any(v is True for v in vals):
            return True
        return False if all(v is False for v in vals) else None
    if isinstance(test, ast.UnaryOp) and isinstance(test.op, ast.Not):
        v = eval3(test.operand, facts)
        return None if v is None else (not v)
    return facts.get(norm(test))


class SiteFlow(WorldFlow):
    """records every uninterpreted atomic test whose text is in `watch` as a fact; interpreted tests (None-ness, constants)
    are additionally mirrored so that eval3 can see them."""

    def __init__(self, prog, f: FuncInfo, watch: Set[str]):
        super().__init__(prog, f.module, f.cls)
        self.f = f
        self.watch = watch
        self.exits = []
        self.backs = {}
        self.free: Dict[str, Set[str]] = {}
        self.site_loop = None

    def refine(self, test, pol, state):
        # only the watched atomic tests are tracked (keeps the number of worlds small: 2^|watch| at most)
        if state is None:
            return None
        txt = norm(test)
        if txt in self.watch:
            key = "!" + txt
            self.free[key] = free_names(test)

            def g(w: World):
                cur = w.get(key)
                if cur is not None and str(pol) not in cur:
                    return None
                return w.set(key, [str(pol)])
            state = self._map(state, g)
        return state

    def branch_fact(self, test, pol, state):
        return state

    def assign_name(self, target, value, state):
        # control-dependence facts ("this path passed the test with that outcome") survive re-binding of the operands;
        # per-iteration freshness is obtained by clearing the facts at the entry of the site's loop (bind_for / while head)
        return state

    def bind_for(self, stmt, state):
        if stmt is self.site_loop and state is not None:
            return self._map(state, lambda w: World({k: v for k, v in w.d.items() if not k.startswith("!")}))
        return state

    def on_return(self, stmt, state):
        self.record(self.exits, ("return", stmt, state))

    def on_fallthrough(self, func, state):
        self.record(self.exits, ("fallthrough", func, state))

    def on_back_edge(self, loop, state):
        if self.quiet == 0:
            self.backs[id(loop)] = state


def facts_of(w: World) -> Dict[str, bool]:
    return {k[1:]: (list(v)[0] == "True") for k, v in w.d.items() if k.startswith("!") and len(v) == 1}


# ------------------------------------------------------------------------------------------ inference
def enclosing_loop(func: ast.AST, node: ast.AST) -> Optional[ast.AST]:
    pm = parents_map(func)
    cur = node
    while id(cur) in pm:
        cur = pm[id(cur)]
        if isinstance(cur, (ast.For, ast.While)):
            return cur
        if isinstance(cur, (ast.FunctionDef, ast.Lambda)):
            return None
    return None


def path_conditions(func: ast.AST, node: ast.AST) -> List[Tuple[ast.AST, bool]]:
    """Enclosing If tests (with polarity) plus, at every block level, the negation of earlier sibling `if c: <jump>` guards
    (early return / continue / break): the conditions under which control reaches `node`."""
    pm = parents_map(func)
    out: List[Tuple[ast.AST, bool]] = []
    cur = node
    while id(cur) in pm:
        par = pm[id(cur)]
        for fld in ("body", "orelse", "finalbody"):
            blk = getattr(par, fld, None)
            if isinstance(blk, list) and any(cur is s for s in blk):
                if isinstance(par, ast.If):
                    out.append((par.test, fld == "body"))
                for sib in blk:
                    if sib is cur:
                        break
                    if isinstance(sib, ast.If) and sib.body and isinstance(sib.body[-1], (ast.Return, ast.Continue, ast.Break)) and not sib.orelse:
                        out.append((sib.test, False))
        if isinstance(par, (ast.FunctionDef, ast.AsyncFunctionDef)):
            break
        cur = par
    return out


def free_names(test: ast.AST) -> Set[str]:
    bound = set()
    for n in ast.walk(test):
        if isinstance(n, ast.comprehension):
            for x in ast.walk(n.target):
                if isinstance(x, ast.Name):
                    bound.add(x.id)
    return {n.id for n in ast.walk(test) if isinstance(n, ast.Name)} - bound


def _bf_to_json(f):
    return [f[0]] + [(_bf_to_json(x) if isinstance(x, tuple) and x and x[0] in ("T", "F", "a", "not", "and", "or") else
                      ([_bf_to_json(y) for y in x] if isinstance(x, tuple) else x)) for x in f[1:]]


def _bf_from_json(j):
    if j[0] in ("T", "F"):
        return (j[0],)
    if j[0] == "a":
        return ("a", j[1])
    if j[0] == "not":
        return ("not", _bf_from_json(j[1]))
    return (j[0], tuple(_bf_from_json(x) for x in j[1]))


def _split_raise_test(t: ast.AST, pol: bool):
    """Disjuncts of the raising condition; `not all(P for x in X)` / `any(Q for x in X)` become per-element sites
    (generators, element test, polarity) - the same thing as an explicit loop with `if not P: raise`."""
    if isinstance(t, ast.UnaryOp) and isinstance(t.op, ast.Not):
        return _split_raise_test(t.operand, not pol)
    if isinstance(t, ast.BoolOp) and ((isinstance(t.op, ast.Or) and pol) or (isinstance(t.op, ast.And) and not pol)):
        out = []
        for v in t.values:
            out += _split_raise_test(v, pol)
        return out
    if isinstance(t, ast.BoolOp) and ((isinstance(t.op, ast.And) and pol) or (isinstance(t.op, ast.Or) and not pol)):
        # a and (b or c)  ==  (a and b) or (a and c): the same sites as `if a: if b or c: raise`   (one inner disjunction, no quantifier)
        vals = list(t.values)
        splits = [_split_raise_test(v, pol) for v in vals]
        multi = [i for i, sp in enumerate(splits) if len(sp) > 1]
        quant = [i for i, sp in enumerate(splits) if len(sp) == 1 and sp[0][2] is not None]
        if not multi and len(quant) == 1:
            # a and any(Q(x) for x in X)  ==  exists x in X: a and Q(x): the same site as `if a: for x in X: if Q(x): raise`
            i = quant[0]
            dt, dpol, gens = splits[i][0]
            lit = dt if dpol else ast.UnaryOp(op=ast.Not(), operand=dt)
            rest = [(v if pol else ast.UnaryOp(op=ast.Not(), operand=v)) for j, v in enumerate(vals) if j != i]
            return [(ast.copy_location(ast.BoolOp(op=ast.And(), values=rest + [lit]), t), True, gens)]
        if len(multi) == 1 and all(g is None for sp in splits for (_, _, g) in sp):
            i = multi[0]
            out = []
            for (dt, dpol, _g) in splits[i]:
                lit = dt if dpol else ast.UnaryOp(op=ast.Not(), operand=dt)
                rest = [(v if pol else ast.UnaryOp(op=ast.Not(), operand=v)) for j, v in enumerate(vals) if j != i]
                conj = ast.BoolOp(op=ast.And(), values=rest[:i] + [lit] + rest[i:])
                out.append((ast.copy_location(conj, t), True, None))
            return out
    if isinstance(t, ast.Compare) and len(t.ops) > 1 and not pol:
        # not (a <= b <= c)  ==  not (a <= b)  or  not (b <= c)
        out = []
        operands = [t.left] + list(t.comparators)
        for i, op in enumerate(t.ops):
            out += _split_raise_test(ast.copy_location(ast.Compare(left=operands[i], ops=[op], comparators=[operands[i + 1]]), t), pol)
        return out
    # `next((x for x in X if Q(x)), None) is not None`  ==  any(Q(x) for x in X)   (the elements are never None: tuples, nodes)
    if isinstance(t, ast.Compare) and len(t.ops) == 1 and isinstance(t.ops[0], (ast.IsNot, ast.Is)) and isinstance(t.comparators[0], ast.Constant) and \
            t.comparators[0].value is None and isinstance(t.left, ast.Call) and isinstance(t.left.func, ast.Name) and t.left.func.id == "next" and len(t.left.args) == 2 and \
            isinstance(t.left.args[1], ast.Constant) and t.left.args[1].value is None and isinstance(t.left.args[0], ast.GeneratorExp) and \
            t.left.args[0].generators[-1].ifs and (isinstance(t.ops[0], ast.IsNot) == pol):
        import copy as _cp
        g = t.left.args[0]
        gens = [_cp.copy(x) for x in g.generators]
        last = gens[-1]
        q = last.ifs[-1]
        gens[-1] = ast.comprehension(target=last.target, iter=last.iter, ifs=list(last.ifs[:-1]), is_async=0)
        return [(q, True, gens)]
    if isinstance(t, ast.Call) and isinstance(t.func, ast.Name) and t.func.id in ("all", "any") and len(t.args) == 1 and \
            isinstance(t.args[0], (ast.GeneratorExp, ast.ListComp)) and (t.func.id == "all") != pol:
        g = t.args[0]
        # raising condition:  not all(P)  == exists x: not P ;  any(Q) == exists x: Q
        return [(g.elt, t.func.id == "any", g.generators)]
    return [(t, pol, None)]


def sites_in(f: FuncInfo) -> List[Dict[str, object]]:
    """All `if T: ... raise` sites of a function in canonical form.  The raising condition is split into its disjuncts;
    loop variables are renamed positionally (L<depth>_<i>), single-definition locals are substituted, tests and contexts are
    propositional normal forms (sa.boolnf) - so renamed variables, De Morgan rewrites, merged or split `if`s, `all()` versus an
    explicit loop give the same rows."""
    from sa import boolnf as B
    from sa.mir import Renamer, _rename_comprehensions, canon_iter
    import copy as _copy
    out = []
    seen = set()
    from rules.common import local_single_defs, substitute_locals
    defs = local_single_defs(f.node)
    # `self.x = x` (x a parameter that is never re-bound, self.x assigned once): self.x and x name the same object
    params = {a.arg for a in f.node.args.posonlyargs + f.node.args.args + f.node.args.kwonlyargs}
    params |= {a.arg for a in (f.node.args.vararg, f.node.args.kwarg) if a is not None}
    stores: Dict[str, List[ast.AST]] = {}
    rebound = set()
    for n in walk_no_nested(f.node):
        if isinstance(n, ast.Assign):
            for t in n.targets:
                d = dotted(t)
                if d and d.startswith("self.") and d.count(".") == 1:
                    stores.setdefault(d, []).append(n.value)
                for x in ast.walk(t):
                    if isinstance(x, ast.Name):
                        rebound.add(x.id)
        elif isinstance(n, (ast.AugAssign, ast.AnnAssign)):
            d = dotted(n.target)
            if d:
                stores.setdefault(d, []).append(None)
            for x in ast.walk(n.target):
                if isinstance(x, ast.Name):
                    rebound.add(x.id)
        elif isinstance(n, (ast.For,)):
            for x in ast.walk(n.target):
                if isinstance(x, ast.Name):
                    rebound.add(x.id)
    self_alias = {d: v[0].id for d, v in stores.items() if len(v) == 1 and isinstance(v[0], ast.Name) and v[0].id in params and v[0].id not in rebound}

    class _SelfAlias(ast.NodeTransformer):
        def visit_Attribute(self, node):
            d = dotted(node)
            if d in self_alias and isinstance(node.ctx, ast.Load):
                return ast.Name(id=self_alias[d], ctx=ast.Load())
            return self.generic_visit(node)
    # `if p is None: p = <default>` at the top of the function: from then on p stands for (<default> if p is None else p)
    none_defaults: Dict[str, ast.AST] = {}
    for st_ in f.node.body:
        if isinstance(st_, ast.If) and not st_.orelse and len(st_.body) == 1 and isinstance(st_.body[0], ast.Assign) and len(st_.body[0].targets) == 1 and \
                isinstance(st_.body[0].targets[0], ast.Name) and isinstance(st_.test, ast.Compare) and len(st_.test.ops) == 1 and \
                isinstance(st_.test.ops[0], ast.Is) and isinstance(st_.test.comparators[0], ast.Constant) and st_.test.comparators[0].value is None and \
                isinstance(st_.test.left, ast.Name) and st_.test.left.id == st_.body[0].targets[0].id and st_.test.left.id in params:
            none_defaults[st_.test.left.id] = st_.body[0].value

    class _NoneDefault(ast.NodeTransformer):
        def visit_Name(self, node):
            if isinstance(node.ctx, ast.Load) and node.id in none_defaults:
                return ast.IfExp(test=ast.Compare(left=ast.Name(id=node.id, ctx=ast.Load()), ops=[ast.Is()], comparators=[ast.Constant(None)]),
                                 body=_copy.deepcopy(none_defaults[node.id]), orelse=ast.Name(id=node.id, ctx=ast.Load()))
            return node
    # Store forwarding through the straight-line top of the function: `self.x = p` / `p = E` / `if T is None: T = D` executed before a
    # site make `self.x`, `p` at the site stand for what was stored (so that validating the parameter before it is stored, or the
    # attribute after it was stored, give the same row).  A store anywhere else (in a branch, a loop, an augmented assignment) ends it.
    def _key_of(t) -> Optional[str]:
        if isinstance(t, ast.Name):
            return t.id
        d_ = dotted(t)
        return d_ if d_ and d_.startswith("self.") and d_.count(".") == 1 else None

    def _stores_in(st) -> Set[str]:
        out_ = set()
        for n_ in ast.walk(st):
            tg = []
            if isinstance(n_, ast.Assign):
                tg = n_.targets
            elif isinstance(n_, (ast.AugAssign, ast.AnnAssign)):
                tg = [n_.target]
            elif isinstance(n_, (ast.For,)):
                tg = [n_.target]
            for t_ in tg:
                for x_ in ast.walk(t_):
                    k_ = _key_of(x_) if isinstance(x_, (ast.Name, ast.Attribute)) else None
                    if k_:
                        out_.add(k_)
        return out_

    class _Fwd(ast.NodeTransformer):
        def __init__(self, env):
            self.env = env

        def visit_Name(self, node):
            if isinstance(node.ctx, ast.Load) and node.id in self.env:
                return _copy.deepcopy(self.env[node.id])
            return node

        def visit_Attribute(self, node):
            d_ = dotted(node)
            if isinstance(node.ctx, ast.Load) and d_ in self.env:
                return _copy.deepcopy(self.env[d_])
            return self.generic_visit(node)

    def _simple(e) -> bool:
        return isinstance(e, (ast.Name, ast.Constant)) or (isinstance(e, ast.Attribute) and dotted(e) is not None)

    envs: List[Tuple[int, Dict[str, ast.AST]]] = []     # (index of the top-level statement, env valid *before* it)
    top_of: Dict[int, int] = {}                          # id(node) -> index of its top-level statement (inlined helper statements keep the
    env_: Dict[str, ast.AST] = {}                        # helper's line numbers, so positions - not lines - order the statements)
    for idx_, st_ in enumerate(f.node.body):
        for n_ in ast.walk(st_):
            top_of[id(n_)] = idx_
        envs.append((idx_, dict(env_)))
        if isinstance(st_, ast.Assign) and len(st_.targets) == 1 and _key_of(st_.targets[0]) and (_key_of(st_.targets[0]) in params or _key_of(st_.targets[0]).startswith("self.")):
            k_ = _key_of(st_.targets[0])
            v_ = _Fwd(env_).visit(_copy.deepcopy(st_.value))
            if _simple(st_.value) or (isinstance(v_, ast.IfExp) and isinstance(st_.value, (ast.Name, ast.Attribute))):
                env_[k_] = v_
            else:
                env_.pop(k_, None)
            # whatever referred to the old value of k_ keeps its meaning only if it did not mention k_
            for o_ in [o for o, ov in env_.items() if o != k_ and any(_key_of(x_) == k_ for x_ in ast.walk(ov) if isinstance(x_, (ast.Name, ast.Attribute)))]:
                if not (isinstance(env_[k_], ast.IfExp) or _simple(env_[k_])) or True:
                    pass
            continue
        if isinstance(st_, ast.If) and not st_.orelse and len(st_.body) == 1 and isinstance(st_.body[0], ast.Assign) and len(st_.body[0].targets) == 1 and \
                isinstance(st_.test, ast.Compare) and len(st_.test.ops) == 1 and isinstance(st_.test.ops[0], ast.Is) and \
                isinstance(st_.test.comparators[0], ast.Constant) and st_.test.comparators[0].value is None and \
                _key_of(st_.test.left) and _key_of(st_.test.left) == _key_of(st_.body[0].targets[0]) and \
                (_key_of(st_.test.left) in params or _key_of(st_.test.left).startswith("self.")):
            k_ = _key_of(st_.test.left)
            cur_v = env_.get(k_, _copy.deepcopy(st_.test.left))
            if isinstance(cur_v, (ast.Name, ast.Attribute)):
                env_[k_] = ast.IfExp(test=ast.Compare(left=_copy.deepcopy(cur_v), ops=[ast.Is()], comparators=[ast.Constant(None)]),
                                     body=_Fwd(env_).visit(_copy.deepcopy(st_.body[0].value)), orelse=_copy.deepcopy(cur_v))
                continue
        # `A = p if p is not None else D` (the program model stores a conditional assignment as if / else stores) and `if p is None: A = D else: A = p`
        if isinstance(st_, ast.If) and len(st_.body) == 1 and len(st_.orelse) == 1 and isinstance(st_.body[0], ast.Assign) and isinstance(st_.orelse[0], ast.Assign) and \
                len(st_.body[0].targets) == 1 and len(st_.orelse[0].targets) == 1 and _key_of(st_.body[0].targets[0]) and \
                _key_of(st_.body[0].targets[0]) == _key_of(st_.orelse[0].targets[0]) and \
                isinstance(st_.test, ast.Compare) and len(st_.test.ops) == 1 and isinstance(st_.test.ops[0], (ast.Is, ast.IsNot)) and \
                isinstance(st_.test.comparators[0], ast.Constant) and st_.test.comparators[0].value is None and _key_of(st_.test.left) and \
                (_key_of(st_.body[0].targets[0]) in params or _key_of(st_.body[0].targets[0]).startswith("self.")):
            k_ = _key_of(st_.body[0].targets[0])
            none_v, other_v = (st_.body[0].value, st_.orelse[0].value) if isinstance(st_.test.ops[0], ast.Is) else (st_.orelse[0].value, st_.body[0].value)
            tested = env_.get(_key_of(st_.test.left), _copy.deepcopy(st_.test.left))
            if isinstance(tested, (ast.Name, ast.Attribute)) and _simple(other_v):
                new_v = ast.IfExp(test=ast.Compare(left=_copy.deepcopy(tested), ops=[ast.Is()], comparators=[ast.Constant(None)]),
                                  body=_Fwd(env_).visit(_copy.deepcopy(none_v)), orelse=_Fwd(env_).visit(_copy.deepcopy(other_v)))
                for o_ in [o for o, ov in env_.items() if o != k_ and any(_key_of(x_) == k_ for x_ in ast.walk(ov) if isinstance(x_, (ast.Name, ast.Attribute)))]:
                    env_.pop(o_, None)
                env_[k_] = new_v
                continue
        for k_ in _stores_in(st_):
            env_.pop(k_, None)
            # values that mention k_ are stale from here on
            for o_ in [o for o, ov in env_.items() if any(_key_of(x_) == k_ for x_ in ast.walk(ov) if isinstance(x_, (ast.Name, ast.Attribute)))]:
                env_.pop(o_, None)

    # the forwarding above covers `if p is None: p = D` position-sensitively: not applied a second time
    for _ln, e_ in envs + [(10 ** 9, env_)]:
        for k_, v_ in e_.items():
            if isinstance(v_, ast.IfExp):
                none_defaults.pop(k_, None)

    def _env_at(node) -> Dict[str, ast.AST]:
        i_ = top_of.get(id(node))
        if i_ is None:
            # a node assembled here (a distributed conjunction, a negation) from original sub-expressions
            for n_ in ast.walk(node):
                if id(n_) in top_of:
                    i_ = top_of[id(n_)]
                    break
        return envs[i_][1] if i_ is not None else {}
    pm_ = parents_map(f.node)

    def loops_of(node) -> List[ast.AST]:
        chain = []
        cur = node
        while id(cur) in pm_:
            cur = pm_[id(cur)]
            if isinstance(cur, (ast.For, ast.While)):
                chain.append(cur)
            if isinstance(cur, (ast.FunctionDef, ast.Lambda)):
                break
        return list(reversed(chain))

    for r in walk_no_nested(f.node):
        if not isinstance(r, ast.Raise):
            continue
        direct = enclosing_tests(f.node, r)
        par_ = pm_.get(id(r))
        own_blk = next((getattr(par_, fld_) for fld_ in ("body", "orelse", "finalbody") if isinstance(getattr(par_, fld_, None), list) and
                        any(x_ is r for x_ in getattr(par_, fld_))), []) if par_ is not None else []
        jump_guards = []
        for sib_ in own_blk:
            if sib_ is r:
                break
            if isinstance(sib_, ast.If) and sib_.body and isinstance(sib_.body[-1], (ast.Return, ast.Continue, ast.Break)) and not sib_.orelse:
                jump_guards.append(sib_)
        if jump_guards and not (isinstance(par_, ast.If) and direct):
            # `if ok: continue` (or return / break) followed by an unconditional raise in the same block is `if not ok: raise`
            t, pol = jump_guards[-1].test, False
            tests = [(t, pol)] + [x_ for x_ in path_conditions(f.node, r) if x_[0] is not t]
        else:
            if not direct:
                continue
            t, pol = direct[0]
            holder = None
            cur_ = r
            while id(cur_) in pm_:
                cur_ = pm_[id(cur_)]
                if isinstance(cur_, ast.If) and cur_.test is t:
                    holder = cur_
                    break
            tests = [(t, pol)] + (path_conditions(f.node, holder) if holder is not None else direct[1:])
        key = (id(t), pol)
        if key in seen:
            continue
        seen.add(key)
        loop = enclosing_loop(f.node, r)
        chain = loops_of(r)
        mapping: Dict[str, str] = {}
        for depth, lp in enumerate(chain):
            if isinstance(lp, ast.For):
                tgt = lp.target
                if isinstance(lp.iter, ast.Call) and dotted(lp.iter.func) == "enumerate" and len(lp.iter.args) == 1 and isinstance(tgt, ast.Tuple) and len(tgt.elts) == 2 and \
                        isinstance(tgt.elts[0], ast.Name):
                    # for i, x in enumerate(X): x is numbered like the element of `for x in X`, i gets its own name
                    mapping[tgt.elts[0].id] = f"L{depth}_idx"
                    tgt = tgt.elts[1]
                for j, nme in enumerate([n.id for n in ast.walk(tgt) if isinstance(n, ast.Name)]):
                    mapping[nme] = f"L{depth}_{j}"
        # `for u, v, data in X.edges(data=True)`: data is X[u][v] (the loop over X.edges() that reads X[u][v] gives the same rows)
        data_alias: Dict[str, ast.AST] = {}
        for lp in chain:
            if isinstance(lp, ast.For) and isinstance(lp.iter, ast.Call) and isinstance(lp.iter.func, ast.Attribute) and lp.iter.func.attr == "edges" and \
                    any(k_.arg == "data" and isinstance(k_.value, ast.Constant) and k_.value.value is True for k_ in lp.iter.keywords) and \
                    isinstance(lp.target, ast.Tuple) and len(lp.target.elts) == 3 and all(isinstance(x_, ast.Name) for x_ in lp.target.elts):
                u_, v_, d_ = lp.target.elts
                data_alias[d_.id] = ast.Subscript(value=ast.Subscript(value=_copy.deepcopy(lp.iter.func.value), slice=ast.Name(id=u_.id, ctx=ast.Load()), ctx=ast.Load()),
                                                  slice=ast.Name(id=v_.id, ctx=ast.Load()), ctx=ast.Load())
        ldefs = {k: v for k, v in defs.items() if k not in mapping}

        def C(e, extra=None):
            m = dict(mapping)
            if extra:
                m.update(extra)
            x = substitute_locals(e, ldefs)
            if data_alias:
                x = substitute_locals(x, data_alias)
            ev_ = _env_at(e)
            if ev_:
                x = _Fwd(ev_).visit(_copy.deepcopy(x))
            if none_defaults and getattr(e, "lineno", 10 ** 9) > 0:
                x = _NoneDefault().visit(x)
            x = _SelfAlias().visit(x)
            x = Renamer(m).visit(_copy.deepcopy(x))
            return _rename_comprehensions(x)
        ctx_f = B.mk_and([B.parse_pol(C(ct), cp) for ct, cp in tests[1:]])
        # earlier `if c: raise` guards on the way are path conditions too; they are taken into the site's condition when they
        # speak about the same things as the site (so that `if a: .. elif b: .. else: raise` and a leading guard clause
        # `if not (a or b): raise` followed by `if a: .. else: ..` describe the same sites)
        own_atoms = B.atoms_of(ctx_f) | B.atoms_of(B.parse_pol(C(t), pol))
        sib_tests: List[ast.AST] = []
        cur2 = r      # (from the raise itself: an unconditional raise after `if ok: continue` sits in a block of its own)
        while id(cur2) in pm_:
            par2 = pm_[id(cur2)]
            for fld in ("body", "orelse", "finalbody"):
                blk = getattr(par2, fld, None)
                if isinstance(blk, list) and any(cur2 is s_ for s_ in blk):
                    for sib in blk:
                        if sib is cur2:
                            break
                        if isinstance(sib, ast.If) and sib.body and isinstance(sib.body[-1], ast.Raise) and not sib.orelse:
                            g = B.parse(C(sib.test))
                            if B.atoms_of(g) & own_atoms:
                                ctx_f = B.mk_and([ctx_f, B.mk_not(g)])
                        elif isinstance(sib, ast.If) and sib.body and isinstance(sib.body[-1], (ast.Continue, ast.Return, ast.Break)) and not sib.orelse:
                            # `if ok: continue` before the site: the site is reached only with `not ok`
                            ctx_f = B.mk_and([ctx_f, B.mk_not(B.parse(C(sib.test)))])
                            sib_tests.append(sib.test)
            if isinstance(par2, (ast.FunctionDef, ast.AsyncFunctionDef, ast.For, ast.While)):
                break
            cur2 = par2
        isve = raise_is_value_error(r, f.node)
        def _loop_text(lp_):
            it_ = lp_.iter
            if isinstance(it_, ast.Call) and dotted(it_.func) == "enumerate" and len(it_.args) == 1:
                it_ = it_.args[0]
            return canon_iter(C(it_))
        base_loop = _loop_text(loop) if isinstance(loop, ast.For) else (norm(C(loop.test)) if loop is not None else None)
        # `x = next((... if Q), None)` followed by `if x is not None: raise`: the quantifier is written out before the test is split
        t_split = t
        if isinstance(t, ast.Compare) and isinstance(t.left, ast.Name) and t.left.id in ldefs and isinstance(ldefs[t.left.id], ast.Call) and \
                isinstance(ldefs[t.left.id].func, ast.Name) and ldefs[t.left.id].func.id == "next":
            t_split = ast.copy_location(ast.Compare(left=ldefs[t.left.id], ops=t.ops, comparators=t.comparators), t)
        for (dt, dpol, gens) in _split_raise_test(t_split, pol):
            if gens is None:
                tf = B.parse_pol(C(dt), dpol)
                lp_txt = base_loop
                cf = ctx_f
            else:
                extra = {}
                conds = []
                depth0 = len(chain)
                lp_txt = None
                for gi, g in enumerate(gens):
                    lp_txt = canon_iter(C(g.iter, extra))
                    for j, nme in enumerate([n.id for n in ast.walk(g.target) if isinstance(n, ast.Name)]):
                        extra[nme] = f"L{depth0 + gi}_{j}"
                    conds += [B.parse(C(c, extra)) for c in g.ifs]
                tf = B.parse_pol(C(dt, extra), dpol)
                cf = B.mk_and([ctx_f] + conds)
            if tf in (B.T, B.F):
                continue
            # the site is identified by its whole raising condition (test under its path condition): `if a: ... elif b: ... else: raise`
            # and `if not (a or b): raise` are the same site
            full = B.mk_and([tf, cf])
            if not B.satisfiable(full):
                continue
            out.append({"test": B.key(full), "context": B.key(cf), "context_f": _bf_to_json(cf), "loop": lp_txt,
                        "exc": "ValueError" if isve else ("re-raise" if isve is None else "other"),
                        "_node": r, "_test": t, "_pol": pol, "_loop": loop, "_tests": tests, "_ctx": cf, "_sibs": sib_tests})
    return out


def current_sites(prog: Program) -> Dict[str, List[Dict[str, object]]]:
    tab = {}
    for f in prog.all_functions():
        if not VALIDATION_FUNCS.match(f.name):
            continue
        ss = [s for s in sites_in(f) if s["exc"] != "other" or True]
        ss = [s for s in ss if isinstance(s["_node"], ast.Raise) and raise_is_value_error(s["_node"], f.node) is not False]
        if ss:
            tab[f"{f.module.name}:{f.qualname}"] = [{k: v for k, v in s.items() if not k.startswith("_")} for s in ss]
    return tab


def current_delegations(prog: Program) -> Dict[str, List[Dict[str, object]]]:
    tab = {}
    for f in prog.all_functions():
        if f.name not in ("__init__", "create_solver_and_paths", "create_solver_and_walks", "_get_expanded_subpath_constraints_edges") and \
                not f.name.startswith("get_expanded"):
            continue
        rows = []
        for c in calls_in(f.node):
            d = dotted(c.func) or ("super().__init__" if is_super_call(c) and c.func.attr == "__init__" else None)
            if d is None:
                continue
            if d == "super().__init__" or DELEGATES.search(d):
                if any(isinstance(x, (ast.BoolOp, ast.IfExp)) and any(y is c for y in ast.walk(x)) for x in ast.walk(f.node)):
                    continue        # conditionally evaluated operand: its outcome is part of a validation *site*
                holder_stmt = None
                for st_ in walk_no_nested(f.node):
                    if isinstance(st_, ast.stmt) and not isinstance(st_, (ast.If, ast.For, ast.While, ast.With, ast.Try)) and any(y is c for y in ast.walk(st_)):
                        holder_stmt = st_
                ctx = [canon_guard(t, p) for t, p in (path_conditions(f.node, holder_stmt) if holder_stmt is not None else enclosing_tests(f.node, c))]
                lp = enclosing_loop(f.node, c)
                if lp is not None or any(isinstance(x, (ast.ListComp, ast.GeneratorExp, ast.DictComp, ast.SetComp)) and any(y is c for y in ast.walk(x))
                                         for x in ast.walk(f.node)):
                    continue        # per-element translations are C11's business
                rows.append({"callee": d, "context": ctx})
        if rows:
            tab[f"{f.module.name}:{f.qualname}"] = rows
    return tab


def load_table():
    if not os.path.exists(TABLE):
        raise AnalysisError("formulation/validation.json missing")
    return json.load(open(TABLE))


# ------------------------------------------------------------------------------------------- checking
def find_func(prog: Program, key: str) -> FuncInfo:
    mod, qn = key.split(":")
    m = prog.modules.get(mod)
    if m is None:
        raise AnalysisError(f"anchor vanished: module {mod}")
    if "." in qn:
        c, meth = qn.split(".", 1)
        if c not in m.classes or meth not in m.classes[c].methods:
            raise AnalysisError(f"anchor vanished: {key}")
        return m.classes[c].methods[meth]
    if qn not in m.functions:
        raise AnalysisError(f"anchor vanished: {key}")
    return m.functions[qn]


def check_sites(prog: Program, rep, RID: str, only_funcs=None, skip_funcs=None):
    table = load_table()["sites"]
    n = 0
    for fkey, rows in sorted(table.items()):
        if only_funcs is not None and not only_funcs(fkey):
            continue
        if skip_funcs is not None and skip_funcs(fkey):
            continue
        f = find_func(prog, fkey)
        cur = sites_in(f)
        for row in rows:
            n += 1
            key = f"{fkey.split(':')[1]}:reject[{row['test'][:70]}]"
            cands = [s for s in cur if s["test"] == row["test"] and s["loop"] == row["loop"]]
            if len(cands) > 1:
                # several raises with the same canonical test: prefer the one whose context is implied by the tabled one
                from sa import boolnf as _B0
                want0 = _bf_from_json(row["context_f"]) if "context_f" in row else _B0.T
                cands = sorted(cands, key=lambda c_: (not _B0.implies(want0, c_["_ctx"]), ))
            if not cands:
                near = [s for s in cur if set(re.findall(r"\w+", s["test"])) & set(re.findall(r"\w+", row["test"]))]
                rep.violation(RID, key, f"validation site vanished or changed: no `raise ValueError` guarded by `{row['test']}`"
                              + (f" in a loop over `{row['loop']}`" if row["loop"] else "") + f" in {f.qualname}"
                              + (f" (closest now: `{near[0]['test'][:80]}`)" if near else ""), f.loc(near[0]["_node"]) if near else f.loc())
                continue
            s = cands[0]
            if s["exc"] == "other":
                rep.violation(RID, key, "the site raises an exception other than ValueError", f.loc(s["_node"]))
                continue
            # dominance by dataflow
            ok, why = dominance(prog, f, s)
            if ok:
                rep.ok(RID, key, "rejected with ValueError on every path" + (" of every iteration" if row["loop"] else ""), f.loc(s["_node"]),
                       sample={"function": f.qualname, "test": row["test"], "context": row["context"], "loop": row["loop"]})
            else:
                rep.violation(RID, key, f"some path through {f.qualname}{' (one loop iteration)' if row['loop'] else ''} completes without evaluating "
                              f"`{row['test'][:70]}`: {why}", f.loc(s["_node"]))
    return n


def dominance(prog: Program, f: FuncInfo, site: Dict[str, object]) -> Tuple[bool, str]:
    t: ast.AST = site["_test"]
    pol: bool = site["_pol"]
    tests = site["_tests"]
    watch = {norm(a) for a in atoms_of(t)}
    for ct, cp in tests[1:]:
        watch |= {norm(a) for a in atoms_of(ct)}
    sibs = site.get("_sibs", [])
    for st_ in sibs:
        watch |= {norm(a) for a in atoms_of(st_)}
    fl = SiteFlow(prog, f, watch)
    loop = site["_loop"]
    fl.site_loop = loop
    fl.run(f.node)
    if loop is not None:
        state = fl.backs.get(id(loop))
        states = [("back edge", state)] if state is not None else []
    else:
        states = [(k, s) for k, node, s in fl.exits if s is not None]
    if not states:
        return True, "no normal exit"
    for where, state in states:
        for w in state:
            facts = facts_of(w)
            v = eval3(t, facts)
            if v is not None and v != pol:
                continue            # evaluated with the non-raising outcome
            # excused if an enclosing condition was false on this path, or an earlier `if ok: continue / return / break` of the
            # site's block was evaluated and left (the site's condition was evaluated with its non-raising outcome)
            excused = any(eval3(st_, facts) is True for st_ in sibs)
            for ct, cp in tests[1:]:
                cv = eval3(ct, facts)
                if cv is not None and cv != cp:
                    excused = True
            if excused:
                continue
            return False, f"at the {where} the outcome of the test is {'unknown' if v is None else v} (facts: { {k: facts[k] for k in list(facts)[:4]} })"
    return True, ""


class CallFlow(Flow):
    """must-call analysis: set of callee names invoked on every path (intersection at joins), with a small world split on
    the mode test so that conditional delegations can be checked."""

    def __init__(self, f: FuncInfo):
        self.f = f
        self.exits = []

    def initial(self, func):
        return frozenset([frozenset()])

    def join(self, a, b):
        u = a | b
        if len(u) > 64:
            inter = frozenset.intersection(*[frozenset(x for x in w if not x.startswith("?")) for w in u])
            return frozenset([inter])
        return u

    def _calls(self, e, state):
        names = set()
        for c in [n for n in ast.walk(e) if isinstance(n, ast.Call)]:
            d = dotted(c.func) or ("super().__init__" if is_super_call(c) and c.func.attr == "__init__" else None)
            if d:
                names.add("call:" + d)
        if names:
            state = frozenset(w | names for w in state)
        return state

    def transfer(self, stmt, state):
        for fld in ("value", "test", "iter"):
            v = getattr(stmt, fld, None)
            if isinstance(v, ast.AST):
                state = self._calls(v, state)
        return state

    def refine(self, test, pol, state):
        state = self._calls(test, state)
        g = canon_guard(test, pol)
        ng = canon_guard(test, not pol)
        # a world that already passed the same test with the other outcome cannot take this branch
        # (attributes tested by validation code are not re-bound between the tests)
        return frozenset(w | {"?" + g} for w in state if ("?" + ng) not in w)

    def bind_for(self, stmt, state):
        return self._calls(stmt.iter, state)

    def on_return(self, stmt, state):
        self.record(self.exits, state)

    def on_fallthrough(self, func, state):
        self.record(self.exits, state)


def check_delegations(prog: Program, rep, RID: str):
    table = load_table()["delegations"]
    n = 0
    for fkey, rows in sorted(table.items()):
        f = find_func(prog, fkey)
        fl = CallFlow(f)
        fl.run(f.node)
        for row in rows:
            n += 1
            key = f"{fkey.split(':')[1]}:delegates[{row['callee']}]" + (f"@{'&'.join(row['context'])[:40]}" if row["context"] else "")
            bad = None
            for state in fl.exits:
                for w in state:
                    conds = {x[1:] for x in w if x.startswith("?")}
                    # the delegation is required on paths where all its context conditions held
                    if all(c in conds for c in row["context"]):
                        if ("call:" + row["callee"]) not in w:
                            bad = sorted(conds)[:3]
            if bad is None:
                rep.ok(RID, key, "delegate is called on every normal path" + (" of that branch" if row["context"] else ""), f.loc(),
                       sample={"function": f.qualname, "delegate": row["callee"], "context": row["context"]})
            else:
                rep.violation(RID, key, f"{f.qualname} can complete without calling `{row['callee']}`"
                              + (f" although {row['context']} holds" if row["context"] else "")
                              + ": the checks that delegate performs (string nodes / acyclicity / membership / non-negative weights / constraint shape) are skipped",
                              f.loc())
    return n
