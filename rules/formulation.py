"""Formulation conformance (MIR vs the frozen formulation table) and table-free semantic rules V2/V3."""
from __future__ import annotations

import ast
import json
import os
from typing import Dict, List, Optional, Set, Tuple

from sa.pm import Program, FuncInfo, ClassInfo, AnalysisError, norm
from sa.mir import extract, canon_effect, var_families, Effect
from formulation.serves import serves

HERE = os.path.dirname(os.path.dirname(os.path.abspath(__file__)))
TABLE = os.path.join(HERE, "formulation", "table.json")
HELPER_PARAMS = {"binary_var", "continuous_var", "product_var", "integer_var", "x", "y"}


def class_var_names(prog: Program, cls: ClassInfo, effs: List[Effect]) -> Set[str]:
    names = set(var_families(prog, cls))
    names |= {e.target for e in effs if e.kind == "add_variables" and e.target}
    if cls.name == "SolverWrapper":
        names |= HELPER_PARAMS
    return names


def fid_of(c: Dict[str, object]) -> str:
    k = c["kind"]
    if k == "add_constraint":
        return f"{k}:{c.get('_name', '')}"
    if k == "add_variables":
        return f"{k}:{c.get('family')}"
    if k == "flag":
        return f"{k}:{c.get('flag')}"
    if k in ("add_binary_continuous_product_constraint", "add_integer_continuous_product_constraint"):
        return f"{k}:{c.get('product_var')}"
    if k == "add_piecewise_constant_constraint":
        return f"{k}:{c.get('y')}"
    if k.startswith("queue") or k == "fix_variable":
        return f"{k}:{c.get('var')}"
    return k


def public(c: Dict[str, object]) -> Dict[str, object]:
    return {k: v for k, v in c.items() if not k.startswith("_")}


_CACHE: Dict[tuple, List[Dict[str, object]]] = {}


def method_effects(prog: Program, cls: ClassInfo, f: FuncInfo) -> List[Dict[str, object]]:
    ck = (id(prog), cls.name, f.module.name, f.qualname)
    if ck in _CACHE:
        return _CACHE[ck]
    out = _method_effects(prog, cls, f)
    _CACHE[ck] = out
    return out


def _method_effects(prog: Program, cls: ClassInfo, f: FuncInfo) -> List[Dict[str, object]]:
    effs = extract(prog, f)
    names = class_var_names(prog, cls, effs)
    out = []
    for e in effs:
        c = canon_effect(e, names)
        c["_line"] = e.lineno
        c["_fid"] = fid_of(c)
        out.append(c)
    return out


def current_table(prog: Program) -> Dict[str, List[Dict[str, object]]]:
    tab: Dict[str, List[Dict[str, object]]] = {}
    for cls in prog.all_classes():
        for f in cls.methods.values():
            effs = method_effects(prog, cls, f)
            if not effs:
                continue
            rows = []
            for c in effs:
                row = public(c)
                row["id"] = c["_fid"]
                row["serves"] = serves(cls.name, f.name, c["_fid"])
                rows.append(row)
            tab[f"{cls.name}.{f.name}"] = rows
    return tab


def load_table() -> Dict[str, List[Dict[str, object]]]:
    if not os.path.exists(TABLE):
        raise AnalysisError("formulation/table.json missing")
    return json.load(open(TABLE))


def sig(row: Dict[str, object]) -> str:
    return json.dumps({k: v for k, v in row.items() if k not in ("id", "serves") and not k.startswith("_")}, sort_keys=True)


def conformance(prog: Program, rep, RID: str, pid: str, floor_note: str = ""):
    """Every tabled effect serving `pid` must be present in the current tree with an equal canonical form (relation,
    normal form, quantifier domain, guards, bounds).  Un-tabled extra effects are listed as notes."""
    table = load_table()
    n = 0
    for mkey, rows in sorted(table.items()):
        mine = [r for r in rows if pid in r.get("serves", [])]
        if not mine:
            continue
        cname, mname = mkey.split(".", 1)
        cls = prog.cls(cname)
        if mname not in cls.methods:
            raise AnalysisError(f"anchor vanished: encoder {mkey} (tabled formulation cannot be located)")
        f = cls.methods[mname]
        cur = method_effects(prog, cls, f)
        cur_sigs: Dict[str, List[Dict[str, object]]] = {}
        for c in cur:
            cur_sigs.setdefault(sig(c), []).append(c)
        used = set()
        for r in mine:
            n += 1
            s = sig(r)
            hit = None
            for c in cur_sigs.get(s, []):
                if id(c) not in used:
                    hit = c
                    break
            key = f"{mkey}:{r['id']}"
            if hit is not None:
                used.add(id(hit))
                rep.ok(RID, key, "present with equal normal form", f"{f.module.relpath}:{hit['_line']}",
                       sample={"family": r["id"], "quant": r.get("quant"), "guards": r.get("guards"),
                               "nf": r.get("nf", {k: v for k, v in r.items() if k not in ('id', 'serves', 'quant', 'guards', 'kind')})})
            else:
                # closest current effect of the same kind for the report
                near = [c for c in cur if c["kind"] == r["kind"] and id(c) not in used and c["_fid"] == r["id"]]
                if not near:
                    near = [c for c in cur if c["kind"] == r["kind"] and id(c) not in used and sig(c) not in {sig(x) for x in rows}]
                msg = f"tabled {r['kind']} `{r['id']}` not found with its normal form. expected: {describe_row(r)}"
                loc = f.loc()
                if near:
                    msg += f" || closest in code: {describe_row(public(near[0]))}"
                    loc = f"{f.module.relpath}:{near[0]['_line']}"
                else:
                    msg += " || no candidate left in the method (row removed?)"
                rep.violation(RID, key, msg[:900], loc)
        table_sigs = {sig(r) for r in rows}
        for c in cur:
            if sig(c) not in table_sigs:
                rep.note(f"{mkey}: effect not in the formulation table (not judged): line {c['_line']} {describe_row(public(c))[:200]}")
    if n == 0:
        raise AnalysisError(f"no tabled effect serves {pid}")


def describe_row(r: Dict[str, object]) -> str:
    parts = []
    if r.get("quant"):
        parts.append("forall " + " & ".join(r["quant"]))
    if r.get("guards"):
        parts.append("if " + " & ".join(r["guards"]))
    rest = {k: v for k, v in r.items() if k not in ("kind", "quant", "guards", "id", "serves")}
    parts.append(json.dumps(rest, sort_keys=True))
    return " ".join(parts)
