"""Formulation conformance (MIR vs the frozen formulation table) and table-free semantic rules V2/V3."""
from __future__ import annotations

import ast
import json
import os
from typing import Dict, List, Optional, Set, Tuple

from sa.pm import Program, FuncInfo, ClassInfo, AnalysisError, norm
from sa.mir import extract, canon_effect, var_families, Effect
from formulation.serves import serves

HERE = os.path.dirname(os.path.dirname(os.path.abspath(__file__)))
TABLE = os.path.join(HERE, "formulation", "table.json")
HELPER_PARAMS = {"binary_var", "continuous_var", "product_var", "integer_var", "x", "y"}


def class_var_names(prog: Program, cls: ClassInfo, effs: List[Effect]) -> Set[str]:
    names = set(var_families(prog, cls))
    names |= {e.target for e in effs if e.kind == "add_variables" and e.target}
    if cls.name == "SolverWrapper":
        names |= HELPER_PARAMS
    return names


def fid_of(c: Dict[str, object]) -> str:
    k = c["kind"]
    if k == "add_constraint":
        return f"{k}:{c.get('_name', '')}"
    if k == "add_variables":
        return f"{k}:{c.get('family')}"
    if k == "flag":
        return f"{k}:{c.get('flag')}"
    if k in ("add_binary_continuous_product_constraint", "add_integer_continuous_product_constraint"):
        return f"{k}:{c.get('product_var')}"
    if k == "add_piecewise_constant_constraint":
        return f"{k}:{c.get('y')}"
    if k.startswith("queue") or k == "fix_variable":
        return f"{k}:{c.get('var')}"
    return k


def public(c: Dict[str, object]) -> Dict[str, object]:
    return {k: v for k, v in c.items() if not k.startswith("_")}


_CACHE: Dict[tuple, List[Dict[str, object]]] = {}
_TABLE_KEYS: Optional[Set[str]] = None
FREEZE_MODE = False


def table_keys() -> Set[str]:
    global _TABLE_KEYS
    if _TABLE_KEYS is None:
        _TABLE_KEYS = set(json.load(open(TABLE))) if os.path.exists(TABLE) else set()
    return _TABLE_KEYS


def _no_inline(prog: Program):
    """methods that are described on their own: tabled encoders (check mode) / every method with direct solver effects
    (freeze mode).  Calls to any other private method are followed, so that extracting a block into a helper - or moving
    rows between an encoder and a new helper - does not change the description of the encoder."""
    from sa.mir import has_direct_effects

    def f(owner: str, meth: str) -> bool:
        if f"{owner}.{meth}" in table_keys():
            return True
        if FREEZE_MODE:
            c = prog.cls(owner)
            return meth in c.methods and has_direct_effects(c.methods[meth].node)
        return False
    return f


def method_effects(prog: Program, cls: ClassInfo, f: FuncInfo) -> List[Dict[str, object]]:
    ck = (id(prog), cls.name, f.module.name, f.qualname)
    if ck in _CACHE:
        return _CACHE[ck]
    out = _method_effects(prog, cls, f)
    _CACHE[ck] = out
    return out


def _method_effects(prog: Program, cls: ClassInfo, f: FuncInfo) -> List[Dict[str, object]]:
    effs = extract(prog, f, cls=cls, no_inline=_no_inline(prog))
    names = class_var_names(prog, cls, effs)
    out = []
    for e in effs:
        c = canon_effect(e, names)
        c["_line"] = e.lineno
        c["_file"] = e.func.module.relpath if e.func is not None else f.module.relpath
        c["_fid"] = fid_of(c)
        out.append(c)
    return out


def payload_sig(pl: Dict[str, object]) -> str:
    return json.dumps({k: v for k, v in pl.items() if k not in ("id", "serves", "guard", "guards") and not k.startswith("_")}, sort_keys=True)


def case_rows(effs: List[Dict[str, object]]) -> List[Dict[str, object]]:
    """One row per distinct payload (kind, quantifier, normal form / bounds): its guard is the disjunction of the guards of
    all cases with that payload, in canonical (truth-table) form."""
    from sa import boolnf as B
    groups: Dict[str, Dict[str, object]] = {}
    order: List[str] = []
    for c in effs:
        for gf, pl in c["_cases"]:
            s_ = payload_sig(pl)
            if s_ not in groups:
                row = {k: v for k, v in pl.items() if not k.startswith("_")}
                row["_guards"] = []
                row["_line"] = c["_line"]
                row["_file"] = c.get("_file")
                row["_fid"] = fid_of({**pl, "kind": c["kind"]})
                row["_opaque"] = list(getattr(pl.get("_nf"), "opaque", []) or [])
                groups[s_] = row
                order.append(s_)
            groups[s_]["_guards"].append(gf)
    rows = []
    for s_ in order:
        r = groups[s_]
        gf = B.mk_or(r["_guards"])
        r["_guard"] = gf
        r["guard"] = B.key(gf)
        rows.append(r)
    return rows


def current_table(prog: Program) -> Dict[str, List[Dict[str, object]]]:
    tab: Dict[str, List[Dict[str, object]]] = {}
    for cls in prog.all_classes():
        for f in cls.methods.values():
            effs = method_effects(prog, cls, f)
            if not effs:
                continue
            rows = []
            for c in case_rows(effs):
                row = public(c)
                row["id"] = c["_fid"]
                row["serves"] = serves(cls.name, f.name, c["_fid"])
                rows.append(row)
            tab[f"{cls.name}.{f.name}"] = rows
    return tab


def load_table() -> Dict[str, List[Dict[str, object]]]:
    if not os.path.exists(TABLE):
        raise AnalysisError("formulation/table.json missing")
    return json.load(open(TABLE))


def sig(row: Dict[str, object]) -> str:
    return json.dumps({k: v for k, v in row.items() if k not in ("id", "serves") and not k.startswith("_")}, sort_keys=True)


def conformance(prog: Program, rep, RID: str, pid: str, floor_note: str = ""):
    """Every tabled row serving `pid` (payload = relation + linear normal form / bounds + quantifier domain; guard = the
    condition under which it is emitted) must be emitted by the current encoder - possibly through helper methods it
    calls - with the same payload under an *equivalent* guard (truth-table comparison over canonical atoms).
    Un-tabled extra effects are listed as notes."""
    from sa import boolnf as B
    table = load_table()
    n = 0
    for mkey, rows in sorted(table.items()):
        mine = [r for r in rows if pid in r.get("serves", [])]
        if not mine:
            continue
        cname, mname = mkey.split(".", 1)
        cls = prog.cls(cname)
        if mname not in cls.methods:
            raise AnalysisError(f"anchor vanished: encoder {mkey} (tabled formulation cannot be located)")
        f = cls.methods[mname]
        cur = case_rows(method_effects(prog, cls, f))
        by_payload = {payload_sig(c): c for c in cur}
        unresolved = [c for c in cur if c["_opaque"]]
        table_payloads = {payload_sig(r) for r in rows}
        for r in mine:
            n += 1
            key = f"{mkey}:{r['id']}"
            hit = by_payload.get(payload_sig(r))
            if hit is not None and hit["guard"] == r.get("guard"):
                rep.ok(RID, key, "present with equal normal form under an equivalent guard", f"{hit['_file']}:{hit['_line']}",
                       sample={"family": r["id"], "quant": r.get("quant"), "guard": r.get("guard"),
                               "nf": r.get("nf", {k: v for k, v in r.items() if k not in ('id', 'serves', 'quant', 'guard', 'kind')})})
                continue
            if hit is not None:
                rep.violation(RID, key, f"tabled {r['kind']} `{r['id']}` is emitted under a different condition. expected guard: [{r.get('guard')}]  "
                              f"|| in code: [{hit['guard']}]  (payload: {describe_row(r)[:300]})"[:900], f"{hit['_file']}:{hit['_line']}")
                continue
            # closest current effect of the same family for the report
            near = [c for c in cur if c["kind"] == r["kind"] and c["_fid"] == r["id"] and payload_sig(c) not in table_payloads]
            if not near:
                near = [c for c in cur if c["kind"] == r["kind"] and payload_sig(c) not in table_payloads]
            msg = f"tabled {r['kind']} `{r['id']}` not found with its normal form. expected: {describe_row(r)}"
            loc = f.loc()
            if near:
                msg += f" || closest in code: {describe_row(public(near[0]))}"
                loc = f"{near[0]['_file']}:{near[0]['_line']}"
            else:
                msg += " || no candidate left in the method (row removed?)"
            rs = _reshaped(r, near[0]) if near else None
            if rs:
                raise AnalysisError(f"{key}: the row is present with the same relation and coefficients, but {rs}; the normaliser cannot relate the two "
                                    "forms - review the change and extend sa/mir.py or re-freeze after confirming")
            if any(c["_opaque"] for c in near):
                raise AnalysisError(f"{key}: the candidate row in the code could not be brought to normal form ({near[0]['_opaque'][:2]}); "
                                    "review the change and extend the normaliser or re-freeze")
            rep.violation(RID, key, msg[:900], loc)
        for c in cur:
            if payload_sig(c) not in table_payloads:
                rep.note(f"{mkey}: effect not in the formulation table (not judged): line {c['_line']} {describe_row(public(c))[:200]}")
    if n == 0:
        raise AnalysisError(f"no tabled effect serves {pid}")


def _heads(texts) -> List[str]:
    """constructor heads of iteration domains: `(q0_0) in range(...)` -> 'range', `... in self.G.edges` -> 'self.G.edges'"""
    import re as _re
    out = []
    for t in texts:
        dom = t.split(" in ", 1)[1] if " in " in t else t
        m = _re.match(r"^([\w.]+)\(", dom)
        out.append(m.group(1) if m else _re.sub(r"\[.*$", "", dom))
    return sorted(out)


def _reshaped(tabled: Dict[str, object], cur: Dict[str, object]) -> Optional[str]:
    """The payload core (relation, coefficients, bounds) is the same and only the *description of where it is emitted* differs
    in a way that is not a like-for-like change: a differently constructed iteration domain (range(min(len(W), k)) vs
    zip(range(k), W)) or a differently built local collection.  A like-for-like change (range(a) vs range(b), the same number
    of parts over the same kinds of domains) is a provable difference and stays a violation."""
    import re as _re
    core = lambda r_: {k: v for k, v in r_.items() if k not in ("quant", "defs", "guard", "guards", "id", "serves") and not k.startswith("_")}
    ct, cc = core(tabled), core(cur)
    # loop-variable numbering follows the sorted domain texts: compare cores modulo the q-names
    norm_q = lambda d: _re.sub(r"q\d+_\d+", "q", json.dumps(d, sort_keys=True))
    if norm_q(ct) != norm_q(cc):
        return None
    qt, qc = list(tabled.get("quant") or []), list(cur.get("quant") or [])
    if _heads(qt) != _heads(qc):
        return f"its quantifier domains are built differently ({qt} vs {qc})"
    dt, dc = tabled.get("defs") or {}, cur.get("defs") or {}
    if set(dt) != set(dc):
        return f"the local collections it depends on differ ({sorted(dt)} vs {sorted(dc)})"
    for nm in dt:
        a, b = dt[nm], dc[nm]
        ha = sorted(_re.findall(r" in ([\w.]+)[\(\[ }]", " ".join(a) + " "))
        hb = sorted(_re.findall(r" in ([\w.]+)[\(\[ }]", " ".join(b) + " "))
        if len(a) != len(b) or ha != hb or any(p.startswith("union ") or p.startswith("stmt ") for p in b if p not in a):
            return f"the local collection `{nm}` is built in a different form"
    return None


def describe_row(r: Dict[str, object]) -> str:
    parts = []
    if r.get("quant"):
        parts.append("forall " + " & ".join(r["quant"]))
    if r.get("guard") and r.get("guard") != "TRUE":
        parts.append("if " + str(r["guard"]))
    elif r.get("guards"):
        parts.append("if " + " & ".join(r["guards"]))
    rest = {k: v for k, v in r.items() if k not in ("kind", "quant", "guards", "guard", "id", "serves")}
    parts.append(json.dumps(rest, sort_keys=True))
    return " ".join(parts)
