"""C18 - a model's result depends only on its own arguments; caller data is never mutated."""
from __future__ import annotations

import ast
from typing import Dict, List, Set, Tuple

from sa.pm import Program, FuncInfo, ClassInfo, dotted, norm, walk_no_nested, AnalysisError, calls_in
from sa.alias import AliasModel, Site, FRESH

EXPLANATION = (
    "Decides the absence of the channels through which history or the caller's objects could be affected: (R1) no mutation "
    "site (item/attribute store, in-place extend, mutating method of list/dict/set/graph) is reachable - through aliases, "
    "self attributes that hold a caller object, constructor chaining and callee summaries - on an object owned by the caller "
    "of an exported constructor, public method or public function; (R2) no mutable default argument ({} / []) is mutated, "
    "directly or after being stored into self; (R3) no runtime store into class attributes or module globals; (R4) the "
    "_remove_empty_* helpers do not mutate the solution they are given and getters return the cached solution.  "
    " (R5) `threads` is set per model but HiGHS sizes one scheduler per process: optimize() resets the scheduler when the requested count differs from the one last used; the class attribute recording that count is a tabled exception of R3 whose premise (read only in the test guarding the reset) is checked. "
    "Equality of results across histories as such is NOT decided - only that these channels are closed."
    ' (R1, round 3) `self.a += value` counts as an in-place extension of whatever self.a aliases when self.a is assigned a container in the same function.'
    ' (R5, seeds 6) every solve() of a search wrapper restarts the clock its time limit is measured against, unconditionally and before the elapsed time is read.'
    ' (R1, hunt 7) values of a shallow graph copy are replaced, never updated in place; (R5) a cached lower bound whose computation fails is reset.'
)
DECIDED = ["caller-owned graphs, option dicts, constraint and ignore lists are never written (alias + effect analysis)",
           "shared mutable defaults are never written", "no state shared between models through class attributes / globals"]
NOT_DECIDED = ["equality of results of identical constructions in different histories per se",
               "determinism of the external solver"]

# parameters whose *purpose* is to be written by the callee (documented out-parameters), with the reason
OUT_PARAMS = {"solve_statistics": "documented as the dictionary in which the model stores its solve statistics"}

# private helper -> reason why a mutation of its parameter is its contract (checked at call sites by propagation instead)
LOGGING_MODULES = {"flowpaths.utils.logging"}


def public_entry(f: FuncInfo, exported: Set[str]) -> bool:
    if f.cls is not None:
        if f.cls.name not in exported:
            return False
        return f.name == "__init__" or not f.name.startswith("_")
    # public functions: the graphutils module is exported as a whole; flowpaths.utils re-exports a few names.  The safety
    # helper modules are reached through the models (interprocedural propagation), their mutate-and-restore contract on
    # the adjacency dicts they build themselves is C06.R1's business.
    if f.name.startswith("_"):
        return False
    return f.module.name == "flowpaths.utils.graphutils"


def check(prog: Program, rep):
    am = AliasModel(prog)
    exported = {c.name for c in prog.exported_classes()}
    if len(exported) < 15:
        raise AnalysisError(f"only {len(exported)} exported classes found")
    rep.extra["alias_fixpoint_rounds"] = am.rounds
    r1_r2(prog, rep, am, exported)
    r3(prog, rep)
    r4(prog, rep, am)
    scheduler_reconciled(prog, rep)
    run_clock_restarted(prog, rep)
    no_inplace_on_shared_values(prog, rep)
    partial_cache_reset(prog, rep)


def mutable_default_params(f: FuncInfo) -> Dict[str, str]:
    out = {}
    for p, d in f.defaults().items():
        if isinstance(d, (ast.Dict, ast.List, ast.Set)) or (isinstance(d, ast.Call) and dotted(d.func) in ("dict", "list", "set")):
            out[p] = norm(d)
    return out


def r1_r2(prog, rep, am: AliasModel, exported):
    rep.rule("C18.R1", "no write to caller-owned objects (exported constructors, public methods, public functions)", floor=150)
    rep.rule("C18.R2", "mutable default arguments are never mutated (nor stored into self and mutated later)", floor=60)
    n_defaults = 0
    for f in prog.all_functions():
        s = am.get(f)
        is_entry = public_entry(f, exported)
        defaults = mutable_default_params(f)
        n_defaults += len(defaults)
        params = [p for p in f.params if not (f.cls is not None and p == f.params[0])]
        for p in params:
            sites = s.mutates.get(p, [])
            if p in OUT_PARAMS:
                sites = []
            if is_entry:
                key = f"{f.qualname}({p})"
                if sites:
                    rep.violation("C18.R1", key, f"the object passed as `{p}` may be mutated: {sites[0].text} [{sites[0].kind}]",
                                  sites[0].loc, detail=[x.__dict__ for x in sites[:5]])
                else:
                    rep.ok("C18.R1", key, "no mutation site reachable on this parameter", f.loc(), nontrivial=True)
            if p in defaults:
                key = f"{f.qualname}({p}={defaults[p]})"
                dsites = s.mutates.get(p, [])
                if dsites:
                    rep.violation("C18.R2", key, f"the shared default `{p}={defaults[p]}` may be mutated: {dsites[0].text} [{dsites[0].kind}]",
                                  dsites[0].loc)
                else:
                    rep.ok("C18.R2", key, "shared default never mutated here", f.loc())
    rep.extra["mutable_defaults_enumerated"] = n_defaults
    # attributes holding caller objects (or shared defaults) that are mutated by any method of the class
    for cls in prog.all_classes():
        holders = am.attr_holders(cls)
        meths = {}
        for c in reversed(prog.mro(cls)):
            for name, f in c.methods.items():
                meths[name] = f
        for attr, hs in sorted(holders.items()):
            msites: List[Site] = []
            for name, f in meths.items():
                msites += am.get(f).attr_mut.get(attr, [])
            for (mq, p) in sorted(hs):
                if p in OUT_PARAMS:
                    # out-parameter: writing through the attribute is its purpose; the *shared default* is R2's business
                    hf = next((f for f in meths.values() if f.qualname == mq), None)
                    if hf is not None and p in mutable_default_params(hf) and msites:
                        rep.violation("C18.R2", f"{mq}({p}={mutable_default_params(hf)[p]})->self.{attr}",
                                      f"the shared default of `{p}` is stored into self.{attr} and written later ({msites[0].text}): "
                                      f"all models constructed without `{p}` write into the same dict", msites[0].loc)
                    continue
                hf = next((f for f in meths.values() if f.qualname == mq), None)
                entry = hf is not None and (cls.name in exported) and (hf.name == "__init__" or not hf.name.startswith("_"))
                key = f"{cls.name}:self.{attr}<-{mq}({p})"
                if msites and entry:
                    rep.violation("C18.R1", key, f"self.{attr} may hold the caller's `{p}` object (from {mq}) and is mutated: "
                                  f"{msites[0].text} [{msites[0].kind}] in {msites[0].func}", msites[0].loc,
                                  detail=[x.__dict__ for x in msites[:5]])
                elif entry:
                    rep.ok("C18.R1", key, "attribute aliases a caller object but is never mutated", "", nontrivial=True)
                if hf is not None and p in mutable_default_params(hf):
                    k2 = f"{mq}({p}={mutable_default_params(hf)[p]})->self.{attr}"
                    if msites:
                        rep.violation("C18.R2", k2, f"the shared default of `{p}` is stored into self.{attr} and mutated later: {msites[0].text}", msites[0].loc)
                    else:
                        rep.ok("C18.R2", k2, "stored default never mutated", "")


# class-level attributes that mirror state the *process* holds anyway (one line of reason each; the premise is checked in the code)
MIRRORS_OF_PROCESS_STATE = {
    ("SolverWrapper.optimize", "SolverWrapper._highs_scheduler_threads"):
        "HiGHS keeps one scheduler per process; the attribute records the thread count it was last started with and is read only to decide "
        "whether the scheduler has to be reset before this model runs (which is what makes models independent of each other)",
}


def mirror_premise(prog, attr: str) -> bool:
    """every read of the mirror attribute is inside the test that guards Highs.resetGlobalScheduler"""
    reads_ok = True
    found_reset = False
    for f in prog.all_functions():
        for node in ast.walk(f.node):
            if isinstance(node, ast.If):
                guards_reset = any(isinstance(c, ast.Call) and (dotted(c.func) or "").endswith("resetGlobalScheduler") for b in node.body for c in ast.walk(b))
                if guards_reset and attr in norm(node.test):
                    found_reset = True
        reads = [n for n in ast.walk(f.node) if isinstance(n, ast.Attribute) and isinstance(n.ctx, ast.Load) and dotted(n) == attr]
        for r in reads:
            inside = any(isinstance(node, ast.If) and any(x is r for x in ast.walk(node.test)) and
                         any(isinstance(c, ast.Call) and (dotted(c.func) or "").endswith("resetGlobalScheduler") for b in node.body for c in ast.walk(b))
                         for node in ast.walk(f.node))
            if not inside:
                reads_ok = False
    return reads_ok and found_reset


def scheduler_reconciled(prog, rep):
    """`threads` is a per-model solver option, but HiGHS sizes one scheduler per process at the first run and refuses to run an
    instance that asks for another count (the wrapper then reports the model unsolved).  A wrapper that sets the option per
    instance has to reset the scheduler when the count changes - otherwise a model's result depends on models solved before."""
    rep.rule("C18.R5", "per-model solver options that HiGHS keeps per process (threads) are reconciled before each run", floor=1)
    cls = prog.cls("SolverWrapper")
    init = cls.methods["__init__"]
    sets_threads = any(isinstance(c.func, ast.Attribute) and c.func.attr == "setOptionValue" and c.args and isinstance(c.args[0], ast.Constant) and
                       c.args[0].value == "threads" for c in calls_in(init.node))
    key = "SolverWrapper:threads-vs-global-scheduler"
    if not sets_threads:
        rep.ok("C18.R5", key, "the wrapper does not set `threads` per instance", init.loc())
        return
    opt = cls.methods["optimize"]
    run = [c for c in calls_in(opt.node) if (dotted(c.func) or "") == "self.solver.optimize" or
           any(dotted(a) == "self.solver.optimize" for a in list(c.args))]
    resets = [node for node in ast.walk(opt.node) if isinstance(node, ast.If) and "threads" in norm(node.test) and
              any(isinstance(c, ast.Call) and (dotted(c.func) or "").endswith("resetGlobalScheduler") for b in node.body for c in ast.walk(b))]
    if resets and run and resets[0].lineno < min(c.lineno for c in run):
        rep.ok("C18.R5", key, f"optimize() resets the global scheduler when the requested thread count differs: `{norm(resets[0].test)[:80]}`", opt.loc(resets[0]))
    else:
        rep.violation("C18.R5", key, "SolverWrapper sets the HiGHS option `threads` per instance but never reconciles the process-wide scheduler: a model asking for another "
                      "thread count than an earlier model of the process refuses to run, the status stays kNotset and the model (or the whole search over k) comes back "
                      "unsolved - its result depends on what was solved before", init.loc())


def run_clock_restarted(prog, rep):
    """The search wrappers measure `time_limit` against a clock kept on the model (`solve_time_start`).  It is state of one run: every solve() restarts it
    unconditionally before anything reads the elapsed time - a clock that is started once per model makes a later solve() of the same, unchanged model
    stop at once with 'time limit exceeded' (returns False after an earlier True): the result of a call depends on the history of the object."""
    n = 0
    for cls in prog.all_classes():
        f = cls.methods.get("solve")
        if f is None or f.cls is not cls:
            continue
        reads = [x for x in ast.walk(f.node) if isinstance(x, ast.Attribute) and norm(x) in ("self.solve_time_elapsed", "self.solve_time_start") and isinstance(x.ctx, ast.Load)]
        stores = [st for st in ast.walk(f.node) if isinstance(st, ast.Assign) and any(norm(t) == "self.solve_time_start" for t in st.targets)]
        if not stores and not any(norm(x) == "self.solve_time_elapsed" for x in reads):
            continue
        n += 1
        key = f"{cls.name}.solve:run-clock-restarted"
        top = [st for st in f.node.body if isinstance(st, ast.Assign) and any(norm(t) == "self.solve_time_start" for t in st.targets) and
               isinstance(st.value, ast.Call) and (dotted(st.value.func) or "").endswith(("perf_counter", "time.time", "monotonic"))]
        # order by position among the top-level statements (inlined helper statements keep the helper's line numbers)
        pos_of = {}
        for i_, st_ in enumerate(f.node.body):
            for x_ in ast.walk(st_):
                pos_of[id(x_)] = i_
        read_pos = [pos_of.get(id(x), 10 ** 9) for x in reads if not any(x is t for st in stores for t in st.targets)]
        first_read = min(read_pos or [10 ** 9])
        if top and pos_of.get(id(top[0]), 10 ** 9) < first_read:
            rep.ok("C18.R5", key, "solve() restarts the clock of the run before it is read", f.loc(top[0]))
        elif stores:
            rep.violation("C18.R5", key, f"`{norm(stores[0])[:70]}` does not restart the clock on every solve() (it is conditional, or comes after the elapsed time was read): the time "
                          "limit of a later solve() of the same model is measured from an earlier run - it returns False at once after an earlier True", f.loc(stores[0]))
        else:
            rep.violation("C18.R5", key, "solve() reads the elapsed time of a clock it never starts: the time limit is measured from an earlier call", f.loc())
    if n < 4:
        raise AnalysisError(f"search wrappers with a run clock: only {n} found")


def no_inplace_on_shared_values(prog, rep):
    """`G2.add_edges_from(G.edges(data=True))` gives the copy its own attribute dictionaries but the *same value objects*.  An augmented assignment on such
    a value (`G2[u][v][attr] -= x`) is an in-place operation when the value is a mutable number (a 0-dimensional numpy array): the caller's graph changes.
    Values of the flow attribute in a scratch graph are replaced (`= old - x`), never updated in place."""
    n = 0
    for f in prog.all_functions():
        shallow = [c for c in calls_in(f.node) if isinstance(c.func, ast.Attribute) and c.func.attr in ("add_edges_from", "add_nodes_from") and c.args and
                   "data=True" in norm(c.args[0])]
        if not shallow:
            continue
        copies = {norm(c.func.value) for c in shallow}
        for a in ast.walk(f.node):
            if isinstance(a, ast.AugAssign) and isinstance(a.target, ast.Subscript):
                base = a.target
                while isinstance(base, ast.Subscript):
                    base = base.value
                if norm(base) in copies or (isinstance(base, ast.Attribute) and norm(base.value) in copies):
                    n += 1
                    rep.violation("C18.R1", f"{f.qualname}:in-place-on-shared-value", f"`{norm(a)[:80]}` updates in place a value of `{norm(base)}`, whose edges were copied with "
                                  "`add_edges_from(<edges>(data=True))`: the attribute dictionaries are new, the value objects are the caller's - for a mutable number (a "
                                  "0-dimensional numpy array) the caller's flow values are overwritten (kFlowDecomp leaves them at 0 and reports the weights [0.0, 0.0])",
                                  f.loc(a))
        ldefs_ = {st_.targets[0].id: st_.value for st_ in ast.walk(f.node) if isinstance(st_, ast.Assign) and len(st_.targets) == 1 and isinstance(st_.targets[0], ast.Name)}
        for a in ast.walk(f.node):
            # (`new = old - x; T[..] = new`: a local holding the new value is read in place)
            val_ = ldefs_.get(a.value.id, a.value) if isinstance(a, ast.Assign) and isinstance(a.value, ast.Name) else getattr(a, "value", None)
            if isinstance(a, ast.Assign) and len(a.targets) == 1 and isinstance(a.targets[0], ast.Subscript) and isinstance(val_, ast.BinOp) and \
                    norm(ldefs_.get(val_.left.id, val_.left) if isinstance(val_.left, ast.Name) else val_.left) == norm(a.targets[0]):
                base = a.targets[0]
                while isinstance(base, ast.Subscript):
                    base = base.value
                if norm(base) in copies:
                    n += 1
                    rep.ok("C18.R1", f"{f.qualname}:in-place-on-shared-value", f"`{norm(a.targets[0])[:60]}` is replaced by a new value", f.loc(a))
    if n == 0:
        raise AnalysisError("no update of a value in a shallow graph copy found (stDAG.decompose_using_max_bottleneck expected)")


def partial_cache_reset(prog, rep):
    """A method that answers from an attribute when it is set (`if self.X != None: return self.X`) and otherwise computes X in several steps, storing the
    intermediate value, leaves a *partial* value behind when a later step raises: the next call returns it as if it were finished, so a second solve() of
    the same model takes another route than the first.  Either X is stored only at the end, or the steps run inside a try whose handler resets X to None
    and re-raises."""
    n = 0
    for f in prog.all_functions():
        if f.cls is None or f.name != "get_lowerbound_k":
            continue
        guard = None
        for st in f.node.body:
            if isinstance(st, ast.If) and isinstance(st.test, ast.Compare) and len(st.test.ops) == 1 and isinstance(st.test.ops[0], (ast.NotEq, ast.IsNot)) and \
                    isinstance(st.test.comparators[0], ast.Constant) and st.test.comparators[0].value is None and norm(st.test.left).startswith("self.") and \
                    any(isinstance(b, ast.Return) and b.value is not None and norm(b.value) == norm(st.test.left) for b in st.body):
                guard = norm(st.test.left)
        if guard is None:
            continue
        n += 1
        key = f"{f.qualname}:partial-cache-reset"
        stores = [st for st in ast.walk(f.node) if isinstance(st, ast.Assign) and any(norm(t) == guard for t in st.targets)]
        calls = [c for c in calls_in(f.node) if (dotted(c.func) or "") not in ("max", "min", "len", "set", "int", "math.ceil", "math.log2", "math.isfinite", "utils.logger.info",
                                                                                 "utils.logger.debug") and not (isinstance(c.func, ast.Attribute) and c.func.attr in ("get", "union"))]
        risky = [st for st in stores if not (isinstance(st.value, ast.Constant) and st.value.value is None) and any(c.lineno > st.lineno for c in calls)]
        if not risky:
            rep.ok("C18.R5", key, f"`{guard}` is stored when the computation is finished", f.loc())
            continue
        tries = [t for t in ast.walk(f.node) if isinstance(t, ast.Try)]
        covered = True
        for st in risky:
            inside = [t for t in tries if any(x is st for b in t.body for x in ast.walk(b))]
            good = [t for t in inside if any(any(isinstance(h_st, ast.Assign) and any(norm(tt) == guard for tt in h_st.targets) and isinstance(h_st.value, ast.Constant) and
                                                    h_st.value.value is None for h_st in h.body) and any(isinstance(h_st, ast.Raise) and h_st.exc is None for h_st in h.body)
                                             for h in t.handlers)]
            later = [c for c in calls if c.lineno > st.lineno]
            if not good or not all(any(x is c for t in good for b in t.body for x in ast.walk(b)) for c in later):
                covered = False
        if covered:
            rep.ok("C18.R5", key, f"a failing step resets `{guard}` to None and re-raises", f.loc(risky[0]))
        else:
            rep.violation("C18.R5", key, f"`{norm(risky[0])[:80]}` stores an unfinished value of `{guard}` before steps that can raise, and nothing resets it: after a failed call "
                          "the next call returns the partial value (`if " + guard + " != None: return ...`) - MinFlowDecompCycles with an ignore list naming an absent edge raises "
                          "ValueError from the first solve() and returns True from the second", f.loc(risky[0]))
    if n < 2:
        raise AnalysisError(f"get_lowerbound_k with a cached bound: only {n} found")


def r3(prog, rep):
    rep.rule("C18.R3", "no runtime store into class attributes or module globals", floor=1)
    class_names = {c.name for c in prog.all_classes()}
    n = 0
    for f in prog.all_functions():
        if f.module.name in LOGGING_MODULES:
            continue
        for node in ast.walk(f.node):
            if isinstance(node, ast.Global):
                n += 1
                rep.violation("C18.R3", f"{f.qualname}:global {','.join(node.names)}", "function rebinds a module global (state shared between models)", f.loc(node))
            targets = []
            if isinstance(node, ast.Assign):
                targets = node.targets
            elif isinstance(node, (ast.AugAssign, ast.AnnAssign)):
                targets = [node.target]
            for t in targets:
                base = t
                while isinstance(base, ast.Subscript):
                    base = base.value
                if isinstance(base, ast.Attribute):
                    owner = dotted(base.value) or ""
                    last = owner.split(".")[-1]
                    if last in class_names or owner in ("cls", "type(self)", "self.__class__") or \
                            (isinstance(base.value, ast.Call) and dotted(base.value.func) == "type"):
                        n += 1
                        exc = MIRRORS_OF_PROCESS_STATE.get((f.qualname, norm(t)))
                        if exc is not None and mirror_premise(prog, norm(t)):
                            rep.ok("C18.R3", f"{f.qualname}:{norm(t)}", "tabled: " + exc, f.loc(node))
                        else:
                            rep.violation("C18.R3", f"{f.qualname}:{norm(t)}", f"runtime store into class-level state `{norm(t)}`: shared by all models", f.loc(node))
    # class-level *mutable* attributes that are mutated through an instance and never re-created per instance
    am = AliasModel(prog)
    for cls in prog.all_classes():
        for attr, val in cls.class_attrs.items():
            if not (isinstance(val, (ast.List, ast.Dict, ast.Set, ast.ListComp, ast.DictComp, ast.SetComp)) or
                    (isinstance(val, ast.Call) and dotted(val.func) in ("list", "dict", "set", "defaultdict", "collections.defaultdict", "deque"))):
                continue
            per_instance = False
            sites = []
            for c in [cls] + prog.subclasses(cls.name):
                for f in c.methods.values():
                    s_ = am.get(f)
                    if f.name == "__init__" and attr in s_.stores:
                        per_instance = True
                    sites += s_.attr_mut.get(attr, [])
            key = f"{cls.name}.{attr}:class-level-mutable"
            if sites and not per_instance:
                n += 1
                rep.violation("C18.R3", key, f"`{cls.name}.{attr}` is a class-level mutable object (`{norm(val)[:30]}`) that is mutated through instances "
                              f"({sites[0].text} in {sites[0].func}) and never re-created in __init__: all instances - hence all models - share it", sites[0].loc)
            else:
                rep.ok("C18.R3", key, "class-level mutable is never mutated through an instance" if not sites else "re-created per instance in __init__", "", nontrivial=bool(sites))
    if n == 0:
        rep.ok("C18.R3", "no-shared-state-store", f"no store into class attributes / module globals in {sum(1 for _ in prog.all_functions())} functions", "")


def r4(prog, rep, am: AliasModel):
    rep.rule("C18.R4", "_remove_empty_* helpers work on a copy; getters hand out the cached solution", floor=6)
    for cls in prog.all_classes():
        for name, f in cls.methods.items():
            if name.startswith("_remove_empty"):
                s = am.get(f)
                params = [p for p in f.params[1:]]
                bad = [(p, s.mutates[p]) for p in params if s.mutates.get(p)]
                key = f"{cls.name}.{name}"
                if bad:
                    p, sites = bad[0]
                    rep.violation("C18.R4", key, f"mutates the solution it is given (`{p}`): {sites[0].text}; the cached solution changes "
                                  "between calls of get_solution()", sites[0].loc)
                else:
                    rep.ok("C18.R4", key, "does not mutate its argument", f.loc())
        gs = cls.methods.get("get_solution")
        if gs is not None and any(isinstance(n, ast.Attribute) and n.attr == "_solution" for n in ast.walk(gs.node)):
            s = am.get(gs)
            sites = s.attr_mut.get("_solution", [])
            key = f"{cls.name}.get_solution:cache"
            if sites:
                rep.violation("C18.R4", key, f"get_solution mutates the cached solution object: {sites[0].text}", sites[0].loc)
            else:
                rep.ok("C18.R4", key, "cached solution object is not mutated by the getter", gs.loc())


def class_inputs_not_mutated(prog: Program, rep, RID: str, classes, params=("elements_to_ignore", "optimization_options", "subpath_constraints",
                                                                           "subset_constraints", "error_scaling", "additional_starts", "additional_ends")):
    """C18.R1/R2 restricted to the named classes and parameters: the object the caller passed (or the shared mutable default) is not
    written by the constructor or, through a self attribute that aliases it, by any method of the class."""
    am = AliasModel(prog)
    for cname in classes:
        cls = prog.cls(cname)
        init = prog.own_method(cname, "__init__")
        s_ = am.get(init)
        holders = am.attr_holders(cls)
        meths = {}
        for c in reversed(prog.mro(cls)):
            for name, f in c.methods.items():
                meths[name] = f
        for p_ in params:
            if p_ not in init.params:
                continue
            key = f"{cname}({p_})"
            sites = list(s_.mutates.get(p_, []))
            for attr, hs in holders.items():
                if (init.qualname, p_) in hs:
                    for name, f in meths.items():
                        sites += am.get(f).attr_mut.get(attr, [])
            if sites:
                rep.violation(RID, key, f"the caller's `{p_}` object (or its shared default) may be written: {sites[0].text} [{sites[0].kind}] in {sites[0].func} - "
                              "what one model adds is seen by every later model that receives the same object", sites[0].loc)
            else:
                rep.ok(RID, key, "never written (alias/effect analysis)", init.loc(), sample={"class": cname, "param": p_})
