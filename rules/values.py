"""Values crossing the solver boundary.

solver_value_reads     what comes back from the solver is a float near the intended value: integers are rounded (never
                       truncated), membership of a binary is decided by a threshold (never by == 1)
data_rhs_converted     what goes into a solver comparison `expr == datum` is a Python number: the solver's == rejects numpy
                       integer / float32 scalars, so caller data is converted with float() / int()
"""
from __future__ import annotations

import ast
from typing import Dict, List, Optional, Set

from sa.pm import Program, FuncInfo, dotted, norm, calls_in, kwarg, walk_no_nested, AnalysisError


def _raw_value_names(f: FuncInfo) -> Dict[str, ast.Call]:
    """local / self names bound to the result of solver.get_values(...) without binary_values=True"""
    out: Dict[str, ast.Call] = {}
    for st in ast.walk(f.node):
        if isinstance(st, ast.Assign) and len(st.targets) == 1 and isinstance(st.value, ast.Call) and \
                isinstance(st.value.func, ast.Attribute) and st.value.func.attr == "get_values":
            bv = kwarg(st.value, "binary_values")
            if isinstance(bv, ast.Constant) and bv.value is True:
                continue
            t = st.targets[0]
            nm = t.id if isinstance(t, ast.Name) else dotted(t)
            if nm:
                out[nm] = st.value
    return out


def solver_value_reads(prog: Program, rep, RID: str, classes: List[str]) -> int:
    n = 0
    for cname in classes:
        cls = prog.cls(cname)
        for f in cls.methods.values():
            raw = _raw_value_names(f)
            if not raw:
                continue

            bad = False

            def is_raw(e: ast.AST) -> bool:
                return isinstance(e, ast.Subscript) and ((isinstance(e.value, ast.Name) and e.value.id in raw) or (dotted(e.value) in raw))
            for node in ast.walk(f.node):
                # truncation: int(v) / self.weight_type(v) on a raw value
                if isinstance(node, ast.Call) and dotted(node.func) in ("int", "self.weight_type", "math.floor", "floor", "math.trunc") and \
                        len(node.args) == 1 and is_raw(node.args[0]):
                    n += 1
                    bad = True
                    rep.violation(RID, f"{cname}.{f.name}:truncation", f"`{norm(node)}` truncates a value read from the solver: an integer 1 is reported as "
                                  "0.9999999999999936 and becomes 0 (the returned generating set no longer sums to the total)", f.loc(node))
                # exact equality with a constant
                if isinstance(node, ast.Compare) and len(node.ops) == 1 and isinstance(node.ops[0], (ast.Eq, ast.NotEq)):
                    sides = [node.left, node.comparators[0]]
                    if any(is_raw(s_) for s_ in sides) and any(isinstance(s_, ast.Constant) and isinstance(s_.value, (int, float)) for s_ in sides):
                        n += 1
                        bad = True
                        rep.violation(RID, f"{cname}.{f.name}:exact-equality", f"`{norm(node)}` compares a value read from the solver with == : a chosen binary is "
                                      "reported as 0.9999999999999998 or 1.0000000000000002 and is silently left out (the returned family is not a cover)", f.loc(node))
            # what is accepted: round(), float(), thresholds
            uses = [x for x in ast.walk(f.node) if is_raw(x)]
            if uses:
                n += 1
                key = f"{cname}.{f.name}:solver-values"
                if not bad:
                    rep.ok(RID, key, f"{len(uses)} read(s) of solver values: rounded / converted with float() / compared with a threshold", f.loc())
    if n == 0:
        raise AnalysisError(f"no read of solver values found in {classes}")
    return n


def loop_or_param_names(fn) -> set:
    out = {a.arg for a in fn.args.args + fn.args.kwonlyargs}
    for lp in ast.walk(fn):
        if isinstance(lp, (ast.For, ast.comprehension)):
            out |= {n.id for n in ast.walk(lp.target) if isinstance(n, ast.Name)}
    return out


def data_rhs_converted(prog: Program, rep, RID: str, sites: Dict[str, List[str]]) -> int:
    """sites: class -> methods whose equality rows have caller data on one side"""
    from rules.common import all_local_defs
    n = 0
    for cname, methods in sites.items():
        # every method of the class is scanned (a row moved into a helper is still a row of the class)
        for mname in sorted(prog.cls(cname).methods):
            f = prog.own_method(cname, mname)
            defs = all_local_defs(f.node)
            for c in calls_in(f.node):
                if not (isinstance(c.func, ast.Attribute) and c.func.attr == "add_constraint" and c.args):
                    continue
                e = c.args[0]
                if not (isinstance(e, ast.Compare) and len(e.ops) == 1 and isinstance(e.ops[0], ast.Eq)):
                    continue
                sides = [e.left, e.comparators[0]]
                solver_side = [s_ for s_ in sides if "quicksum" in norm(s_) or "_vars[" in norm(s_)]
                data_side = [s_ for s_ in sides if s_ not in solver_side]
                if len(solver_side) != 1 or len(data_side) != 1:
                    continue
                d = data_side[0]
                seen = 0
                while isinstance(d, ast.Name) and d.id in defs and seen < 3:
                    d = defs[d.id]
                    seen += 1
                if isinstance(d, ast.Constant):
                    continue
                n += 1
                key = f"{cname}.{mname}:{norm(data_side[0])[:40]}"
                if isinstance(d, ast.Call) and dotted(d.func) in ("float", "int"):
                    rep.ok(RID, key, f"the datum of `... == {norm(data_side[0])}` is converted: `{norm(d)[:60]}`", f.loc(c))
                elif isinstance(d, (ast.Subscript, ast.Attribute)) or (isinstance(d, ast.Name) and d.id in loop_or_param_names(f.node)):
                    rep.violation(RID, key, f"the row `... == {norm(data_side[0])}` hands the caller's value `{norm(d)[:60]}` to the solver's == unconverted: a numpy integer or "
                                  "float32 scalar (flows read with numpy / pandas) raises a bare Exception('Unknown comparison.') from the constructor, although the "
                                  "error models accept the same input", f.loc(c))
                else:
                    raise AnalysisError(f"{cname}.{mname}: cannot classify the data side `{norm(d)[:80]}` of an equality row")
    if n == 0:
        raise AnalysisError(f"no equality row with caller data found in {sites}")
    return n


def generating_set_as_weights(prog: Program, rep, RID: str, cname: str) -> int:
    """The generating set is read back from a solver (float elements carry noise, e.g. -2e-14 for an unused element).  Where it is fed
    into the given-weights model as matrix coefficients, elements that are zero up to the tolerance are left out: the solver rejects
    a coefficient of that size and the exception escapes from solve()."""
    f = prog.own_method(cname, "_solve_with_given_weights")
    sites = [c for c in calls_in(f.node) if isinstance(c.func, ast.Attribute) and c.func.attr in ("update", "extend", "union") and c.args and
             ("_generating_set" in norm(c.args[0]) or "_all_subgraph_weights" in norm(c.args[0]))]
    if not sites:
        raise AnalysisError(f"{cname}._solve_with_given_weights: the generating set is not added to the given weights")
    n = 0
    for c in sites:
        n += 1
        a = c.args[0]
        key = f"{cname}._solve_with_given_weights:generating-set-noise"
        filt = [norm(cond) for comp in ast.walk(a) if isinstance(comp, (ast.GeneratorExp, ast.ListComp, ast.SetComp)) for g in comp.generators for cond in g.ifs]
        if any(re_.search(r"> ?(1e-\d+|\d*\.\d+|self\.\w*tol\w*)", t) for re_ in [__import__("re")] for t in filt):
            rep.ok(RID, key, f"elements that are zero up to the tolerance are not used as weights: `{filt[0]}`", f.loc(c))
        elif dotted(a) == "self._all_subgraph_weights":
            rep.violation(RID, f"{cname}._solve_with_given_weights:subgraph-weights-noise", "the weights of the subgraph-scanning window decompositions are added to the given "
                          "weights as they are: a greedy float decomposition leaves a path of weight 2.78e-17, HiGHS rejects the coefficient and 'Error adding constraint "
                          "to the model' escapes from solve() (use_subgraph_scanning_lowerbound with optimize_with_guessed_weights, float flows)", f.loc(c))
        elif dotted(a) == "self._generating_set":
            rep.violation(RID, key, "the float generating set is added to the given weights as the solver reported it: an unused element such as -2.02e-14 becomes a "
                          "matrix coefficient, HiGHS rejects it and 'Error adding constraint to the model' escapes from solve() (use_min_gen_set_lowerbound with "
                          "optimize_with_guessed_weights, float weights)", f.loc(c))
        else:
            raise AnalysisError(f"{cname}._solve_with_given_weights: cannot classify `{norm(a)[:80]}`")
    return n


def _mentions_ulp(e: ast.AST) -> bool:
    import re as _re
    return bool(_re.search(r"\b(ulp|spacing|epsilon|nextafter)\b", norm(e)))


def classify_guarded_comparisons(root: ast.AST):
    """Comparisons of two accumulated quantities.  Returns (guarded, unguarded):
    guarded   = [(node, exact_compare | None, other_kind, other_node)] for every `if <.is_integer() test>: A else: B` (statement or
                conditional expression): other_kind in {'ulp', 'isclose', 'exact', None}
    unguarded = [('exact' | 'isclose', node)] for == / != between sums and isclose calls outside such a guard"""
    guarded, inside = [], set()
    for n in ast.walk(root):
        if isinstance(n, (ast.If, ast.IfExp)) and "is_integer" in norm(n.test) and \
                not any(isinstance(x, (ast.GeneratorExp, ast.ListComp, ast.SetComp, ast.DictComp, ast.IfExp)) for x in ast.walk(n.test)):
            body = n.body if isinstance(n.body, list) else [n.body]
            orelse = n.orelse if isinstance(n.orelse, list) else [n.orelse]
            exact = next((c for b in body for c in ast.walk(b) if isinstance(c, ast.Compare) and len(c.ops) == 1 and isinstance(c.ops[0], (ast.Eq, ast.NotEq))), None)
            kind, onode = None, None
            for b in orelse:
                for c in ast.walk(b):
                    if isinstance(c, ast.Call) and dotted(c.func) in ("math.isclose", "isclose"):
                        kind, onode = "isclose", c
                    elif isinstance(c, ast.Compare) and len(c.ops) == 1 and isinstance(c.ops[0], (ast.LtE, ast.Lt, ast.GtE, ast.Gt)) and "abs(" in norm(c) and _mentions_ulp(c):
                        kind, onode = kind or "ulp", onode or c
                    elif isinstance(c, ast.Compare) and len(c.ops) == 1 and isinstance(c.ops[0], (ast.Eq, ast.NotEq)) and kind is None:
                        kind, onode = "exact", c
            guarded.append((n, exact, kind, onode))
            for x in ast.walk(n):
                inside.add(id(x))
    unguarded = []
    for n in ast.walk(root):
        if id(n) in inside:
            continue
        if isinstance(n, ast.Call) and dotted(n.func) in ("math.isclose", "isclose"):
            unguarded.append(("isclose", n))
    return guarded, unguarded


def float_sum_exact_compare(prog: Program, rep, RID: str, cname: str, mname: str) -> int:
    """sum(parts) == total: float parts that add up to the total as decimal numbers differ from it in the last binary digits, so `==` rejects
    them; a *fixed* tolerance (math.isclose) accepts integers that differ by one part in 1e9 and floats that differ by whole units at large
    magnitudes.  Reviewed form: exact when both sides are integral (`.is_integer()` guard), otherwise within the rounding error of the sum -
    a tolerance scaled by math.ulp of the values."""
    f = prog.own_method(cname, mname)
    n = 0
    guarded, unguarded = classify_guarded_comparisons(f.node)
    guarded = [g for g in guarded if any(isinstance(x, ast.Call) and dotted(x.func) == "sum" for x in ast.walk(f.node))]
    inside = {id(x) for g in guarded for x in ast.walk(g[0])}
    for node in ast.walk(f.node):
        if id(node) in inside:
            continue
        if isinstance(node, ast.Compare) and len(node.ops) == 1 and isinstance(node.ops[0], (ast.Eq, ast.NotEq)):
            sides = [node.left, node.comparators[0]]
            if any(isinstance(s_, ast.Call) and dotted(s_.func) == "sum" for s_ in sides) and not any(isinstance(s_, ast.Constant) for s_ in sides):
                n += 1
                rep.violation(RID, f"{cname}.{mname}:exact-sum-compare", f"`{norm(node)}` compares a sum of caller-given numbers exactly: float parts that add up to the total up "
                              "to rounding (0.1 + 0.2 + 0.3 vs 0.6, running sum vs compensated sum()) are rejected with ValueError", f.loc(node))
    for kind, c in unguarded:
        if any(isinstance(a, ast.Call) and dotted(a.func) == "sum" for a in c.args) or "sum" in norm(c):
            n += 1
            rep.violation(RID, f"{cname}.{mname}:sum-compare", f"`{norm(c)[:80]}` is the only comparison of the sum with the total: a fixed tolerance accepts integer parts that "
                          "differ from the total by one part in 1e9 (10**9 + 10**9 for the total 2 * 10**9 + 1) - the documented ValueError is not raised and a set that cannot "
                          "respect the partition is returned", f.loc(c))
    for node, exact, kind, onode in guarded:
        n += 1
        key = f"{cname}.{mname}:sum-compare"
        if exact is None:
            raise AnalysisError(f"{cname}.{mname}: the integral branch of `{norm(node.test)[:60]}` does not compare exactly")
        if kind == "ulp":
            rep.ok(RID, key, f"integral sums are compared exactly, others within the rounding error of the sum (`{norm(onode)[:70]}`)", f.loc(node))
        elif kind == "isclose":
            rep.violation(RID, key, f"non-integral sums are compared by `{norm(onode)[:70]}`: a fixed relative tolerance accepts parts that differ from the total by whole units at "
                          "large magnitudes (3000000000.5 + 3000000000.5 for the total 6000000003.0)", f.loc(onode))
        elif kind == "exact":
            rep.violation(RID, key, f"non-integral sums are compared exactly as well (`{norm(onode)[:60]}`): 0.1 + 0.2 + 0.3 is rejected for the total 0.6", f.loc(onode))
        else:
            raise AnalysisError(f"{cname}.{mname}: cannot classify the non-integral branch of `{norm(node.test)[:60]}`")
    if n == 0:
        raise AnalysisError(f"{cname}.{mname}: no comparison of a sum with the total found")
    return n


def coefficients_converted(prog: Program, rep, RID: str, classes: List[str]) -> int:
    """Caller data used as a *coefficient* of a solver variable (error scaling factor of an edge, length of an edge) is converted with
    float(): the solver multiplies by Python numbers only, a numpy integer / float32 scalar raises a bare Exception."""
    n = 0
    DATA = ("edge_error_scaling", "length_attr")

    CONTAINERS = ("self.solution_weights_superset", "self.edge_upper_bounds", "self.subset_weights")      # the caller's numbers, item by item

    def is_data(e: ast.AST) -> bool:
        if isinstance(e, ast.Subscript) and norm(e.value) in CONTAINERS:
            return True
        return isinstance(e, ast.Call) and isinstance(e.func, ast.Attribute) and e.func.attr == "get" and any(d in norm(e) for d in DATA)

    def is_var(e: ast.AST) -> bool:
        t = norm(e)
        return "_vars[" in t or "quicksum" in t
    for cname in classes:
        cls = prog.cls(cname)
        for m in cls.methods.values():
            # names bound to a raw / converted datum inside this method
            raw_names, conv_names = set(), set()
            for st in ast.walk(m.node):
                if isinstance(st, ast.Assign) and len(st.targets) == 1 and isinstance(st.targets[0], ast.Name):
                    if is_data(st.value):
                        raw_names.add(st.targets[0].id)
                    elif isinstance(st.value, ast.Call) and dotted(st.value.func) == "float" and st.value.args and is_data(st.value.args[0]):
                        conv_names.add(st.targets[0].id)
            for node in ast.walk(m.node):
                if not (isinstance(node, ast.BinOp) and isinstance(node.op, ast.Mult)):
                    continue
                for a, b in ((node.left, node.right), (node.right, node.left)):
                    if not is_var(b):
                        continue
                    raw = is_data(a) or (isinstance(a, ast.Name) and a.id in raw_names)
                    conv = (isinstance(a, ast.Call) and dotted(a.func) == "float" and a.args and is_data(a.args[0])) or (isinstance(a, ast.Name) and a.id in conv_names)
                    if raw:
                        n += 1
                        rep.violation(RID, f"{cname}.{m.name}:coefficient[{norm(a)[:40]}]", f"`{norm(node)[:90]}` multiplies a solver expression by the caller's value unconverted: a numpy "
                                      "integer / float32 scaling factor or edge length raises Exception('Unexpected parameters.') from the constructor", m.loc(node))
                    elif conv:
                        n += 1
                        rep.ok(RID, f"{cname}.{m.name}:coefficient[{norm(a)[:40]}]", "the caller's value is converted with float() before it multiplies a solver expression", m.loc(node))
    if n == 0:
        raise AnalysisError(f"no product of a solver expression with caller data found in {classes}")
    return n


def no_recursion(prog: Program, rep, RID: str, modules: List[str]) -> int:
    """The traversals of the safety machinery run over paths / dominator trees as long as the graph: a function that calls itself uses one
    Python frame per node and raises RecursionError from about 1000 nodes on (the cyclic models compute safe sequences by default)."""
    n = 0
    for f in prog.all_functions():
        if f.module.name not in modules:
            continue
        for fd in [x for x in ast.walk(f.node) if isinstance(x, ast.FunctionDef)]:
            n += 1
            calls_self = [c for c in ast.walk(fd) if isinstance(c, ast.Call) and ((isinstance(c.func, ast.Name) and c.func.id == fd.name) or
                                                                                 (isinstance(c.func, ast.Attribute) and c.func.attr == fd.name and norm(c.func.value) == "self"))]
            # a call to an inner function of the same name is not recursion; a call inside a *nested* def of another name still is
            if calls_self:
                rep.violation(RID, f"{f.qualname}:{fd.name}:recursion", f"`{fd.name}` calls itself (line {calls_self[0].lineno}): its depth is the length of a path / the height of the "
                              "dominator tree of the input graph, so a source-to-sink path of about 1000 nodes raises RecursionError in every cyclic model with default options",
                              f.loc(calls_self[0]), self_contained=True)
    if n == 0:
        raise AnalysisError(f"no function found in {modules}")
    rep.ok(RID, "traversals-iterative", f"none of the {n} functions of {', '.join(modules)} calls itself", "")
    return n


def candidate_weights_exclude_ignored(prog: Program, rep, RID: str, cname: str) -> int:
    """The guessed-weights model takes the flow values as candidate path weights; an ignored edge can carry any value (negative, NaN, a value
    no path has to explain), so only the values of non-ignored edges are candidates."""
    from rules.search import comprehension_excludes_ignored
    f = prog.own_method(cname, "_solve_with_given_weights")
    comps = [n for n in ast.walk(f.node) if isinstance(n, (ast.SetComp, ast.ListComp, ast.GeneratorExp)) and "self.flow_attr" in norm(n.elt) and
             any("self.G.edges" in norm(g.iter) for g in n.generators)]
    if not comps:
        raise AnalysisError(f"{cname}._solve_with_given_weights: the collection of the candidate weights from the flow values was not found")
    for c in comps:
        key = f"{cname}._solve_with_given_weights:candidates"
        if comprehension_excludes_ignored(c):
            rep.ok(RID, key, "candidate weights are the flow values of non-ignored edges", f.loc(c))
        else:
            rep.violation(RID, key, f"`{norm(c)[:100]}` takes the value of every edge carrying the attribute, ignored ones included: an ignored edge with the value -1 "
                          "gives a path of weight -1 (and a decomposition with fewer paths than the minimum), a NaN raises 'cannot convert float NaN to integer' from solve()",
                          f.loc(c))
    return len(comps)


def subgraph_windows_guarded(prog: Program, rep, RID: str) -> int:
    """The subgraph-scanning bound builds a MinFlowDecomp per window; a window without an edge to explain (no edge, or only ignored / unvalued
    ones) is outside the model's domain (its constructor raises, log2(0)), so such windows are skipped before the sub-model is built."""
    f = prog.own_method("MinFlowDecomp", "_get_lowerbound_with_subgraph_scanning")
    loops = [lp for lp in ast.walk(f.node) if isinstance(lp, (ast.While, ast.For))]
    n = 0
    for lp in loops:
        for c in calls_in(lp):
            if dotted(c.func) not in ("MinFlowDecomp", "mfd.MinFlowDecomp"):
                continue
            n += 1
            key = "MinFlowDecomp._get_lowerbound_with_subgraph_scanning:window-has-work"
            guards = [i for i in ast.walk(lp) if isinstance(i, ast.If) and i.lineno < c.lineno and "flow_attr" in norm(i.test) and "subgraph" in norm(i.test) and
                      (any(isinstance(x, (ast.Continue, ast.Break)) for x in ast.walk(i)) or any(x is c for x in ast.walk(i)))]
            protected = any(isinstance(t, ast.Try) and any(x is c for b in t.body for x in ast.walk(b)) for t in ast.walk(lp))
            if guards:
                rep.ok(RID, key, f"windows without a valued, non-ignored edge are skipped (`{norm(guards[0].test)[:80]}`)", f.loc(guards[0]))
            elif protected:
                rep.ok(RID, key, "the sub-model is built inside a try block", f.loc(c))
            else:
                rep.violation(RID, key, "a MinFlowDecomp is built for every window of the scan: on a window whose edges are all ignored or unvalued the sub-model raises "
                              "'math domain error' (log2(0)), on a window without edges its constructor raises ValueError - both escape from solve() of a well-formed instance",
                              f.loc(c))
    if n == 0:
        raise AnalysisError("subgraph scanning: construction of the per-window MinFlowDecomp not found")
    return n


# ---------------------------------------------------------------------------------------------------------------------------
# fixed-width arithmetic on the caller's scalars
# ---------------------------------------------------------------------------------------------------------------------------

_CONVERTERS = {"float", "int", "round", "math.ceil", "math.floor", "Fraction", "fractions.Fraction"}


# dictionaries that hold the caller's scalars as they came (kFlowDecompCycles passes the flow values as repetition bounds)
CALLER_SCALAR_DICTS = ("self.edge_upper_bounds",)


def _is_caller_scalar_read(n: ast.AST, extra_names=()) -> bool:
    if isinstance(n, ast.Subscript) and isinstance(n.ctx, ast.Load):
        s = norm(n.slice)
        if norm(n.value) in CALLER_SCALAR_DICTS:
            return True
        return "flow_attr" in s or s in ("upperbound_attr", "lowerbound_attr") or "length_attr" in s
    if isinstance(n, ast.Call) and isinstance(n.func, ast.Attribute) and n.func.attr == "get" and n.args and \
            ("flow_attr" in norm(n.args[0]) or "length_attr" in norm(n.args[0])):
        return True
    return norm(n) in extra_names


def python_arithmetic(prog: Program, rep, RID: str, funcs, why: str) -> int:
    """funcs: FuncInfo list.  Inside them, a value read from the caller's graph (`data[flow_attr]`, `.get(flow_attr, ...)`, or an attribute that
    holds the maximum of such reads) takes part in +, -, *, += or sum() only after it became a Python number (float() / int() / round() /
    weight_type() / .item()): fixed-width numpy integers wrap around silently (np.uint8 200 + 100 = 44, np.uint32 6 - 10 = 4294967292).
    A raw operand is accepted in the else-branch of `int(x) if isinstance(x, numbers.Integral) else x` (floats do not wrap)."""
    n = 0
    for f in funcs:
        par = {}
        for a in ast.walk(f.node):
            for c in ast.iter_child_nodes(a):
                par[id(c)] = a
        # attributes / locals holding max() / min() of raw reads
        derived = set()
        cls_nodes = [f.node]
        if f.cls is not None and "__init__" in f.cls.methods:
            cls_nodes.append(f.cls.methods["__init__"].node)
        for root in cls_nodes:
            for st in ast.walk(root):
                if isinstance(st, ast.Assign) and isinstance(st.value, ast.Call) and dotted(st.value.func) in ("max", "min") and \
                        any(_is_caller_scalar_read(x) for x in ast.walk(st.value)) and not any(isinstance(x, ast.Call) and (dotted(x.func) or "") in _CONVERTERS | {"self.weight_type"}
                                                                                               for x in ast.walk(st.value) if x is not st.value):
                    derived.add(norm(st.targets[0]))
        # plain local aliases of a raw read (`value = data[flow_attr]`)
        for st in ast.walk(f.node):
            if isinstance(st, ast.Assign) and len(st.targets) == 1 and isinstance(st.targets[0], ast.Name) and _is_caller_scalar_read(st.value):
                derived.add(st.targets[0].id)
        # ... unless the local is re-bound to its converted self (`v = v.item() if hasattr(v, "item") else v`, `v = float(v)`)
        for st in ast.walk(f.node):
            if isinstance(st, ast.Assign) and len(st.targets) == 1 and isinstance(st.targets[0], ast.Name) and st.targets[0].id in derived:
                v_, nm_ = st.value, st.targets[0].id
                conv = (isinstance(v_, ast.Call) and (dotted(v_.func) or "") in _CONVERTERS and len(v_.args) == 1 and norm(v_.args[0]) == nm_) or \
                       (isinstance(v_, ast.IfExp) and norm(v_.body) == nm_ + ".item()" and norm(v_.orelse) == nm_ and "hasattr(" in norm(v_.test)) or \
                       norm(v_) == nm_ + ".item()"        # (the program model writes a conditional assignment as if / else stores)
                if conv:
                    derived.discard(nm_)
        for node in ast.walk(f.node):
            if not _is_caller_scalar_read(node, derived):
                continue
            if isinstance(node, ast.Name) and not isinstance(node.ctx, ast.Load):
                continue
            if isinstance(par.get(id(node)), ast.Assign) and par[id(node)].value is node and isinstance(par[id(node)].targets[0], ast.Name):
                continue      # the alias definition itself
            if norm(node) in derived and isinstance(par.get(id(node)), ast.Assign) and node in par[id(node)].targets:
                continue
            cur, kind, arith = node, None, None
            while id(cur) in par:
                p = par[id(cur)]
                if isinstance(p, ast.Call) and ((dotted(p.func) or "") in _CONVERTERS or (isinstance(p.func, ast.Attribute) and p.func.attr in ("weight_type", "item", "is_integer"))
                                                or (dotted(p.func) or "") in ("isinstance", "hasattr", "math.isfinite", "math.isnan", "math.isclose")):
                    kind = "converted"
                    break
                if isinstance(p, ast.Attribute) and p.attr == "item" and cur is p.value:
                    kind = "converted"
                    break
                if isinstance(p, ast.IfExp) and cur is p.orelse and "isinstance" in norm(p.test) and "Integral" in norm(p.test) and norm(node) in norm(p.test):
                    cur = p
                    continue      # non-integral values: keep climbing (floats do not wrap), but remember nothing
                if isinstance(p, ast.IfExp) and cur is p.orelse and "hasattr(" in norm(p.test) and "'item'" in norm(p.test) and norm(node) in norm(p.test):
                    kind = "converted"      # `x.item() if hasattr(x, "item") else x`: a value without .item() is not a numpy scalar
                    break
                if isinstance(p, ast.IfExp) and cur is p.test:
                    kind = "test"
                    break
                if isinstance(p, ast.BinOp) and isinstance(cur, (ast.ListComp, ast.List, ast.Tuple, ast.SetComp)):
                    break      # `[...] + [0]` concatenates lists: no arithmetic on the elements
                if isinstance(p, ast.BinOp) and isinstance(p.op, (ast.Add, ast.Sub, ast.Mult)):
                    guarded = isinstance(cur, ast.IfExp) and "Integral" in norm(cur.test)
                    kind, arith = ("converted" if guarded else "raw"), p
                    break
                if isinstance(p, ast.AugAssign) and cur is p.value and isinstance(p.op, (ast.Add, ast.Sub, ast.Mult)):
                    guarded = isinstance(cur, ast.IfExp) and "Integral" in norm(cur.test)
                    kind, arith = ("converted" if guarded else "raw"), p
                    break
                if isinstance(p, ast.Call) and dotted(p.func) == "sum":
                    kind, arith = "raw", p
                    break
                if isinstance(p, (ast.GeneratorExp, ast.ListComp)) and cur is p.elt:
                    cur = p
                    continue
                if isinstance(p, (ast.stmt, ast.Compare, ast.Subscript, ast.Dict, ast.Tuple, ast.keyword, ast.Call, ast.comprehension)):
                    break
                cur = p
            if kind == "raw":
                # rows / objectives handed to the solver are built by the solver's expression classes, not by numpy arithmetic
                up, in_solver = arith, False
                while id(up) in par:
                    up = par[id(up)]
                    if isinstance(up, ast.Call) and isinstance(up.func, ast.Attribute) and up.func.attr in ("add_constraint", "set_objective", "quicksum", "add_linear_constraint"):
                        in_solver = True
                        break
                if in_solver:
                    continue
                n += 1
                rep.violation(RID, f"{f.qualname}:python-numbers:{norm(arith)[:50]}", f"`{norm(arith)[:100]}` computes with the caller's scalar `{norm(node)}` as it comes: "
                              f"a fixed-width numpy integer wraps around silently (np.uint8 200 + 100 = 44, np.uint32 6 - 10 = 4294967292) - {why}", f.loc(arith))
            elif kind == "converted":
                n += 1
                rep.ok(RID, f"{f.qualname}:python-numbers", f"`{norm(node)}` takes part in arithmetic as a Python number", f.loc(node))
    return n


def no_memoised_functions_of_caller_objects(prog: Program, rep, RID: str, modules) -> int:
    """A module-level function that takes the caller's graph (a mutable object hashed by identity) must not be memoised: functools.lru_cache /
    cache keys the answer by the graph *object*, so the verdict given for a graph is repeated after the graph was edited in place - a validator
    then accepts a flow that no longer conserves (or keeps rejecting a repaired one).  Methods of the frozen source-sink graphs are not meant
    (their receiver does not change after construction; C17.R3)."""
    n = 0
    MEMO = ("lru_cache", "cache", "functools.lru_cache", "functools.cache", "cached", "memoize", "memoized")
    for f in prog.all_functions():
        if f.module.name not in modules or f.cls is not None:
            continue
        if not isinstance(f.node, (ast.FunctionDef, ast.AsyncFunctionDef)):
            continue
        n += 1
        decos = []
        for d in f.node.decorator_list:
            t = dotted(d.func) if isinstance(d, ast.Call) else dotted(d)
            decos.append(t or norm(d))
        memo = [t for t in decos if t in MEMO or t.split(".")[-1] in ("lru_cache", "cache")]
        key = f"{f.qualname}:not-memoised"
        if memo and f.node.args.args:
            rep.violation(RID, key, f"`{f.qualname}` is memoised (`@{memo[0]}`) although it takes the caller's objects ({', '.join(a.arg for a in f.node.args.args)}): a graph "
                          "hashes by identity, so the answer computed for a graph is repeated after the graph was edited in place - a flow that conserved on first use and was "
                          "then broken is no longer rejected (and is 'solved' through the greedy route), a repaired one keeps raising ValueError", f.loc())
        elif decos and not memo and not all(t in ("staticmethod", "classmethod", "property", "overload", "typing.overload") for t in decos):
            raise AnalysisError(f"{f.qualname}: unknown decorator(s) {decos}")
        else:
            rep.ok(RID, key, "evaluated on every call", f.loc())
    if n == 0:
        raise AnalysisError(f"no module-level function found in {modules}")
    return n


def count_parameter_as_python_number(prog: Program, rep, RID: str, cname: str, attr: str, why: str) -> int:
    """`self.<attr>` of class cname holds a caller's number that later takes part in arithmetic (`<attr> + 1` bits): every store of it in
    __init__ is a converted value (`x.item()` under `hasattr(x, 'item')`, with the plain value in the else-branch only; int() / float())."""
    from rules.semantic import enclosing_tests
    f = prog.own_method(cname, "__init__")
    stores = [st for st in walk_no_nested(f.node) if isinstance(st, ast.Assign) and any(norm(t) == f"self.{attr}" for t in st.targets)]
    if not stores:
        raise AnalysisError(f"{cname}.__init__: no store of self.{attr}")
    n = 0
    for st in stores:
        n += 1
        v = st.value
        key = f"{cname}.__init__:{attr}:python-number"
        tests = [(norm(t), pol) for t, pol in enclosing_tests(f.node, st)]
        has_item = [(t, pol) for t, pol in tests if t.startswith("hasattr(") and "'item'" in t]
        if isinstance(v, ast.Call) and ((dotted(v.func) or "") in _CONVERTERS or (isinstance(v.func, ast.Attribute) and v.func.attr == "item")):
            rep.ok(RID, key, f"`{norm(v)}`", f.loc(st))
        elif isinstance(v, ast.IfExp) and "hasattr(" in norm(v.test) and norm(v.body).endswith(".item()"):
            rep.ok(RID, key, f"`{norm(v)[:80]}`", f.loc(st))
        elif has_item and not has_item[0][1] and norm(v) in has_item[0][0]:
            rep.ok(RID, key, f"`{norm(v)}` has no .item(): not a numpy scalar", f.loc(st))
        elif isinstance(v, ast.Constant):
            rep.ok(RID, key, "constant", f.loc(st))
        else:
            rep.violation(RID, key, f"`self.{attr} = {norm(v)[:60]}` keeps the caller's number in its own type: {why}", f.loc(st))
    return n


def solver_members_exist(prog: Program, rep, RID: str, classes=None) -> int:
    """Every attribute read through `self.solver.<name>` names a member of SolverWrapper (a method, a class attribute or an instance attribute some method
    of SolverWrapper stores): an unknown name raises AttributeError at run time - typically on an error path no test takes
    (`self.solver.logger.error(...)` in the 'model not solved' branch)."""
    sw = prog.cls("SolverWrapper")
    members = set(sw.methods) | set(sw.class_attrs)
    for m in sw.methods.values():
        for n in ast.walk(m.node):
            if isinstance(n, ast.Attribute) and isinstance(n.ctx, ast.Store) and isinstance(n.value, ast.Name) and n.value.id == "self":
                members.add(n.attr)
    if len(members) < 20:
        raise AnalysisError("SolverWrapper: member table implausibly small")
    n_sites = 0
    for cls in prog.all_classes():
        if classes is not None and cls.name not in classes:
            continue
        owns = any(isinstance(st, ast.Assign) and any(norm(t) == "self.solver" for t in st.targets) and
                   isinstance(st.value, ast.Call) and (dotted(st.value.func) or "").endswith("SolverWrapper")
                   for m in cls.methods.values() for st in ast.walk(m.node))
        if not owns and not any(b.name in ("AbstractPathModelDAG", "AbstractWalkModelDiGraph") for b in prog.mro(cls)):
            continue
        for m in cls.methods.values():
            bad = [n for n in ast.walk(m.node) if isinstance(n, ast.Attribute) and norm(n.value) == "self.solver" and n.attr not in members]
            reads = [n for n in ast.walk(m.node) if isinstance(n, ast.Attribute) and norm(n.value) == "self.solver"]
            if not reads:
                continue
            n_sites += 1
            key = f"{cls.name}.{m.name}:solver-members"
            if bad:
                rep.violation(RID, key, f"`self.solver.{bad[0].attr}` is read in {cls.name}.{m.name}, but SolverWrapper has no member `{bad[0].attr}`: the statement raises "
                              "AttributeError when it is reached (an error path: the caller gets AttributeError instead of the intended exception / log line)", m.loc(bad[0]),
                              self_contained=True)
            else:
                rep.ok(RID, key, f"{len(reads)} read(s) through self.solver name members of SolverWrapper", m.loc())
    if n_sites == 0:
        raise AnalysisError("no read through self.solver found")
    return n_sites


def k_as_python_int_in_rows(prog: Program, rep, RID: str, classes) -> int:
    """k is accepted as any numbers.Integral (np.int64(2) is a valid k).  Where the caller's k - self.k before it is replaced, self.original_k - is handed to the
    solver as the constant side of a row, it goes through int(): highspy takes Python numbers only (AttributeError: 'numpy.int64' object has no attribute 'index')."""
    n = 0
    for cname in classes:
        for mname in sorted(prog.cls(cname).methods):
            f = prog.own_method(cname, mname)
            for c in calls_in(f.node):
                if not (isinstance(c.func, ast.Attribute) and c.func.attr == "add_constraint" and c.args and isinstance(c.args[0], ast.Compare) and len(c.args[0].ops) == 1):
                    continue
                e = c.args[0]
                for side in (e.left, e.comparators[0]):
                    bare = isinstance(side, ast.Attribute) and norm(side) in ("self.original_k", "self.k")
                    conv = isinstance(side, ast.Call) and dotted(side.func) in ("int", "float") and len(side.args) == 1 and norm(side.args[0]) in ("self.original_k", "self.k")
                    if not (bare or conv):
                        continue
                    n += 1
                    key = f"{cname}.{mname}:k-as-python-int"
                    if conv:
                        rep.ok(RID, key, f"`{norm(side)}`", f.loc(c))
                    else:
                        rep.violation(RID, key, f"the row `{norm(e)[:80]}` hands the caller's k (`{norm(side)}`) to the solver as it came: any numbers.Integral is accepted as k, and with "
                                      "k=np.int64(2) (and a solution_weights_superset) the constructor raises AttributeError(\"'numpy.int64' object has no attribute 'index'\") "
                                      "although k=2 is solved", f.loc(c))
    if n == 0:
        raise AnalysisError(f"no row with the caller's k as constant side found in {classes}")
    return n


def scaling_factors_converted_in_readers(prog: Program, rep, RID: str, sites) -> int:
    """sites: [(class, method)].  Where a published objective / a validity check is recomputed from the caller's error scaling factors, the factor is
    float(factor) - the conversion the model's own objective applies.  A raw np.float32 factor makes the product float32 (24-bit: 40000002 * 0.5 is reported
    as 2e+07 and the model's own optimum can fail its validity check), a Decimal factor raises TypeError."""
    n = 0
    for cname, mname in sites:
        f = prog.own_method(cname, mname)
        for node in ast.walk(f.node):
            if not (isinstance(node, ast.BinOp) and isinstance(node.op, ast.Mult)):
                continue
            for o in (node.left, node.right):
                raw = isinstance(o, ast.Call) and isinstance(o.func, ast.Attribute) and o.func.attr == "get" and "edge_error_scaling" in norm(o.func.value)
                conv = isinstance(o, ast.Call) and dotted(o.func) == "float" and len(o.args) == 1 and "edge_error_scaling" in norm(o.args[0])
                if isinstance(o, ast.Subscript) and "edge_error_scaling" in norm(o.value):
                    raw = True
                if not (raw or conv):
                    continue
                n += 1
                key = f"{cname}.{mname}:scaling-factor-as-float"
                if conv:
                    rep.ok(RID, key, f"`{norm(o)[:60]}`", f.loc(node))
                else:
                    rep.violation(RID, key, f"`{norm(node)[:90]}` multiplies by the caller's scaling factor as it came, while the objective of the model uses float(factor): with "
                                  "np.float32(0.5) the product is float32 (40000002 * 0.5 is reported as 2e+07; 100001.3 * np.float32(0.3) fails the model's own validity check), "
                                  "a Decimal factor raises TypeError from solve()", f.loc(node))
    if n == 0:
        raise AnalysisError(f"no product with an error scaling factor found in {sites}")
    return n
