"""C11 - node-weighted solving equals solving the explicitly node-expanded instance.

Equality of status/objective with the explicit expansion is an optimisation statement: not decidable statically.  Decided: the
plumbing without which the two instances are not the same instance.
"""
from __future__ import annotations

import ast
import re
from fractions import Fraction
from typing import Dict, List, Optional, Set

from sa.pm import Program, FuncInfo, ClassInfo, dotted, norm, calls_in, walk_no_nested, AnalysisError, kwarg, is_super_call
from sa.poly import Poly, to_poly
from rules import ns
from rules.common import stores_to_self_attr
from rules.semantic import enclosing_tests

EXPLANATION = (
    "Decides: (R1) node-mode results are condensed before they are published (shared with C01.R4); (R2) in the node branch of every "
    "node-capable constructor each user-level element parameter (constraints, ignore list, additional starts/ends, error scaling, "
    "trusted edges) is translated by its get_expanded_* translator, and the s-t graph / base-class constructor / sub-model never "
    "receives the raw parameter; (R3) the naming scheme of the expansion agrees between writer and reader: 'v.0','v.1' suffixes, "
    "(u,v) -> (u.1, v.0), starts map to the .0 endpoint and ends to the .1 endpoint, the reader strips exactly the suffix length with "
    "step 2, edge-list constraints get the head node of their *last* edge, every original-edge copy and every node without the "
    "(R5) the searches over k of the node-capable wrappers are bounded by the size of the model graph (the expanded one), not of the caller's graph.  "
    " (R6) node mode keeps what the expansion needs: the fill flag accompanies additional starts / ends, the ignore list of the expansion is never replaced, and single-node routes survive the remove-empty filters (C10.R8, C01.R5). "
    " (R6, extended) node_length_attr reaches every node expansion of a class with length_attr; percentiles exclude the ignored edges between expanded nodes. "
    "attribute is appended to the ignore list; (R4) no `+` between an int-returning builtin and a str.  NOT decided: equality of "
    "solved status and objective with the explicit expansion."
    " (R6, round 3) the fill-in network connects the super source / sink to the expansion's global source / sink."
    " (R3, round 4) character-set stripping (rstrip / strip / replace) is a decoder that differs from the writer's naming scheme; (R6) the factor-0 rule (C10.R3) on the translated elements."
    ' (R6, hunt 4) the expansion copies attribute dictionaries as data (update), not as keyword arguments; C04.R5 cap provider.'
    ' (R6, hunt 5) attribute dictionaries are copied as data package-wide, not only in NodeExpandedDiGraph (window subgraphs of MinFlowDecomp).'
)
DECIDED = ["results expressed in original node names", "every node-level input is translated to the expanded namespace",
           "expand/condense naming scheme agrees", "nodes lacking the attribute are ignored"]
NOT_DECIDED = ["equal solved status and optimal objective in node mode vs explicit expansion"]

TRANSLATORS = {
    "subpath_constraints": "get_expanded_subpath_constraints",
    "subset_constraints": "get_expanded_subpath_constraints",
    "additional_starts": "get_expanded_additional_starts",
    "additional_ends": "get_expanded_additional_ends",
    "elements_to_ignore": "get_expanded_edge",
    "error_scaling": "get_expanded_edge",
    "trusted_edges_for_safety": "get_expanded_edge",
}
# parameters that NodeExpandedDiGraph's own constructor translates when they are handed to it
CTOR_TRANSLATED = {"additional_starts", "additional_ends"}


def node_capable(prog: Program):
    for cls in prog.all_classes():
        init = cls.methods.get("__init__")
        if init is None:
            continue
        mode = [a for a in ("flow_attr_origin", "cover_type") if stores_to_self_attr(init.node, a)]
        if mode and stores_to_self_attr(init.node, "G_internal"):
            yield cls, init, mode[0]


def translation_rule(prog: Program, rep, RID: str):
    n = 0
    for cls, init, mode in node_capable(prog):
        params = [p for p in init.params if p in TRANSLATORS]
        node_branch = None
        for st in walk_no_nested(init.node):
            if isinstance(st, ast.If) and re.fullmatch(r"self\.%s == 'node'" % mode, norm(st.test)):
                node_branch = st
                break
        if node_branch is None:
            raise AnalysisError(f"{cls.name}.__init__: node branch not found")
        btxt = [s for s in node_branch.body]
        for p in params:
            n += 1
            tr = TRANSLATORS[p]
            hit = None
            for c in (c for s in btxt for c in calls_in(s, nested=True)):
                if isinstance(c.func, ast.Attribute) and c.func.attr == tr and (dotted(c.func.value) or "").endswith("G_internal"):
                    src = " ".join(norm(a) for a in c.args)
                    if tr == "get_expanded_edge":
                        # element-wise: the comprehension around it must iterate the parameter
                        holder = _enclosing_comp(node_branch, c)
                        if holder is not None and any(re.search(r"\b%s\b" % re.escape(p), norm(g.iter)) for g in holder.generators):
                            hit = c
                    elif re.search(r"\b%s\b" % re.escape(p), src):
                        hit = c
            ctor_ok = False
            if p in CTOR_TRANSLATED:
                for c in (c for s in btxt for c in calls_in(s)):
                    if ns.callee_class(prog, init, c) == "NodeExpandedDiGraph" and kwarg(c, p) is not None and norm(kwarg(c, p)) == p:
                        ctor_ok = True
            used_at_all = any(isinstance(x, ast.Name) and x.id == p for s in init.node.body for x in ast.walk(s))
            key = f"{cls.name}.__init__:translate({p})"
            if hit is not None or (ctor_ok and not _raw_use_outside(prog, cls, init, node_branch, p)):
                rep.ok(RID, key, f"`{p}` is translated by {tr}()" + (" / by NodeExpandedDiGraph" if ctor_ok else ""), init.loc(hit or node_branch),
                       sample={"class": cls.name, "param": p, "translator": tr})
            elif not used_at_all:
                rep.ok(RID, key, f"`{p}` is not used by this class", init.loc(), nontrivial=False)
            else:
                rep.violation(RID, key, f"in node mode `{p}` (node-level names) is never passed through {tr}(): the expanded instance is built with "
                              f"un-translated {p}", init.loc(node_branch))
        # raw parameters must not reach the s-t graph, the base class or a sub-model
        for f in cls.methods.values():
            for c in calls_in(f.node):
                cc = ns.callee_class(prog, f, c)
                is_sink = cc in ns.ST_GRAPHS or cc in ns.K_MODELS or (f is init and is_super_call(c))
                if not is_sink:
                    continue
                for a in list(c.args) + [k.value for k in c.keywords]:
                    if isinstance(a, ast.Name) and a.id in TRANSLATORS and a.id in init.params and f is init:
                        n += 1
                        rep.violation(RID, f"{cls.name}.{f.name}:raw({a.id})->{cc or 'super().__init__'}",
                                      f"the raw parameter `{a.id}` (caller's node-level names) is passed to {cc or 'super().__init__'}: in node mode the "
                                      "graph handed over is the expanded one, so the element names do not exist in it", f.loc(c))
        # self.<p> = <raw p> while an internal translation exists
        for p in params:
            internal = any(isinstance(s, ast.Assign) and any(dotted(t) == f"{p}_internal" for t in s.targets) for s in walk_no_nested(init.node))
            for st in stores_to_self_attr(init.node, p):
                if isinstance(st, ast.Assign) and isinstance(st.value, ast.Name) and st.value.id == p and internal:
                    n += 1
                    rep.violation(RID, f"{cls.name}.__init__:self.{p}=raw", f"`self.{p} = {p}` stores the un-translated parameter although `{p}_internal` "
                                  "exists: later uses (sub-model construction) see node-level names on the expanded graph", init.loc(st))
    return n


def _enclosing_comp(root: ast.AST, node: ast.AST):
    for n in ast.walk(root):
        if isinstance(n, (ast.ListComp, ast.SetComp, ast.DictComp, ast.GeneratorExp)):
            if any(x is node for x in ast.walk(n)):
                return n
    return None


def _raw_use_outside(prog, cls, init, node_branch, p) -> bool:
    return False


# ------------------------------------------------------------------------------------------ R3
def eval_cond(test: ast.AST, subst: Dict[str, Poly]) -> Optional[bool]:
    """Evaluate a test after substituting names by polynomials; None if undecided."""
    if isinstance(test, ast.BoolOp):
        vals = [eval_cond(v, subst) for v in test.values]
        if isinstance(test.op, ast.And):
            if any(v is False for v in vals):
                return False
            return True if all(v is True for v in vals) else None
        if any(v is True for v in vals):
            return True
        return False if all(v is False for v in vals) else None
    if isinstance(test, ast.UnaryOp) and isinstance(test.op, ast.Not):
        v = eval_cond(test.operand, subst)
        return None if v is None else (not v)
    if isinstance(test, ast.Compare) and len(test.ops) == 1:
        def P(e):
            return to_poly(e, atom_of=None)
        l, r = P(test.left), P(test.comparators[0])
        for name, val in subst.items():
            l, r = _subst_poly(l, name, val), _subst_poly(r, name, val)
        d = (l - r).const_value()
        if d is None:
            return None
        op = test.ops[0]
        return {ast.Eq: d == 0, ast.NotEq: d != 0, ast.Lt: d < 0, ast.LtE: d <= 0, ast.Gt: d > 0, ast.GtE: d >= 0}.get(type(op))
    return None


def _subst_poly(p: Poly, name: str, val: Poly) -> Poly:
    out = Poly()
    for m, c in p.t.items():
        term = Poly.const(c)
        for a in m:
            term = term * (val if a == name else Poly.atom(a))
        out = out + term
    return out


def naming_rule(prog: Program, rep, RID: str):
    cname = "NodeExpandedDiGraph"
    # suffix constants used by the writers
    writers = ["__init__", "get_expanded_edge", "_get_expanded_subpath_constraints_nodes", "_get_expanded_subpath_constraints_edges"]
    for m in writers:
        f = prog.own_method(cname, m)
        sfx = sorted({n.value for n in ast.walk(f.node) if isinstance(n, ast.Constant) and isinstance(n.value, str) and re.fullmatch(r"\.\d+", n.value)})
        key = f"{cname}.{m}:suffixes"
        if set(sfx) <= {".0", ".1"} and sfx:
            rep.ok(RID, key, f"suffix constants {sfx}", f.loc())
        elif not sfx:
            rep.ok(RID, key, "delegates to get_expanded_edge", f.loc(), nontrivial=False)
        else:
            rep.violation(RID, key, f"suffix constants {sfx} differ from the scheme '.0' (entry) / '.1' (exit) that get_condensed_paths decodes", f.loc())
    # get_expanded_edge: node -> (n+'.0', n+'.1'); edge -> (e[0]+'.1', e[1]+'.0')
    f = prog.own_method(cname, "get_expanded_edge")
    rets = [r for r in walk_no_nested(f.node) if isinstance(r, ast.Return) and isinstance(r.value, ast.Tuple) and len(r.value.elts) == 2]
    shapes = sorted(re.sub(r"\b(node|edge|graph_element)\b", "X", norm(r.value)) for r in rets)
    want = sorted(["(X + '.0', X + '.1')", "(X[0] + '.1', X[1] + '.0')"])
    key = f"{cname}.get_expanded_edge:mapping"
    if shapes == want:
        rep.ok(RID, key, "v -> (v.0, v.1) and (u,v) -> (u.1, v.0)", f.loc(), sample={"returns": shapes})
    else:
        rep.violation(RID, key, f"expansion mapping is {shapes}, expected {want}: expanded elements do not name the edges the constructor created", f.loc())
    # starts -> [0], ends -> [1]
    for m, idx, what in (("get_expanded_additional_starts", 0, ".0 (entry)"), ("get_expanded_additional_ends", 1, ".1 (exit)")):
        f = prog.own_method(cname, m)
        # which component of get_expanded_edge(node) reaches the result: `call[i]`, or `a, b = call` followed by a use of a / b
        used = set()
        for n in ast.walk(f.node):
            if isinstance(n, ast.Subscript) and isinstance(n.value, ast.Call) and (dotted(n.value.func) or "").endswith("get_expanded_edge") and \
                    isinstance(n.slice, ast.Constant) and isinstance(n.slice.value, int):
                used.add(n.slice.value)
            if isinstance(n, ast.Assign) and isinstance(n.value, ast.Call) and (dotted(n.value.func) or "").endswith("get_expanded_edge") and \
                    len(n.targets) == 1 and isinstance(n.targets[0], ast.Tuple) and len(n.targets[0].elts) == 2 and all(isinstance(e, ast.Name) for e in n.targets[0].elts):
                names = [e.id for e in n.targets[0].elts]
                for pos, nm_ in enumerate(names):
                    if any(isinstance(x, ast.Name) and x.id == nm_ and isinstance(x.ctx, ast.Load) for x in ast.walk(f.node)):
                        used.add(pos)
        key = f"{cname}.{m}:endpoint"
        if not used:
            raise AnalysisError(f"{cname}.{m}: cannot tell which endpoint of get_expanded_edge(node) is returned")
        if used == {idx}:
            rep.ok(RID, key, f"maps each node to its {what} endpoint", f.loc())
        else:
            rep.violation(RID, key, f"does not map each node to endpoint [{idx}] = {what} of its expanded edge: a path could "
                          f"{'start after' if idx == 0 else 'end before'} traversing the declared node", f.loc())
    # constructor wiring of additional starts/ends and ignore list: decided on the name-free list of calls of the constructor
    # (locals substituted, loop variables written as <iterable>)
    from rules.common import canonical_calls
    from sa import boolnf as B
    f = prog.own_method(cname, "__init__")
    calls = canonical_calls(f.node)
    texts = [t for t, c, ln in calls]
    V = r"<[^<>]*>"          # some loop element
    wiring = [
        ("start-wiring", r"self\.add_edges?(_from)?\(\[?\*?\(?self\.global_source_id \+ '\.1', (%s) \+ '\.0',?\)?\]?\)" % V, "global source .1 -> node.0",
         r"self\.global_source_id \+ '\.[01]', %s \+ '\.[01]'|%s \+ '\.[01]', self\.global_source_id \+ '\.[01]'" % (V, V)),
        ("end-wiring", r"self\.add_edges?(_from)?\(\[?\*?\(?(%s) \+ '\.1', self\.global_sink_id \+ '\.0',?\)?\]?\)" % V, "node.1 -> global sink .0",
         r"self\.global_sink_id \+ '\.[01]', %s \+ '\.[01]'|%s \+ '\.[01]', self\.global_sink_id \+ '\.[01]'" % (V, V)),
        ("edge-copy-ignored", r"self\._edges_to_ignore\.append\(\((<G\.predecessors\(<G\.nodes>\)>) \+ '\.1', <G\.nodes> \+ '\.0'\)\)|"
                              r"self\._edges_to_ignore\.append\(\(<G\.nodes> \+ '\.1', (<G\.successors\(<G\.nodes>\)>) \+ '\.0'\)\)|"
                              r"self\._edges_to_ignore\.append\(\((<G\.edges[^<>]*>\[0\]) \+ '\.1', <G\.edges[^<>]*>\[1\] \+ '\.0'\)\)",
         "every copy of an original edge is ignored", r"_edges_to_ignore\.(append|extend|add)\("),
    ]
    for k, pat, what, related in wiring:
        key = f"{cname}.__init__:{k}"
        hit = [t for t in texts if re.search(pat, t)]
        rel = [t for t in texts if re.search(related, t)]
        if hit:
            rep.ok(RID, key, what, f.loc(), sample={"call": hit[0][:120]})
        elif rel and k != "edge-copy-ignored":
            rep.violation(RID, key, f"the global terminal is wired as `{rel[0][:120]}`, expected: {what} (paths would enter after / leave before the declared node)", f.loc())
        elif k == "edge-copy-ignored" and any(re.search(r"self\.add_edge\(<G\.predecessors\(<G\.nodes>\)> \+ '\.1', <G\.nodes> \+ '\.0'", t) or
                                               re.search(r"self\.add_edge\(<G\.nodes> \+ '\.1', <G\.successors\(<G\.nodes>\)> \+ '\.0'", t) for t in texts):
            rep.violation(RID, key, "the copies of the original edges are created but not added to the ignore list: their (absent) weights enter the model", f.loc())
        else:
            raise AnalysisError(f"{cname}.__init__: construct not recognised ({what}); calls seen: {[t[:70] for t in texts if 'add_edge' in t or '_edges_to_ignore' in t][:6]}")
    # node without attribute -> ignored: the append of the node's own expanded edge happens exactly when the attribute is absent
    key = f"{cname}.__init__:missing-attr-ignored"
    has_attr = B.parse(ast.parse("self.node_flow_attr in G.nodes[__N__]", mode="eval").body)
    own = [(t, c) for t, c, ln in calls if re.fullmatch(r"self\._edges_to_ignore\.append\(\(<G\.nodes> \+ '\.0', <G\.nodes> \+ '\.1'\)\)", t)]
    if not own:
        if any("<G.nodes> + '.0', <G.nodes> + '.1'" in t and "add_edge" in t for t in texts):
            rep.violation(RID, key, "nodes lacking the flow attribute are not added to the ignore list", f.loc())
        else:
            raise AnalysisError(f"{cname}.__init__: expansion of the nodes not recognised")
    else:
        cond = B.mk_or([c for t, c in own])
        base = [c for t, c, ln in calls if re.match(r"self\.add_edge\(<G\.nodes> \+ '\.0', <G\.nodes> \+ '\.1'", t)]
        if not base:
            raise AnalysisError(f"{cname}.__init__: creation of the node's own expanded edge not recognised")
        lacks = [a for a in B.atoms_of(cond) if re.fullmatch(r"self\.node_flow_attr in G\.nodes\[<G\.nodes>\]", a)]
        want = B.mk_and([B.mk_or(base), B.mk_not(B.atom(lacks[0]))]) if lacks else B.F
        cond_txt = B.key(cond)
        if lacks and B.equivalent(cond, want):
            rep.ok(RID, key, "a node's expanded edge is ignored exactly when the node lacks the flow attribute", f.loc())
        else:
            rep.violation(RID, key, f"nodes lacking the flow attribute are not added to the ignore list exactly in that case (condition: {cond_txt[:120]})", f.loc())
    # reader: decoded structurally (names are free); shapes outside the recognised idiom are analysis errors, not violations
    reader_rule(prog, rep, RID, cname)
    # the translators are total: no element of the user's list is dropped on a non-raising path
    from rules.common import append_counts
    for m, per_iter, what in (("_get_expanded_subpath_constraints_nodes", {1}, "one expanded edge per constraint node"),
                              ("_get_expanded_subpath_constraints_edges", {2, 3}, "the tail node-edge and the edge itself for every constraint edge (plus the head for the last)")):
        f = prog.own_method(cname, m)
        all_for = [n for n in walk_no_nested(f.node) if isinstance(n, ast.For)]
        outer = [n for n in all_for if not any(o is not n and any(x is n for x in ast.walk(o)) for o in all_for)]
        key = f"{cname}.{m}:total"
        bad = []
        n_loops = 0
        for lp in outer:
            for acc_loop in [lp] + [n for n in ast.walk(lp) if isinstance(n, ast.For) and n is not lp]:
                accs = {dotted(c.func.value) for c in calls_in(acc_loop) if isinstance(c.func, ast.Attribute) and c.func.attr == "append" and
                        isinstance(c.func.value, ast.Name)}
                own = {a for a in accs if any(isinstance(s, ast.Expr) and isinstance(s.value, ast.Call) and isinstance(s.value.func, ast.Attribute) and
                                              s.value.func.attr == "append" and dotted(s.value.func.value) == a
                                              for s in ast.walk(acc_loop) if isinstance(s, ast.stmt) and
                                              not any(isinstance(p, ast.For) and p is not acc_loop and s in list(ast.walk(p)) for p in ast.walk(acc_loop) if p is not acc_loop))}
                for a in sorted(own):
                    prof = append_counts(acc_loop.body, a)
                    n_loops += 1
                    want = per_iter if acc_loop is not lp else {1}
                    for cnt, kind in sorted(prof):
                        if kind != "fall" or cnt not in want:
                            bad.append((acc_loop, a, cnt, kind))
        if n_loops < 2:
            raise AnalysisError(f"{cname}.{m}: accumulator loops of the translator not recognised")
        # appends to the per-constraint accumulator outside the loop over its elements (e.g. the head of the last edge handled
        # after the loop) are a different idiom: not judged here
        for lp in outer:
            inner_loops = [n for n in ast.walk(lp) if isinstance(n, ast.For) and n is not lp]
            for s_ in lp.body:
                for c in ([s_.value] if isinstance(s_, ast.Expr) and isinstance(s_.value, ast.Call) else []):
                    if isinstance(c.func, ast.Attribute) and c.func.attr == "append" and isinstance(c.func.value, ast.Name) and \
                            any(isinstance(x, ast.Expr) and isinstance(x.value, ast.Call) and isinstance(x.value.func, ast.Attribute) and x.value.func.attr == "append" and
                                dotted(x.value.func.value) == c.func.value.id for il in inner_loops for x in ast.walk(il)):
                        raise AnalysisError(f"{cname}.{m}: `{c.func.value.id}` is appended to both inside and after the loop over the constraint's elements: idiom not recognised")
                if isinstance(s_, ast.If) and any(isinstance(x, ast.Call) and isinstance(x.func, ast.Attribute) and x.func.attr == "append" for x in ast.walk(s_)) and inner_loops:
                    raise AnalysisError(f"{cname}.{m}: conditional append after the loop over the constraint's elements: idiom not recognised")
        if bad:
            lp, a, cnt, kind = bad[0]
            rep.violation(RID, key, f"a non-raising path through the loop over `{norm(lp.iter)}` leaves by `{kind}` after {cnt} append(s) to `{a}` "
                          f"(expected {what}): elements of the user's constraint are silently dropped, so the model solves a weaker problem", f.loc(lp))
        else:
            rep.ok(RID, key, f"every non-raising iteration appends {what}; no continue/break/filter", f.loc(), sample={"loops": n_loops})
    for m in ("get_expanded_additional_starts", "get_expanded_additional_ends"):
        f = prog.own_method(cname, m)
        key = f"{cname}.{m}:total"
        from sa.mir import comprehensionise as _cz
        from rules.common import all_local_defs as _ald11
        cbody = ast.Module(body=_cz(f.node.body), type_ignores=[])
        cdefs = {}
        for st_ in ast.walk(cbody):
            if isinstance(st_, ast.Assign) and len(st_.targets) == 1 and isinstance(st_.targets[0], ast.Name):
                cdefs.setdefault(st_.targets[0].id, []).append(st_.value)
        comps = []
        for r in walk_no_nested(cbody):
            if isinstance(r, ast.Return) and r.value is not None:
                v_ = r.value
                if isinstance(v_, ast.Name) and len(cdefs.get(v_.id, [])) == 1:     # `X = [...]; return X` (also: an accumulator loop written as a comprehension)
                    v_ = cdefs[v_.id][0]
                comps += [n for n in ast.walk(v_) if isinstance(n, ast.ListComp)]
        params = [a.arg for a in f.node.args.args[1:]]
        if len(comps) == 1 and len(comps[0].generators) == 1 and not comps[0].generators[0].ifs and norm(comps[0].generators[0].iter) in params:
            rep.ok(RID, key, "unfiltered comprehension over the whole user list", f.loc())
        elif len(comps) == 1 and (comps[0].generators[0].ifs or len(comps[0].generators) != 1):
            rep.violation(RID, key, f"the translation `{norm(comps[0])}` filters the user's nodes: some declared starts/ends silently do not reach the model", f.loc(comps[0]))
        else:
            raise AnalysisError(f"{cname}.{m}: return value is not one comprehension over the parameter")
    # last edge of an edge-list constraint gets its head node
    f = prog.own_method(cname, "_get_expanded_subpath_constraints_edges")
    found = False
    for lp in [n for n in walk_no_nested(f.node) if isinstance(n, ast.For)]:
        for inner in [n for n in ast.walk(lp) if isinstance(n, ast.For) and isinstance(n.iter, ast.Call) and dotted(n.iter.func) == "enumerate"]:
            i_name = norm(inner.target.elts[0])
            e_name = norm(inner.target.elts[1])
            seq = norm(inner.iter.args[0])
            for c in calls_in(inner):
                if isinstance(c.func, ast.Attribute) and c.func.attr == "append" and c.args and \
                        re.fullmatch(r"self\.get_expanded_edge\(%s\[1\]\)" % re.escape(e_name), norm(c.args[0])):
                    found = True
                    tests = enclosing_tests(inner, c)
                    key = f"{cname}._get_expanded_subpath_constraints_edges:last-head"
                    if not tests:
                        rep.violation(RID, key, "the head node of *every* edge is appended (duplicates inner nodes)", f.loc(c))
                        continue
                    L = Poly.atom(f"len({seq})")
                    at_last = all((eval_cond(t, {i_name: L - Poly.const(1)}) is True) == pol or
                                  (eval_cond(t, {i_name: L - Poly.const(1)}) is False) == (not pol) and eval_cond(t, {i_name: L - Poly.const(1)}) is not None
                                  for t, pol in tests)
                    vals = [eval_cond(t, {i_name: L - Poly.const(1)}) for t, pol in tests]
                    at_first_inner = [eval_cond(t, {i_name: L - Poly.const(2)}) for t, pol in tests]
                    if any(v is None for v in vals):
                        raise AnalysisError(f"cannot evaluate the last-edge condition `{' and '.join(norm(t) for t, _ in tests)}` at i = len-1")
                    holds_last = all(v == pol for v, (t, pol) in zip(vals, tests))
                    holds_inner = all(v == pol for v, (t, pol) in zip(at_first_inner, tests)) if all(v is not None for v in at_first_inner) else False
                    if holds_last and not holds_inner:
                        rep.ok(RID, key, "head node appended exactly for the last edge of the constraint (condition true at i = len-1, false at i = len-2)",
                               f.loc(c), sample={"condition": [norm(t) for t, _ in tests]})
                    elif not holds_last:
                        rep.violation(RID, key, f"the condition `{' and '.join(norm(t) for t, _ in tests)}` is false for the last edge (i = len-1): the "
                                      "expanded constraint loses the node-edge of its final node, so expand/condense is not the identity and "
                                      "coverage fractions are computed over the wrong length", f.loc(c))
                    else:
                        rep.violation(RID, key, "the head node is appended for inner edges as well", f.loc(c))
    if not found:
        rep.violation(RID, f"{cname}._get_expanded_subpath_constraints_edges:last-head", "the head node of the last edge is never appended", f.loc())


def _int_const(e) -> Optional[int]:
    if isinstance(e, ast.Constant) and isinstance(e.value, int) and not isinstance(e.value, bool):
        return e.value
    if isinstance(e, ast.UnaryOp) and isinstance(e.op, ast.USub) and isinstance(e.operand, ast.Constant) and isinstance(e.operand.value, int):
        return -e.operand.value
    return None


def reader_rule(prog: Program, rep, RID: str, cname: str):
    """get_condensed_paths inverts the writer's scheme [v.0, v.1, w.0, w.1, ...] -> [v, w, ...]: it visits every second entry starting
    at 0, strips exactly len('.0') characters, and drops a visited node only if it is the global source / sink."""
    from rules.common import local_single_defs, substitute_locals
    f = prog.own_method(cname, "get_condensed_paths")
    params = [a.arg for a in f.node.args.args[1:]]
    all_for = [n for n in walk_no_nested(f.node) if isinstance(n, ast.For)]
    outer = [n for n in all_for if isinstance(n.target, ast.Name) and norm(n.iter) in params]
    if len(outer) != 1:
        raise AnalysisError(f"{cname}.get_condensed_paths: loop over the paths parameter not found")
    P = outer[0].target.id
    inner = [n for n in ast.walk(outer[0]) if isinstance(n, ast.For) and n is not outer[0]]
    if len(inner) != 1:
        raise AnalysisError(f"{cname}.get_condensed_paths: expected one loop over the entries of a path, found {len(inner)}")
    lp = inner[0]
    defs = {k: v for k, v in local_single_defs(f.node).items()}
    for n in ast.walk(lp):
        if isinstance(n, ast.Assign) and len(n.targets) == 1 and isinstance(n.targets[0], ast.Name):
            nm = n.targets[0].id
            if sum(1 for m in ast.walk(f.node) if isinstance(m, (ast.Assign, ast.AugAssign)) and any(isinstance(x, ast.Name) and x.id == nm and isinstance(x.ctx, ast.Store) for x in ast.walk(m))) == 1:
                defs[nm] = n.value
    unrecognised = []
    nviol = 0
    # 1. index set
    key = f"{cname}.get_condensed_paths:reader-step"
    it = lp.iter
    if isinstance(it, ast.Call) and dotted(it.func) == "range" and isinstance(lp.target, ast.Name) and 1 <= len(it.args) <= 3:
        I = lp.target.id
        args = it.args
        start, stop, step = (ast.Constant(0), args[0], ast.Constant(1)) if len(args) == 1 else (args[0], args[1], args[2] if len(args) == 3 else ast.Constant(1))
        s0, st = _int_const(start), _int_const(step)
        stop_ok = norm(stop) in (f"len({P}) - 1", f"len({P})")
        if s0 == 0 and st == 2 and stop_ok:
            rep.ok(RID, key, "every second entry starting at index 0 (the '.0' entries)", f.loc(lp), sample={"iter": norm(it)})
        elif s0 is not None and st is not None and (s0 != 0 or st != 2):
            nviol += 1
            rep.violation(RID, key, f"reader no longer decodes the writer's scheme: `{norm(it)}` does not visit exactly the entries 0, 2, 4, ... "
                          "(every second node starting at index 0)", f.loc(lp))
        elif s0 == 0 and st == 2 and _int_const(stop) is None and re.fullmatch(r"len\(%s\) - \d+" % re.escape(P), norm(stop)):
            nviol += 1
            rep.violation(RID, key, f"reader stops at `{norm(stop)}`: the last node(s) of every path are lost", f.loc(lp))
        else:
            unrecognised.append(f"index range `{norm(it)}`")
        elem = f"{P}[{I}]"
    else:
        I = None
        elem = None
        if isinstance(it, ast.Call) and dotted(it.func) == "enumerate" and it.args and norm(it.args[0]) == P or norm(it) == P:
            # visiting every entry needs a parity / suffix selection on the append; decided under the drop rule below
            tgt = lp.target.elts[1] if isinstance(lp.target, ast.Tuple) else lp.target
            elem = norm(tgt)
            apps0 = [c for c in calls_in(lp) if isinstance(c.func, ast.Attribute) and c.func.attr == "append"]
            sel = [norm(t) for c in apps0 for t, _ in enclosing_tests(lp, c)]
            if any(re.search(r"% 2|'\.[01]'", t) for t in sel):
                raise AnalysisError(f"{cname}.get_condensed_paths: reader visits every entry and selects by `{sel}` - idiom not recognised; "
                                    "extend rules/c11.py reader_rule after reading the new code")
            nviol += 1
            rep.violation(RID, key, f"reader no longer decodes the writer's scheme: `{norm(it)}` visits every entry, not every second node starting at index 0 "
                          "(both 'v.0' and 'v.1' decode to v)", f.loc(lp))
        else:
            unrecognised.append(f"entry loop `{norm(it)}`")
    # 2. appended value and its guards
    apps = [c for c in calls_in(lp) if isinstance(c.func, ast.Attribute) and c.func.attr == "append"]
    if len(apps) != 1 or not apps[0].args:
        raise AnalysisError(f"{cname}.get_condensed_paths: expected one append per visited entry, found {len(apps)}")
    app = apps[0]
    val = substitute_locals(app.args[0], defs)
    key = f"{cname}.get_condensed_paths:reader-strip"
    N = None
    if isinstance(val, ast.Subscript) and isinstance(val.slice, ast.Slice) and val.slice.lower is None and val.slice.step is None and \
            _int_const(val.slice.upper) is not None and (elem is None or norm(substitute_locals(val.value, defs)) == elem or norm(val.value) == elem):
        N = -_int_const(val.slice.upper)
        if N == len(".0"):
            rep.ok(RID, key, "suffix stripped with its own length (len('.0') == 2)", f.loc(app), sample={"value": norm(val)})
        else:
            nviol += 1
            rep.violation(RID, key, f"reader no longer decodes the writer's scheme: `{norm(val)}` strips {N} character(s), the suffix '.0' has 2", f.loc(app))
    elif isinstance(val, ast.Call) and isinstance(val.func, ast.Attribute) and val.func.attr == "removesuffix" and len(val.args) == 1 and \
            isinstance(val.args[0], ast.Constant) and val.args[0].value == ".0":
        rep.ok(RID, key, "suffix '.0' removed as a suffix (str.removesuffix)", f.loc(app), sample={"value": norm(val)})
    elif isinstance(val, ast.Call) and isinstance(val.func, ast.Attribute) and val.func.attr in ("rstrip", "strip", "lstrip") and val.args:
        nviol += 1
        rep.violation(RID, key, f"reader no longer decodes the writer's scheme: `{norm(val)}` strips a *set of characters*, not the suffix '.0' - the entry '10.0' of node '10' "
                      "decodes to '1', so a returned route names another node (or a node that does not exist) and its consecutive elements are not edges of the graph", f.loc(app))
    elif isinstance(val, ast.Call) and isinstance(val.func, ast.Attribute) and val.func.attr == "replace" and len(val.args) >= 2 and len(val.args) < 3:
        nviol += 1
        rep.violation(RID, key, f"reader no longer decodes the writer's scheme: `{norm(val)}` removes every occurrence of the suffix text, also inside the node name "
                      "('a.0b.0' decodes to 'ab')", f.loc(app))
    else:
        unrecognised.append(f"appended value `{norm(val)}`")
    key = f"{cname}.get_condensed_paths:reader-suffix-test"
    sfx = []
    for cmp_ in [n for n in ast.walk(lp) if isinstance(n, ast.Compare) and len(n.ops) == 1 and isinstance(n.ops[0], (ast.NotEq, ast.Eq))]:
        l = substitute_locals(cmp_.left, defs)
        r = cmp_.comparators[0]
        if isinstance(l, ast.Subscript) and isinstance(l.slice, ast.Slice) and l.slice.upper is None and _int_const(l.slice.lower) is not None and \
                isinstance(r, ast.Constant) and isinstance(r.value, str):
            sfx.append((cmp_, -_int_const(l.slice.lower), r.value))
    if not sfx:
        rep.ok(RID, key, "no suffix validation in the reader (not needed for decoding)", f.loc(lp), nontrivial=False)
    for cmp_, n_, const in sfx:
        if n_ == len(const) and const == ".0":
            rep.ok(RID, key, "entry suffix test compares the last len('.0') == 2 characters with '.0'", f.loc(cmp_))
        else:
            nviol += 1
            rep.violation(RID, key, f"reader no longer decodes the writer's scheme: `{norm(cmp_)}` (entry suffix test with len('.0') == 2 against '.0')", f.loc(cmp_))
    key = f"{cname}.get_condensed_paths:reader-drop"
    acc = norm(app.func.value)
    # path-wise: an iteration that completes without appending the visited node must have established that the node is
    # the global source or sink; no iteration appends more than once; nothing leaves the loop early
    from rules.common import iteration_paths
    from sa import boolnf as B
    idefs = {k: v for k, v in defs.items()}
    for n_ in walk_no_nested(f.node):
        if isinstance(n_, ast.Assign) and len(n_.targets) == 1 and isinstance(n_.targets[0], ast.Name) and n_.targets[0].id not in idefs and \
                sum(1 for m_ in walk_no_nested(f.node) if isinstance(m_, ast.Assign) and any(isinstance(t_, ast.Name) and t_.id == n_.targets[0].id for t_ in m_.targets)) == 1:
            idefs[n_.targets[0].id] = n_.value
    mutated_ = {n_.func.value.id for n_ in ast.walk(f.node) if isinstance(n_, ast.Call) and isinstance(n_.func, ast.Attribute) and isinstance(n_.func.value, ast.Name) and
                n_.func.attr in ("append", "add", "extend", "update", "insert", "pop", "remove")}
    idefs = {k: v for k, v in idefs.items() if k not in mutated_}
    vs = norm(val)
    is_global = B.mk_or([B.parse(ast.parse(f"{vs} in [self.global_source_id, self.global_sink_id]", mode="eval").body),
                         B.parse(ast.parse(f"{vs} in [self.global_sink_id, self.global_source_id]", mode="eval").body),
                         B.parse(ast.parse(f"{vs} in (self.global_source_id, self.global_sink_id)", mode="eval").body),
                         B.parse(ast.parse(f"{vs} in {{self.global_source_id, self.global_sink_id}}", mode="eval").body),
                         B.mk_or([B.parse(ast.parse(f"{vs} == self.global_source_id", mode="eval").body), B.parse(ast.parse(f"{vs} == self.global_sink_id", mode="eval").body)])])
    paths_ = iteration_paths(lp.body, acc, idefs)
    drop = [(c, k_) for c, cnt, k_ in paths_ if cnt == 0 and not B.implies(c, is_global)]
    multi = [c for c, cnt, k_ in paths_ if cnt > 1]
    early = [k_ for c, cnt, k_ in paths_ if k_ in ("break", "return")]
    if drop:
        nviol += 1
        rep.violation(RID, key, f"an iteration can complete without appending the visited node although it is not the global source / sink (path condition: "
                      f"{B.key(drop[0][0])[:200]}): nodes can be dropped from a returned path (e.g. the second visit of a self-loop node)", f.loc(app))
    elif multi:
        nviol += 1
        rep.violation(RID, key, "an iteration can append more than one entry for one visited node", f.loc(app))
    elif early:
        nviol += 1
        rep.violation(RID, key, f"an iteration can leave the loop by `{early[0]}`: the rest of the path is lost", f.loc(lp))
    else:
        rep.ok(RID, key, "every visited node is appended exactly once unless it is the global source / sink (all non-raising paths of an iteration)", f.loc(app),
               sample={"paths": len(paths_)})
    if unrecognised and not nviol:
        raise AnalysisError(f"{cname}.get_condensed_paths: reader idiom not recognised ({'; '.join(unrecognised)}); extend rules/c11.py reader_rule after reading the new code")


def operand_types(prog: Program, rep, RID: str):
    INT_FUNCS = {"id", "len", "int", "hash", "ord"}
    n = 0
    for f in prog.all_functions():
        for b in ast.walk(f.node):
            if isinstance(b, ast.BinOp) and isinstance(b.op, ast.Add):
                for x, y in ((b.left, b.right), (b.right, b.left)):
                    if isinstance(x, ast.Call) and dotted(x.func) in INT_FUNCS and \
                            (isinstance(y, ast.JoinedStr) or (isinstance(y, ast.Constant) and isinstance(y.value, str))):
                        n += 1
                        rep.violation(RID, f"{f.qualname}:{norm(b)[:50]}", f"`{norm(b)}` adds the int result of {dotted(x.func)}() to a str: TypeError at run time",
                                      f.loc(b))
    if n == 0:
        rep.ok(RID, "no-int-plus-str", "no `+` between an int-returning builtin and a str literal in the package", "")


def check(prog: Program, rep):
    rep.rule("C11.R1", "node-mode results are condensed before they are published", floor=12)
    ns.node_results_condensed(prog, rep, "C11.R1")
    rep.rule("C11.R2", "translation completeness in the node branch of every node-capable constructor", floor=30)
    translation_rule(prog, rep, "C11.R2")
    rep.rule("C11.R3", "naming scheme agreement between expansion and condensation", floor=14)
    naming_rule(prog, rep, "C11.R3")
    rep.rule("C11.R4", "operand types of `+`", floor=1)
    operand_types(prog, rep, "C11.R4")
    rep.rule("C11.R5", "the searches over k of the node-capable wrappers are bounded by the size of the *model* graph (the expanded one in node mode), as in edge mode", floor=4)
    from rules.search import range_rule
    from rules.common import RuleProxy
    for w_ in ("MinFlowDecomp", "MinFlowDecompCycles", "MinPathCover", "MinPathCoverCycles"):
        range_rule(prog, RuleProxy(rep, "C11.R5"), "C03.R2", w_, "solve")
    rep.rule("C11.R6", "node mode keeps what the expansion needs: fill flag with additional starts / ends, ignore list only grows, single-node routes "
             "survive the remove-empty filters (C10.R8, C01.R5)", floor=12)
    from rules import plumb, ns as _ns
    from rules.common import RuleProxy
    plumb.node_expansion_fill_rule(prog, RuleProxy(rep, "C11.R6"), "C10.R8")
    plumb.ignore_list_accumulates(prog, RuleProxy(rep, "C11.R6"), "C10.R8")
    _ns.arity_rule(prog, RuleProxy(rep, "C11.R6"), "C01.R5")
    from rules.plumb import fill_in_uses_global_terminals
    fill_in_uses_global_terminals(prog, rep, "C11.R6")
    plumb.node_expansion_length_rule(prog, RuleProxy(rep, "C11.R6"), "C10.R8")
    plumb.percentile_rules(prog, RuleProxy(rep, "C11.R6"), "C10.R8")
    # node mode: the factor-0 rule has to act on the *translated* (expanded) elements (C10.R3)
    from rules.c10 import scale_zero_ignored as _szi
    _szi(prog, RuleProxy(rep, "C11.R6"), "C10.R3")
    # the expansion copies the caller's attribute dictionaries as data, not as keyword arguments
    # (package-wide: NodeExpandedDiGraph and every helper that builds a graph from the caller's one, e.g. the window subgraphs of MinFlowDecomp)
    def _attr_dict(v):
        t = norm(v)
        if isinstance(v, ast.Name):
            return t in ("data", "attrs", "attr", "attributes")
        if isinstance(v, ast.Subscript):
            return ".nodes[" in t or ".edges[" in t or (isinstance(v.value, ast.Subscript) and isinstance(v.value.value, (ast.Name, ast.Attribute)))
        return False
    _seen_ne = False
    for _f in prog.all_functions():
        _adds = [c for c in calls_in(_f.node) if isinstance(c.func, ast.Attribute) and c.func.attr in ("add_node", "add_edge", "add_nodes_from", "add_edges_from")]
        if not _adds:
            continue
        _unp = [c for c in _adds if any(k.arg is None and _attr_dict(k.value) for k in c.keywords)]
        key = f"{_f.qualname}:attributes-as-data"
        _seen_ne = _seen_ne or _f.qualname == "NodeExpandedDiGraph.__init__"
        if _unp:
            rep.violation("C11.R6", key, f"`{norm(_unp[0])[:80]}` unpacks the caller's attribute dictionary into keyword arguments: an attribute whose name is not a string "
                          "(nx.set_node_attributes(G, {...}, name=0)) or equals a parameter name of add_node / add_edge (u_of_edge, v_of_edge, node_for_adding) raises TypeError - the "
                          "node-weighted model of a valid networkx graph cannot be built (in node mode every node attribute is also copied onto the expanded edge), while the "
                          "explicitly expanded instance solves", _f.loc(_unp[0]), self_contained=True)
        else:
            rep.ok("C11.R6", key, "no attribute dictionary is unpacked into keyword arguments", _f.loc())
    if not _seen_ne:
        raise AnalysisError("NodeExpandedDiGraph.__init__: add_node / add_edge calls not found")
    from rules.c04 import repetition_caps as _rc11
    _rc11(prog, RuleProxy(rep, "C11.R6"), "C04.R5")
