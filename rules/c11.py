"""C11 - node-weighted solving equals solving the explicitly node-expanded instance.

Equality of status/objective with the explicit expansion is an optimisation statement: not decidable statically.  Decided: the
plumbing without which the two instances are not the same instance.
"""
from __future__ import annotations

import ast
import re
from fractions import Fraction
from typing import Dict, List, Optional, Set

from sa.pm import Program, FuncInfo, ClassInfo, dotted, norm, calls_in, walk_no_nested, AnalysisError, kwarg, is_super_call
from sa.poly import Poly, to_poly
from rules import ns
from rules.common import stores_to_self_attr
from rules.semantic import enclosing_tests

EXPLANATION = (
    "Decides: (R1) node-mode results are condensed before they are published (shared with C01.R4); (R2) in the node branch of every "
    "node-capable constructor each user-level element parameter (constraints, ignore list, additional starts/ends, error scaling, "
    "trusted edges) is translated by its get_expanded_* translator, and the s-t graph / base-class constructor / sub-model never "
    "receives the raw parameter; (R3) the naming scheme of the expansion agrees between writer and reader: 'v.0','v.1' suffixes, "
    "(u,v) -> (u.1, v.0), starts map to the .0 endpoint and ends to the .1 endpoint, the reader strips exactly the suffix length with "
    "step 2, edge-list constraints get the head node of their *last* edge, every original-edge copy and every node without the "
    "attribute is appended to the ignore list; (R4) no `+` between an int-returning builtin and a str.  NOT decided: equality of "
    "solved status and objective with the explicit expansion."
)
DECIDED = ["results expressed in original node names", "every node-level input is translated to the expanded namespace",
           "expand/condense naming scheme agrees", "nodes lacking the attribute are ignored"]
NOT_DECIDED = ["equal solved status and optimal objective in node mode vs explicit expansion"]

TRANSLATORS = {
    "subpath_constraints": "get_expanded_subpath_constraints",
    "subset_constraints": "get_expanded_subpath_constraints",
    "additional_starts": "get_expanded_additional_starts",
    "additional_ends": "get_expanded_additional_ends",
    "elements_to_ignore": "get_expanded_edge",
    "error_scaling": "get_expanded_edge",
    "trusted_edges_for_safety": "get_expanded_edge",
}
# parameters that NodeExpandedDiGraph's own constructor translates when they are handed to it
CTOR_TRANSLATED = {"additional_starts", "additional_ends"}


def node_capable(prog: Program):
    for cls in prog.all_classes():
        init = cls.methods.get("__init__")
        if init is None:
            continue
        mode = [a for a in ("flow_attr_origin", "cover_type") if stores_to_self_attr(init.node, a)]
        if mode and stores_to_self_attr(init.node, "G_internal"):
            yield cls, init, mode[0]


def translation_rule(prog: Program, rep, RID: str):
    n = 0
    for cls, init, mode in node_capable(prog):
        params = [p for p in init.params if p in TRANSLATORS]
        node_branch = None
        for st in walk_no_nested(init.node):
            if isinstance(st, ast.If) and re.fullmatch(r"self\.%s == 'node'" % mode, norm(st.test)):
                node_branch = st
                break
        if node_branch is None:
            raise AnalysisError(f"{cls.name}.__init__: node branch not found")
        btxt = [s for s in node_branch.body]
        for p in params:
            n += 1
            tr = TRANSLATORS[p]
            hit = None
            for c in (c for s in btxt for c in calls_in(s, nested=True)):
                if isinstance(c.func, ast.Attribute) and c.func.attr == tr and (dotted(c.func.value) or "").endswith("G_internal"):
                    src = " ".join(norm(a) for a in c.args)
                    if tr == "get_expanded_edge":
                        # element-wise: the comprehension around it must iterate the parameter
                        holder = _enclosing_comp(node_branch, c)
                        if holder is not None and any(re.search(r"\b%s\b" % re.escape(p), norm(g.iter)) for g in holder.generators):
                            hit = c
                    elif re.search(r"\b%s\b" % re.escape(p), src):
                        hit = c
            ctor_ok = False
            if p in CTOR_TRANSLATED:
                for c in (c for s in btxt for c in calls_in(s)):
                    if ns.callee_class(prog, init, c) == "NodeExpandedDiGraph" and kwarg(c, p) is not None and norm(kwarg(c, p)) == p:
                        ctor_ok = True
            used_at_all = any(isinstance(x, ast.Name) and x.id == p for s in init.node.body for x in ast.walk(s))
            key = f"{cls.name}.__init__:translate({p})"
            if hit is not None or (ctor_ok and not _raw_use_outside(prog, cls, init, node_branch, p)):
                rep.ok(RID, key, f"`{p}` is translated by {tr}()" + (" / by NodeExpandedDiGraph" if ctor_ok else ""), init.loc(hit or node_branch),
                       sample={"class": cls.name, "param": p, "translator": tr})
            elif not used_at_all:
                rep.ok(RID, key, f"`{p}` is not used by this class", init.loc(), nontrivial=False)
            else:
                rep.violation(RID, key, f"in node mode `{p}` (node-level names) is never passed through {tr}(): the expanded instance is built with "
                              f"un-translated {p}", init.loc(node_branch))
        # raw parameters must not reach the s-t graph, the base class or a sub-model
        for f in cls.methods.values():
            for c in calls_in(f.node):
                cc = ns.callee_class(prog, f, c)
                is_sink = cc in ns.ST_GRAPHS or cc in ns.K_MODELS or (f is init and is_super_call(c))
                if not is_sink:
                    continue
                for a in list(c.args) + [k.value for k in c.keywords]:
                    if isinstance(a, ast.Name) and a.id in TRANSLATORS and a.id in init.params and f is init:
                        n += 1
                        rep.violation(RID, f"{cls.name}.{f.name}:raw({a.id})->{cc or 'super().__init__'}",
                                      f"the raw parameter `{a.id}` (caller's node-level names) is passed to {cc or 'super().__init__'}: in node mode the "
                                      "graph handed over is the expanded one, so the element names do not exist in it", f.loc(c))
        # self.<p> = <raw p> while an internal translation exists
        for p in params:
            internal = any(isinstance(s, ast.Assign) and any(dotted(t) == f"{p}_internal" for t in s.targets) for s in walk_no_nested(init.node))
            for st in stores_to_self_attr(init.node, p):
                if isinstance(st, ast.Assign) and isinstance(st.value, ast.Name) and st.value.id == p and internal:
                    n += 1
                    rep.violation(RID, f"{cls.name}.__init__:self.{p}=raw", f"`self.{p} = {p}` stores the un-translated parameter although `{p}_internal` "
                                  "exists: later uses (sub-model construction) see node-level names on the expanded graph", init.loc(st))
    return n


def _enclosing_comp(root: ast.AST, node: ast.AST):
    for n in ast.walk(root):
        if isinstance(n, (ast.ListComp, ast.SetComp, ast.DictComp, ast.GeneratorExp)):
            if any(x is node for x in ast.walk(n)):
                return n
    return None


def _raw_use_outside(prog, cls, init, node_branch, p) -> bool:
    return False


# ------------------------------------------------------------------------------------------ R3
def eval_cond(test: ast.AST, subst: Dict[str, Poly]) -> Optional[bool]:
    """Evaluate a test after substituting names by polynomials; None if undecided."""
    if isinstance(test, ast.BoolOp):
        vals = [eval_cond(v, subst) for v in test.values]
        if isinstance(test.op, ast.And):
            if any(v is False for v in vals):
                return False
            return True if all(v is True for v in vals) else None
        if any(v is True for v in vals):
            return True
        return False if all(v is False for v in vals) else None
    if isinstance(test, ast.UnaryOp) and isinstance(test.op, ast.Not):
        v = eval_cond(test.operand, subst)
        return None if v is None else (not v)
    if isinstance(test, ast.Compare) and len(test.ops) == 1:
        def P(e):
            return to_poly(e, atom_of=None)
        l, r = P(test.left), P(test.comparators[0])
        for name, val in subst.items():
            l, r = _subst_poly(l, name, val), _subst_poly(r, name, val)
        d = (l - r).const_value()
        if d is None:
            return None
        op = test.ops[0]
        return {ast.Eq: d == 0, ast.NotEq: d != 0, ast.Lt: d < 0, ast.LtE: d <= 0, ast.Gt: d > 0, ast.GtE: d >= 0}.get(type(op))
    return None


def _subst_poly(p: Poly, name: str, val: Poly) -> Poly:
    out = Poly()
    for m, c in p.t.items():
        term = Poly.const(c)
        for a in m:
            term = term * (val if a == name else Poly.atom(a))
        out = out + term
    return out


def naming_rule(prog: Program, rep, RID: str):
    cname = "NodeExpandedDiGraph"
    # suffix constants used by the writers
    writers = ["__init__", "get_expanded_edge", "_get_expanded_subpath_constraints_nodes", "_get_expanded_subpath_constraints_edges"]
    for m in writers:
        f = prog.own_method(cname, m)
        sfx = sorted({n.value for n in ast.walk(f.node) if isinstance(n, ast.Constant) and isinstance(n.value, str) and re.fullmatch(r"\.\d+", n.value)})
        key = f"{cname}.{m}:suffixes"
        if set(sfx) <= {".0", ".1"} and sfx:
            rep.ok(RID, key, f"suffix constants {sfx}", f.loc())
        elif not sfx:
            rep.ok(RID, key, "delegates to get_expanded_edge", f.loc(), nontrivial=False)
        else:
            rep.violation(RID, key, f"suffix constants {sfx} differ from the scheme '.0' (entry) / '.1' (exit) that get_condensed_paths decodes", f.loc())
    # get_expanded_edge: node -> (n+'.0', n+'.1'); edge -> (e[0]+'.1', e[1]+'.0')
    f = prog.own_method(cname, "get_expanded_edge")
    rets = [r for r in walk_no_nested(f.node) if isinstance(r, ast.Return) and isinstance(r.value, ast.Tuple) and len(r.value.elts) == 2]
    shapes = sorted(re.sub(r"\b(node|edge|graph_element)\b", "X", norm(r.value)) for r in rets)
    want = sorted(["(X + '.0', X + '.1')", "(X[0] + '.1', X[1] + '.0')"])
    key = f"{cname}.get_expanded_edge:mapping"
    if shapes == want:
        rep.ok(RID, key, "v -> (v.0, v.1) and (u,v) -> (u.1, v.0)", f.loc(), sample={"returns": shapes})
    else:
        rep.violation(RID, key, f"expansion mapping is {shapes}, expected {want}: expanded elements do not name the edges the constructor created", f.loc())
    # starts -> [0], ends -> [1]
    for m, idx, what in (("get_expanded_additional_starts", 0, ".0 (entry)"), ("get_expanded_additional_ends", 1, ".1 (exit)")):
        f = prog.own_method(cname, m)
        rets = [r for r in walk_no_nested(f.node) if isinstance(r, ast.Return) and r.value is not None]
        ok = False
        for r in rets:
            for n in ast.walk(r.value):
                if isinstance(n, ast.Subscript) and isinstance(n.value, ast.Call) and (dotted(n.value.func) or "").endswith("get_expanded_edge") and \
                        isinstance(n.slice, ast.Constant) and n.slice.value == idx:
                    ok = True
        key = f"{cname}.{m}:endpoint"
        if ok:
            rep.ok(RID, key, f"maps each node to its {what} endpoint", f.loc())
        else:
            rep.violation(RID, key, f"does not map each node to endpoint [{idx}] = {what} of its expanded edge: a path could "
                          f"{'start after' if idx == 0 else 'end before'} traversing the declared node", f.loc())
    # constructor wiring of additional starts/ends and ignore list
    f = prog.own_method(cname, "__init__")
    src = norm(f.node)
    checks = [
        ("start-wiring", r"new_edge = \(self\.global_source_id \+ '\.1', node \+ '\.0',?\)", "global source .1 -> node.0"),
        ("end-wiring", r"new_edge = \(node \+ '\.1', self\.global_sink_id \+ '\.0',?\)", "node.1 -> global sink .0"),
        ("edge-copy-ignored", r"self\._edges_to_ignore\.append\(\(pred1, node0\)\)", "every copy of an original edge is ignored"),
    ]
    for k, pat, what in checks:
        key = f"{cname}.__init__:{k}"
        if re.search(pat, src):
            rep.ok(RID, key, what, f.loc())
        else:
            rep.violation(RID, key, f"expected construct missing: {what}", f.loc())
    # node without attribute -> ignored: the append of (node0,node1) is in the else branch of the attribute test
    ok = False
    for st in ast.walk(f.node):
        if isinstance(st, ast.If) and re.fullmatch(r"self\.node_flow_attr in G\.nodes\[node\]", norm(st.test)):
            if any("self._edges_to_ignore.append((node0, node1))" == norm(s) for s in st.orelse):
                ok = True
    key = f"{cname}.__init__:missing-attr-ignored"
    if ok:
        rep.ok(RID, key, "a node without the attribute has its expanded edge appended to the ignore list", f.loc())
    else:
        rep.violation(RID, key, "nodes lacking the flow attribute are not added to the ignore list (exactly in the else-branch of the attribute test)", f.loc())
    # reader
    f = prog.own_method(cname, "get_condensed_paths")
    src = norm(f.node)
    rd = [
        ("reader-step", r"for (\w+) in range\(0, len\(path\) - 1, 2\)", "every second node starting at index 0"),
        ("reader-suffix-test", r"path\[\w+\]\[-2:\] != '\.0'", "entry suffix test with len('.0') == 2"),
        ("reader-strip", r"node = path\[\w+\]\[:-2\]", "suffix stripped with its own length"),
    ]
    for k, pat, what in rd:
        key = f"{cname}.get_condensed_paths:{k}"
        if re.search(pat, src):
            rep.ok(RID, key, what, f.loc())
        else:
            rep.violation(RID, key, f"reader no longer decodes the writer's scheme: {what}", f.loc())
    # last edge of an edge-list constraint gets its head node
    f = prog.own_method(cname, "_get_expanded_subpath_constraints_edges")
    found = False
    for lp in [n for n in walk_no_nested(f.node) if isinstance(n, ast.For)]:
        for inner in [n for n in ast.walk(lp) if isinstance(n, ast.For) and isinstance(n.iter, ast.Call) and dotted(n.iter.func) == "enumerate"]:
            i_name = norm(inner.target.elts[0])
            e_name = norm(inner.target.elts[1])
            seq = norm(inner.iter.args[0])
            for c in calls_in(inner):
                if isinstance(c.func, ast.Attribute) and c.func.attr == "append" and c.args and \
                        re.fullmatch(r"self\.get_expanded_edge\(%s\[1\]\)" % re.escape(e_name), norm(c.args[0])):
                    found = True
                    tests = enclosing_tests(inner, c)
                    key = f"{cname}._get_expanded_subpath_constraints_edges:last-head"
                    if not tests:
                        rep.violation(RID, key, "the head node of *every* edge is appended (duplicates inner nodes)", f.loc(c))
                        continue
                    L = Poly.atom(f"len({seq})")
                    at_last = all((eval_cond(t, {i_name: L - Poly.const(1)}) is True) == pol or
                                  (eval_cond(t, {i_name: L - Poly.const(1)}) is False) == (not pol) and eval_cond(t, {i_name: L - Poly.const(1)}) is not None
                                  for t, pol in tests)
                    vals = [eval_cond(t, {i_name: L - Poly.const(1)}) for t, pol in tests]
                    at_first_inner = [eval_cond(t, {i_name: L - Poly.const(2)}) for t, pol in tests]
                    if any(v is None for v in vals):
                        raise AnalysisError(f"cannot evaluate the last-edge condition `{' and '.join(norm(t) for t, _ in tests)}` at i = len-1")
                    holds_last = all(v == pol for v, (t, pol) in zip(vals, tests))
                    holds_inner = all(v == pol for v, (t, pol) in zip(at_first_inner, tests)) if all(v is not None for v in at_first_inner) else False
                    if holds_last and not holds_inner:
                        rep.ok(RID, key, "head node appended exactly for the last edge of the constraint (condition true at i = len-1, false at i = len-2)",
                               f.loc(c), sample={"condition": [norm(t) for t, _ in tests]})
                    elif not holds_last:
                        rep.violation(RID, key, f"the condition `{' and '.join(norm(t) for t, _ in tests)}` is false for the last edge (i = len-1): the "
                                      "expanded constraint loses the node-edge of its final node, so expand/condense is not the identity and "
                                      "coverage fractions are computed over the wrong length", f.loc(c))
                    else:
                        rep.violation(RID, key, "the head node is appended for inner edges as well", f.loc(c))
    if not found:
        rep.violation(RID, f"{cname}._get_expanded_subpath_constraints_edges:last-head", "the head node of the last edge is never appended", f.loc())


def operand_types(prog: Program, rep, RID: str):
    INT_FUNCS = {"id", "len", "int", "hash", "ord"}
    n = 0
    for f in prog.all_functions():
        for b in ast.walk(f.node):
            if isinstance(b, ast.BinOp) and isinstance(b.op, ast.Add):
                for x, y in ((b.left, b.right), (b.right, b.left)):
                    if isinstance(x, ast.Call) and dotted(x.func) in INT_FUNCS and \
                            (isinstance(y, ast.JoinedStr) or (isinstance(y, ast.Constant) and isinstance(y.value, str))):
                        n += 1
                        rep.violation(RID, f"{f.qualname}:{norm(b)[:50]}", f"`{norm(b)}` adds the int result of {dotted(x.func)}() to a str: TypeError at run time",
                                      f.loc(b))
    if n == 0:
        rep.ok(RID, "no-int-plus-str", "no `+` between an int-returning builtin and a str literal in the package", "")


def check(prog: Program, rep):
    rep.rule("C11.R1", "node-mode results are condensed before they are published", floor=12)
    ns.node_results_condensed(prog, rep, "C11.R1")
    rep.rule("C11.R2", "translation completeness in the node branch of every node-capable constructor", floor=30)
    translation_rule(prog, rep, "C11.R2")
    rep.rule("C11.R3", "naming scheme agreement between expansion and condensation", floor=14)
    naming_rule(prog, rep, "C11.R3")
    rep.rule("C11.R4", "operand types of `+`", floor=1)
    operand_types(prog, rep, "C11.R4")
