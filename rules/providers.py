"""Provider rules shared by the flow-type k-models: weight bound w_max, numeric type of weights, V1 declared-before-used."""
from __future__ import annotations

import ast
import re
from fractions import Fraction
from typing import Dict, List, Optional, Set

from sa.pm import Program, FuncInfo, ClassInfo, dotted, norm, calls_in, walk_no_nested, AnalysisError, kwarg, is_super_call
from sa.poly import Poly, to_poly
from rules.common import stores_to_self_attr
from rules.formulation import method_effects
from rules.semantic import family_decl

MAXFLOW = "get_max_flow_value_and_check_non_negative_flow"


def wmax_provider(prog: Program, rep, RID: str, classes: List[str]):
    """w_max (bound of weights, products, errors, slacks) is at least the largest non-ignored flow value: its definition is
    c * weight_type(max flow over non-ignored edges) with c >= 1, possibly wrapped in max(...)."""
    for cname in classes:
        f = prog.own_method(cname, "__init__")
        sts = [s for s in stores_to_self_attr(f.node, "w_max") if isinstance(s, ast.Assign)]
        if not sts:
            raise AnalysisError(f"{cname}.__init__: w_max definition not found")
        first = sts[0].value
        key = f"{cname}.__init__:w_max"
        # locals (max_flow_value = <query>) are substituted, conditional conversions are judged case by case
        from rules.common import local_single_defs, substitute_locals, expr_cases
        # `self.w_max = A if c else B` is written by the program model as an if / else of two stores: alternatives of one definition
        alternatives = [sts[0]]
        for i_ in ast.walk(f.node):
            if isinstance(i_, ast.If) and len(i_.body) == 1 and len(i_.orelse) == 1 and i_.body[0] is sts[0] and len(sts) > 1 and i_.orelse[0] is sts[1]:
                alternatives.append(sts[1])
        verdicts = []
        for alt in alternatives:
            alt_sub = substitute_locals(alt.value, local_single_defs(f.node))
            verdicts += [_wmax_ok(x, inexact=cname in INEXACT_MODELS) for _, x in expr_cases(alt_sub)]
        bad = [v for v in verdicts if not v[0]]
        ok, why = (False, bad[0][1]) if bad else (True, " / ".join(sorted({v[1] for v in verdicts})))
        for later in sts[len(alternatives):]:
            v = later.value
            if not (isinstance(v, ast.Call) and dotted(v.func) == "max" and any(norm(a) == "self.w_max" for a in v.args)):
                ok, why = False, f"w_max is overwritten by `{norm(v)[:60]}` (not a max with its previous value)"
        if ok:
            rep.ok(RID, key, why, f.loc(sts[0]), sample={"definition": norm(first)[:140]})
        else:
            rep.violation(RID, key, f"w_max = `{norm(first)[:100]}`: {why}. Weights/products up to the largest flow value must be representable, "
                          "otherwise the optimum (or feasibility) is cut off", f.loc(sts[0]))


# models whose flow values need not be integers even for integer weights (errors / slacks absorb the difference)
INEXACT_MODELS = {"kLeastAbsErrors", "kLeastAbsErrorsCycles", "kMinPathError", "kMinPathErrorCycles"}


def _wmax_ok(e: ast.AST, inexact: bool = False) -> (bool, str):
    p = to_poly(e)
    hits = [(m, c) for m, c in p.t.items() if any(MAXFLOW in a for a in m)]
    if len(hits) != 1 or len(p.t) != 1:
        return False, "not a single product containing the max-flow query"
    m, c = hits[0]
    atom = [a for a in m if MAXFLOW in a][0]
    if "edges_to_ignore=self.edges_to_ignore" not in atom.replace(" ", "").replace("edges_to_ignore=self.edges_to_ignore", "edges_to_ignore=self.edges_to_ignore"):
        return False, "max-flow query does not exclude the ignore set"
    if re.match(r"^self\.weight_type\(", atom):
        if True:
            return False, ("the largest flow value is converted with weight_type(), i.e. int() truncates it for integer weights: a value that is an integer up to float "
                           "noise (2.9999999999999996) becomes 2 and the optimum weight 3 is cut off, 0.9999999999999999 gives w_max = 0 (infeasible)")
    elif not re.match(r"^(math\.ceil|ceil|float)\(", atom):
        return False, "max flow not converted to the requested weight type"
    if c < 1:
        return False, f"scaled by {c} < 1"
    others = [a for a in m if a is not atom]
    if any(a not in ("self.k", "int(self.k)") for a in others):      # (k as a Python int: a narrow numpy k would wrap the product)
        return False, f"multiplied by {others}"
    return True, f"{c}*{'*'.join(others + ['weight_type(max non-ignored flow)'])} >= max flow"


def original_k_provider(prog: Program, rep, RID: str, classes: List[str]):
    """`self.original_k` (the cap on the number of non-empty paths under given weights) is the caller's k: it is taken from k /
    self.k *before* self.k is overwritten with the number of candidate weights."""
    for cname in classes:
        f = prog.own_method(cname, "__init__")
        stores = [s for s in stores_to_self_attr(f.node, "original_k") if isinstance(s, ast.Assign)]
        over = [s for s in stores_to_self_attr(f.node, "k") if isinstance(s, ast.Assign) and "solution_weights_superset" in norm(s.value)]
        key = f"{cname}.__init__:original_k"
        if not stores or not over:
            raise AnalysisError(f"{cname}.__init__: original_k / superset overwrite of k not found")
        st = stores[0]
        ok_val = norm(st.value) in ("k", "self.k")
        ok_order = all(st.lineno < o.lineno for o in over)
        if ok_val and ok_order and len(stores) == 1:
            rep.ok(RID, key, f"`{norm(st)}` precedes `{norm(over[0])}`: the path cap under given weights is the caller's k", f.loc(st))
        else:
            rep.violation(RID, key, f"`{norm(st)}` (line {st.lineno}) vs `{norm(over[0])[:60]}` (line {over[0].lineno}): original_k no longer holds the caller's k, so the row "
                          "`#non-empty paths <= original_k` allows as many paths as there are candidate weights - more than k paths are returned", f.loc(st))
    # the cap row itself is in the formulation table (max_paths_original_k_paths)


def numeric_type(prog: Program, rep, RID: str, classes: List[str]):
    """weights are round()-ed iff weight_type == int, float() otherwise (getter); the weight family is integer iff int."""
    for cname in classes:
        cls = prog.cls(cname)
        f = prog.own_method(cname, "get_solution")
        hit = None
        for st in walk_no_nested(f.node):
            if isinstance(st, ast.Assign) and len(st.targets) == 1 and dotted(st.targets[0]) == "self.path_weights_sol" and isinstance(st.value, ast.ListComp):
                hit = st
        key = f"{cname}.get_solution:weights-type"
        if hit is None:
            raise AnalysisError(f"{cname}.get_solution: path_weights_sol list not found")
        from rules.common import all_local_defs, normalise_expr, expr_cases
        from sa import boolnf as B
        elt = normalise_expr(hit.value.elt, all_local_defs(f.node))
        is_int = B.parse(ast.parse("self.weight_type == int", mode="eval").body)
        bad = None
        for g, x in expr_cases(elt):
            fn = dotted(x.func) if isinstance(x, ast.Call) else None
            if B.implies(g, is_int) and B.satisfiable(g):
                if fn not in ("round", "int"):
                    bad = f"for integer weights the value is `{norm(x)[:60]}` (not rounded)"
            elif B.implies(g, B.mk_not(is_int)):
                if fn != "float":
                    bad = f"for non-integer weights the value is `{norm(x)[:60]}` (not float())"
            else:
                bad = f"`{norm(x)[:60]}` is used whether or not weight_type == int"
        if bad is None:
            rep.ok(RID, key, "round() for int weights, float() otherwise", f.loc(hit), sample={"elt": norm(elt)[:100]})
        else:
            rep.violation(RID, key, f"returned weights are built as `{norm(elt)[:90]}`: not round() iff weight_type == int / float() otherwise ({bad}) - "
                          "integer models may return 2.9999999 or floats for int", f.loc(hit))
        decl = family_decl(prog, cls)
        wf = decl.get("self.path_weights_vars")
        key2 = f"{cname}:weights-family-type"
        if wf is None:
            raise AnalysisError(f"{cname}: path_weights_vars declaration not found")
        if wf.get("var_type") == "('integer' if self.weight_type == int else 'continuous')":
            rep.ok(RID, key2, "weight variables integer iff weight_type == int", f"{f.module.relpath}:{wf['_line']}")
        else:
            rep.violation(RID, key2, f"weight variables declared as {wf.get('var_type')}: not integer iff weight_type == int", f"{f.module.relpath}:{wf['_line']}")


def declared_before_used(prog: Program, rep, RID: str, classes: List[str]):
    """V1: every variable family referenced by an encoder of the class is declared in the class' MRO, and a family declared only
    under an option attribute of the base class is switched on by the arguments the class passes to super().__init__."""
    for cname in classes:
        cls = prog.cls(cname)
        decl = family_decl(prog, cls)
        used: Dict[str, str] = {}
        for f in cls.methods.values():
            for e in method_effects(prog, cls, f):
                txt = " ".join(str(v) for k, v in e.items() if not k.startswith("_") and k not in ("quant", "guards", "defs"))
                for m in re.finditer(r"(self\.\w+_vars)\[", txt):
                    used.setdefault(m.group(1), f"{f.module.relpath}:{e['_line']}")
        init = prog.own_method(cname, "__init__")
        sup = [c for c in calls_in(init.node) if is_super_call(c)]
        passed_true = set()
        for c in sup:
            for kw in c.keywords:
                if isinstance(kw.value, ast.Constant) and kw.value.value is True:
                    passed_true.add(kw.arg)
        for fam, loc in sorted(used.items()):
            key = f"{cname}:declared({fam})"
            d = decl.get(fam)
            if d is None:
                rep.violation(RID, key, f"encoder uses `{fam}` but no add_variables declares it in {cname} or its base classes", loc)
                continue
            opt_guards = [g for g in d.get("guards", []) if re.fullmatch(r"self\.encode_\w+", g)]
            missing = [g for g in opt_guards if g.split(".")[1] not in passed_true]
            if missing:
                rep.violation(RID, key, f"`{fam}` is declared only under {missing}, but {cname} does not pass {[g.split('.')[1] + '=True' for g in missing]} to "
                              "super().__init__: the attribute does not exist when the encoder runs", loc)
            else:
                rep.ok(RID, key, "declared" + (f" under {opt_guards}, switched on by the constructor" if opt_guards else ""), loc)


def forced_empty_paths_removed(prog: Program, rep, RID: str, classes: List[str]):
    """A class that switches `allow_empty_paths` on by itself (one layer per given weight) must not hand the unused layers out:
    get_solution removes empty paths by default, or whenever the class forced them and the caller did not ask for empty paths."""
    from sa import boolnf as B
    from rules.semantic import enclosing_tests
    for cname in classes:
        init = prog.own_method(cname, "__init__")
        forced = None
        for st in walk_no_nested(init.node):
            if isinstance(st, ast.Assign) and len(st.targets) == 1 and isinstance(st.targets[0], ast.Subscript) and \
                    dotted(st.targets[0].value) == "self.optimization_options" and isinstance(st.targets[0].slice, ast.Constant) and \
                    st.targets[0].slice.value == "allow_empty_paths" and isinstance(st.value, ast.Constant) and st.value.value is True:
                forced = st
        if forced is None:
            continue
        cond = B.mk_and([B.parse_pol(t, pol) for t, pol in enclosing_tests(init.node, forced)])
        gs = prog.own_method(cname, "get_solution")
        params = [a.arg for a in gs.node.args.args[1:]]
        defaults = gs.node.args.defaults
        rm = [p for p in params if p.startswith("remove_empty")]
        key = f"{cname}.get_solution:forced-empty-paths"
        if not rm:
            raise AnalysisError(f"{cname}.get_solution: no remove_empty_* parameter")
        d = defaults[len(defaults) - len(params) + params.index(rm[0])] if len(defaults) >= len(params) - params.index(rm[0]) else None
        if isinstance(d, ast.Constant) and d.value is True:
            rep.ok(RID, key, f"empty paths are removed by default ({rm[0]}=True)", gs.loc())
            continue
        # default False: the class must switch removal on itself under the forcing condition, before any return
        hit = None
        for st in gs.node.body:
            if isinstance(st, ast.Return):
                break
            if isinstance(st, ast.If) and any(isinstance(x, ast.Assign) and len(x.targets) == 1 and norm(x.targets[0]) == rm[0] and
                                              isinstance(x.value, ast.Constant) and x.value.value is True for x in st.body):
                hit = st
                break
            if isinstance(st, ast.If) and any(isinstance(x, ast.Return) for x in ast.walk(st)):
                break
        if hit is None:
            rep.violation(RID, key, f"{cname}.__init__ switches allow_empty_paths on by itself under [{B.key(cond)[:80]}] (one layer per given weight), but get_solution "
                          f"returns all layers unless the caller passes {rm[0]}=True: a k-model hands out more than k entries, the unused ones being empty "
                          "paths that carry the unused given weights", gs.loc())
            continue
        test = B.parse(hit.test)
        extra = [a for a in B.relevant_atoms(test) if a not in B.relevant_atoms(cond)]
        user_flags = set()
        for st in walk_no_nested(init.node):
            if isinstance(st, ast.Assign) and len(st.targets) == 1 and (dotted(st.targets[0]) or "").startswith("self.") and isinstance(st.value, ast.Call) and \
                    norm(st.value.func) == "self.optimization_options.get" and st.value.args and isinstance(st.value.args[0], ast.Constant) and \
                    st.value.args[0].value == "allow_empty_paths":
                user_flags.add(dotted(st.targets[0]))
        if all(a in user_flags for a in extra) and B.implies(B.mk_and([cond] + [B.mk_not(B.atom(a)) for a in extra]), test):
            rep.ok(RID, key, f"layers of unused given weights are removed unless the caller asked for empty paths ([{B.key(test)[:90]}])", gs.loc(hit))
        else:
            raise AnalysisError(f"{cname}.get_solution: cannot relate the removal condition [{B.key(test)[:90]}] to the forcing condition [{B.key(cond)[:90]}]")


def given_weights_integral(prog: Program, rep, RID: str, classes: List[str]):
    """The given-weights encoders use solution_weights_superset[i] as it is, get_solution() publishes round(...) of it when
    weight_type is int: the two agree only if the constructor rejects a non-integral superset for integer weights."""
    from sa import boolnf as B
    for cname in classes:
        init = prog.own_method(cname, "__init__")
        gs = prog.own_method(cname, "get_solution")
        rounds = any(isinstance(n, ast.Call) and dotted(n.func) in ("round", "int") and "weights_sol_dict" in norm(n) for n in ast.walk(gs.node)) and \
            any("solution_weights_superset" in norm(st.value) for st in ast.walk(gs.node) if isinstance(st, ast.Assign))
        key = f"{cname}.__init__:given-weights-integral"
        if not rounds:
            rep.ok(RID, key, "given weights are published as given", gs.loc())
            continue
        hit = None
        for st in ast.walk(init.node):
            if isinstance(st, ast.If) and any(isinstance(x, ast.Raise) for x in st.body):
                t = norm(st.test)
                if "solution_weights_superset" in t and "round(" in t and "weight_type" in t:
                    hit = st
        if hit is None:
            # the same rejection in another shape (an explicit loop that raises at the first offending weight, nested ifs): canonical sites
            from rules import val as _val
            for s_ in _val.sites_in(init):
                txt = s_["test"] + " " + str(s_.get("loop") or "")
                if "solution_weights_superset" in txt and "round(" in s_["test"] and "weight_type" in s_["test"] and s_["exc"] == "ValueError":
                    fs = s_["_ctx"]
                    if B.implies(B.mk_and([fs, B.parse_pol(s_["_test"], s_["_pol"])]), B.parse(ast.parse("self.weight_type == int", mode="eval").body)) or \
                            re.search(r"(?<!not \()EQ0\[int - (self\.)?weight_type\]", s_["test"]):
                        hit = s_
                        break
            if hit is not None:
                rep.ok(RID, key, "a non-integral superset is rejected with ValueError when weight_type is int", init.loc(hit["_node"]))
                continue
        if hit is None:
            rep.violation(RID, key, f"{cname}.get_solution publishes round(solution_weights_superset[i]) for integer weights while the given-weights encoder uses the "
                          "values unchanged, and the constructor accepts a non-integral superset: the model reports solved with weights that do not belong to its own "
                          "constraints (flow 5 'explained' by [2, 2] for superset [2.5, 2.5])", init.loc())
            continue
        f_ = B.parse(hit.test)
        is_int = B.parse(ast.parse("self.weight_type == int", mode="eval").body)
        if B.implies(f_, is_int):
            rep.ok(RID, key, "a non-integral superset is rejected with ValueError when weight_type is int", init.loc(hit))
        else:
            raise AnalysisError(f"{cname}.__init__: cannot relate the rejection `{norm(hit.test)[:100]}` to weight_type == int")


def given_weights_nonnegative(prog: Program, rep, RID: str, classes: List[str]):
    """With a weight superset the models have no weight variables (whose lower bound is 0): the given numbers are matrix coefficients and are copied into
    the solution.  One non-negative weight per returned path then rests on the constructor rejecting negative entries."""
    from rules import val as _val
    for cname in classes:
        init = prog.own_method(cname, "__init__")
        key = f"{cname}.__init__:given-weights-nonnegative"
        hit = None
        for s_ in _val.sites_in(init):
            if "solution_weights_superset" in str(s_.get("loop") or "") + s_["test"] and re.search(r"LT0\[L\d_\d\]|not \(LE0\[-", s_["test"]) and s_["exc"] == "ValueError":
                hit = s_
        if hit is not None:
            rep.ok(RID, key, "negative entries of solution_weights_superset are rejected with ValueError", init.loc(hit["_node"]))
        else:
            rep.violation(RID, key, f"{cname} accepts negative entries in solution_weights_superset and copies them into the solution: on s->a->t with flow 5 and the superset "
                          "[-2, 7] the model reports solved with the path weights [-2, 7] (the weight variables of the ordinary encoding have lower bound 0; with a superset "
                          "there are none)", init.loc())


def given_weights_above_coefficient_threshold(prog: Program, rep, RID: str, classes: List[str]):
    """The entries of solution_weights_superset are matrix coefficients of the given-weights rows.  HiGHS refuses a row with a non-zero coefficient of
    magnitude <= 1e-9 (highspy raises on the warning), so an entry in (0, 1e-9] - the 3e-14 a float model publishes for an unused path - makes the constructor
    raise a bare Exception.  The constructor replaces such entries by 0 before the rows are built."""
    for cname in classes:
        init = prog.own_method(cname, "__init__")
        key = f"{cname}.__init__:given-weights-coefficient-threshold"
        uses = [m for m in prog.cls(cname).methods.values() for n in ast.walk(m.node)
                if isinstance(n, ast.BinOp) and isinstance(n.op, ast.Mult) and any(norm(x).startswith(("self.solution_weights_superset[", "float(self.solution_weights_superset["))
                                                                                    for x in (n.left, n.right))]
        if not uses:
            raise AnalysisError(f"{cname}: no row multiplies a variable by an entry of solution_weights_superset")
        norms = [st for st in ast.walk(init.node) if isinstance(st, ast.Assign) and any(norm(t) == "self.solution_weights_superset" for t in st.targets) and
                 isinstance(st.value, (ast.ListComp, ast.GeneratorExp, ast.Call))]
        ok = None
        # every store of the attribute, in any method: the parameter itself, a value-preserving conversion, or the threshold normalisation read below
        for m_ in prog.cls(cname).methods.values():
            for st in ast.walk(m_.node):
                if not (isinstance(st, ast.Assign) and any(norm(t) == "self.solution_weights_superset" for t in st.targets)):
                    continue
                from rules.common import local_single_defs as _lsd, substitute_locals as _sl
                _consts = {k_: x_ for k_, x_ in _lsd(m_.node).items() if isinstance(x_, ast.Constant)}
                v0 = _sl(st.value, _consts) if _consts else st.value
                if norm(v0) in ("solution_weights_superset", "None") or (isinstance(v0, ast.Call) and dotted(v0.func) in ("list", "tuple") and len(v0.args) == 1 and
                                                                          norm(v0.args[0]) in ("solution_weights_superset", "self.solution_weights_superset")):
                    continue
                comp_ = v0.args[0] if isinstance(v0, ast.Call) and dotted(v0.func) in ("list", "tuple") and len(v0.args) == 1 else v0
                if isinstance(comp_, (ast.ListComp, ast.GeneratorExp)) and len(comp_.generators) == 1 and not comp_.generators[0].ifs and \
                        norm(comp_.generators[0].iter) in ("self.solution_weights_superset", "solution_weights_superset"):
                    w_ = norm(comp_.generators[0].target)
                    e_ = comp_.elt
                    if norm(e_) in (w_, f"float({w_})", f"{w_}.item() if hasattr({w_}, 'item') else {w_}"):
                        continue
                    if isinstance(e_, ast.IfExp) and isinstance(e_.test, ast.Compare) and len(e_.test.ops) == 1 and isinstance(e_.test.comparators[0], ast.Constant) and \
                            norm(e_.test.left) == w_:
                        continue      # constant threshold: judged below
                    if isinstance(e_, ast.IfExp):
                        rep.violation(RID, f"{cname}.{m_.name}:given-weights-unaltered", f"`{norm(st)[:110]}` replaces given weights under `{norm(e_.test)[:60]}`: the model then "
                                      "optimises over other weights than the caller gave (in an error model a weight above the largest flow value can be optimal: |10 - 11| = 1 "
                                      "beats |10 - 0| = 10), and reports the replaced weights as 0", m_.loc(st), self_contained=True)
                        continue
                raise AnalysisError(f"{cname}.{m_.name}: store `{norm(st)[:90]}` of the given weights not recognised")
        for st in norms:
            from rules.common import local_single_defs as _lsd2, substitute_locals as _sl2
            _c2 = {k_: x_ for k_, x_ in _lsd2(init.node).items() if isinstance(x_, ast.Constant)}
            v = _sl2(st.value, _c2) if _c2 else st.value
            if isinstance(v, ast.Call) and dotted(v.func) in ("list", "tuple") and len(v.args) == 1:
                v = v.args[0]
            if not isinstance(v, (ast.ListComp, ast.GeneratorExp)) or len(v.generators) != 1 or norm(v.generators[0].iter) not in ("self.solution_weights_superset", "solution_weights_superset"):
                continue
            if v.generators[0].ifs:
                raise AnalysisError(f"{cname}.__init__: solution_weights_superset is filtered (`{norm(st)[:80]}`): not recognised")
            e = v.elt
            w = norm(v.generators[0].target)
            if isinstance(e, ast.IfExp) and isinstance(e.test, ast.Compare) and len(e.test.ops) == 1:
                l_, o_, r_ = e.test.left, e.test.ops[0], e.test.comparators[0]
                thr = None
                if norm(l_) == w and isinstance(o_, ast.Gt) and isinstance(r_, ast.Constant):
                    thr, keep, other = r_.value, e.body, e.orelse
                elif norm(l_) == w and isinstance(o_, ast.LtE) and isinstance(r_, ast.Constant):
                    thr, keep, other = r_.value, e.orelse, e.body
                if thr is not None and isinstance(thr, (int, float)) and norm(keep) in (w, f"float({w})") and isinstance(other, ast.Constant) and other.value == 0:
                    ok = (st, thr)
        if ok is None:
            rep.violation(RID, key, f"{cname} builds the given-weights rows from the entries of solution_weights_superset as they come: a positive entry up to 1e-9 (the 3e-14 a "
                          "float model publishes for an unused path, handed back as the superset) is refused by the solver as a matrix coefficient and the constructor raises "
                          "a bare Exception('Error adding constraint to the model.') instead of building the model; no store replaces such entries by 0", init.loc())
        elif ok[1] < 1e-9:
            rep.violation(RID, key, f"entries above {ok[1]} are kept as coefficients, but the solver refuses non-zero coefficients up to 1e-9", init.loc(ok[0]))
        elif ok[1] > 1e-6:
            rep.violation(RID, key, f"entries up to {ok[1]} are replaced by 0: that is above any solver tolerance - weights the caller gave are dropped", init.loc(ok[0]))
        else:
            rep.ok(RID, key, f"entries <= {ok[1]} are replaced by 0 before the rows are built", init.loc(ok[0]))
