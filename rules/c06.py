"""C06 - safe paths/sequences are truly safe, mutually incompatible, prune soundly.

The three stated clauses are graph-theoretic facts about all covers of X: not applicable to static analysis (no finite
structural witness).  Decided: hygiene preconditions without which the computed sequences are garbage.
"""
from __future__ import annotations

import ast
import re
from typing import List

from sa.pm import Program, FuncInfo, dotted, norm, calls_in, walk_no_nested, AnalysisError
from rules import val
from rules.semantic import parents_map
from rules.formulation import conformance

EXPLANATION = (
    "Decides only hygiene preconditions: (R1) find_idom and find_all_bridges edit the shared adjacency dict (consume the path's forward "
    "edges, add reversed ones) and undo every edit - the restore loop ranges over the same path positions, pops the reversed edge and "
    "re-appends the forward edge, is a top-level statement and precedes every return, with no raise/return between the edits and it; (R2) "
    "every access to a per-worker adjacency pool in safe_sequences happens inside `with worker_locks[w]` with the same index; (R3) a "
    "non-SCC edge is fixed to 1 only after the `m != 1 -> ValueError` test on every path, SCC edges get >= m with m the Counter value, "
    "and the protection set of the zero-fixing (including the gap rule) conforms to the frozen builder description; (R4) the flow-safe path scan extends a path only while its excess flow stays "
    " (R5) index-specific safety effects (fixing sequence i into walk i, pruning walk i against it) are rejected or switched off when given weights pin walks to indices; (R6) flow-safe paths are used only when nothing is ignored and the flow is conserved, and are computed on the internal graph (C10.R8). "
    "strictly positive (the published characterisation of flow-decomposition safety), decided on the polynomial normal form of the stop test.  NOT decided - and "
    "not decidable here: safety of the sequences in every cover, incompatibility of the chosen sequences, soundness of the pruning."
    ' (R7, round 3) the safety traversals are iterative; the flow-safe scan reads bounds as Python numbers, stops and reports with a float tolerance (0 < eps <= 1e-6), reports only windows of positive excess.'
    ' (R4, revised) the stop test of the flow-safe scan is judged only when windows are not recorded under a positive-excess guard; (R8, round 4) C17.R1 / R2 for the reachability caches the pruning reads, and the full-coverage guard of C05.R10.'
    ' (R4, hunt 4) the excess of the flow-safe scan is compared with a tolerance scaled by the magnitude of the values (math.ulp), never with 0 or a constant; an exact assertion on the excess needs exact readers.'
    ' (R7, hunt 5) the readers of the flow-safe scan apply Fraction() only to values without as_integer_ratio() (np.longdouble survives .item() and Fraction() rejects it).'
    ' (R4, hunt 7) where the readers convert numpy scalars the unit of the excess tolerance also covers the spacing of numpy floats in their own type (np.float32).'
)
DECIDED = ["mutate/restore pairing of the shared adjacency structure", "lock discipline of the per-worker pools",
           "multiplicity guard and protection-set construction conform to the reviewed description"]
NOT_DECIDED = ["each computed sequence occurs in every path/walk cover of X (graph theory over all covers)",
               "sequences assigned to different slots can never share a walk", "every forbidden edge lies on no walk containing the slot's sequence"]

MUT = {"append", "pop", "remove", "insert", "extend", "clear"}


def adj_mutations(node: ast.AST, name="adj_dict") -> List[ast.Call]:
    out = []
    for c in calls_in(node):
        if isinstance(c.func, ast.Attribute) and c.func.attr in MUT and isinstance(c.func.value, ast.Subscript) and dotted(c.func.value.value) == name:
            out.append(c)
    return out


def restore_rule(prog: Program, rep, RID: str, modname: str, fname: str):
    f = prog.function(modname, fname)
    body = f.node.body
    muts_by_stmt = [(i, st, adj_mutations(st)) for i, st in enumerate(body)]
    with_m = [(i, st, m) for i, st, m in muts_by_stmt if m]
    key = f"{fname}:restore"
    if len(with_m) < 2:
        rep.violation(RID, key, "edits of the adjacency dict without a separate restore block", f.loc())
        return
    ri, rst, rm = with_m[-1]
    edits = [m for i, st, ms in with_m[:-1] for m in ms]
    probs = []
    if not isinstance(rst, ast.For):
        probs.append("the last block touching adj_dict is not a loop")
    # what the edits did
    n_rev_added = [m for m in edits if m.func.attr == "append"]
    n_fwd_removed = [m for m in edits if m.func.attr in ("pop", "remove")]
    if fname == "find_idom":
        # forward edges are removed explicitly in the same loop that adds the reversed ones
        pass
    from rules.semantic import enclosing_tests as _et
    for m_ in n_rev_added + n_fwd_removed:
        conds = _et(f.node, m_)
        if conds:
            probs.append(f"the edit `{norm(m_)[:60]}` is made only under `{norm(conds[0][0])[:60]}` while the restore loop undoes it for every path edge "
                         "(an edge that was not added is popped: a genuine arc disappears from the shared adjacency dict)")
    if len(n_rev_added) != 1 or len(n_fwd_removed) != 1:
        probs.append(f"expected one 'remove forward edge' and one 'add reversed edge' edit, found {len(n_fwd_removed)} / {len(n_rev_added)}")
    # restore: pop from adj_dict[v] and append v to adj_dict[u] with (u, v) = (p[i], p[i+1]) over range(len(p) - 1)
    if isinstance(rst, ast.For):
        # the loop visits the consecutive pairs (TAIL, HEAD) of the path: `for i in range(len(P) - 1)` with P[i], P[i + 1], or
        # `for a, b in zip(P, P[1:])`; names are free
        ren = {}
        P = None
        it = rst.iter
        itn = norm(it).replace(" ", "")
        m = re.fullmatch(r"range\((?:0,)?len\((\w+)\)-1\)", itn)
        if m and isinstance(rst.target, ast.Name):
            P = m.group(1)
            iv = rst.target.id
            ren = {f"{P}[{iv}]": "TAIL", f"{P}[{iv}+1]": "HEAD"}
        else:
            m = re.fullmatch(r"zip\((\w+),\1\[1:\]\)", itn)
            if m and isinstance(rst.target, ast.Tuple) and len(rst.target.elts) == 2 and all(isinstance(x, ast.Name) for x in rst.target.elts):
                P = m.group(1)
                ren = {rst.target.elts[0].id: "TAIL", rst.target.elts[1].id: "HEAD"}
        if P is None:
            m2 = re.fullmatch(r"range\((?:0,)?len\((\w+)\)-(\d+)\)|range\((\d+),len\((\w+)\)-1\)", itn)
            if m2:
                probs.append(f"restore loop ranges over `{norm(rst.iter)}` instead of all path positions range(len(p) - 1)")
            else:
                raise AnalysisError(f"{fname}: restore loop `{norm(rst.iter)}` is not a recognised walk over the consecutive pairs of the path")
        # the path restored must be the path whose edges were edited
        edit_paths = set()
        for i_, st_, ms_ in with_m[:-1]:
            for w_ in re.findall(r"\b(\w+)\.append\(", norm(st_)):
                if w_ != "adj_dict":
                    edit_paths.add(w_)
            for w_ in re.findall(r"zip\((\w+),", norm(st_).replace(" ", "")) + re.findall(r"len\((\w+)\)", norm(st_)):
                edit_paths.add(w_)
        if P is not None and edit_paths and P not in edit_paths:
            probs.append(f"the restore loop walks `{P}`, the edits were made along {sorted(edit_paths)}")
        defs = {}
        for s_ in rst.body:
            if isinstance(s_, ast.Assign) and isinstance(s_.targets[0], ast.Tuple) and isinstance(s_.value, ast.Tuple):
                for t, v in zip(s_.targets[0].elts, s_.value.elts):
                    defs[norm(t)] = norm(v)
            elif isinstance(s_, ast.Assign) and isinstance(s_.targets[0], ast.Name):
                defs[norm(s_.targets[0])] = norm(s_.value)

        def C(e):
            t = norm(e)
            t = defs.get(t, t).replace(" ", "")
            return ren.get(t, t)
        pops = [m_ for m_ in rm if m_.func.attr == "pop"]
        apps = [m_ for m_ in rm if m_.func.attr == "append"]
        if len(pops) != 1 or len(apps) != 1 or len(rm) != 2:
            probs.append(f"restore performs {[m_.func.attr for m_ in rm]} (must be exactly one pop and one append)")
        elif P is not None:
            pv = C(pops[0].func.value.slice)
            au = C(apps[0].func.value.slice)
            av = C(apps[0].args[0]) if apps[0].args else "?"
            if pv != "HEAD":
                probs.append(f"reversed edge is popped from adj_dict[{pv}] instead of the head of each path edge")
            if au != "TAIL" or av != "HEAD":
                probs.append(f"forward edge re-inserted as adj_dict[{au}].append({av}) instead of adj_dict[tail].append(head)")
            if pops[0].args:
                probs.append("pop with an index: does not remove the reversed edge appended last")
    # post-dominance: no return / raise before the restore block, and it is a top-level statement
    early = [n for n in walk_no_nested(f.node) if isinstance(n, (ast.Return, ast.Raise)) and n.lineno < rst.lineno]
    if early:
        probs.append(f"an exit at line {early[0].lineno} leaves the function before the restore block")
    later_muts = [m for i, st, ms in muts_by_stmt if i > ri for m in ms]
    if probs:
        rep.violation(RID, key, f"{fname} does not undo its edits of the shared adjacency dict on every exit: " + "; ".join(probs) +
                      " - later queries on the same worker's dict see a corrupted graph", f.loc(rst))
    else:
        rep.ok(RID, key, "every edit (forward edge removed, reversed edge added) is undone by the top-level restore loop that precedes every exit", f.loc(rst),
               sample={"function": fname, "edits": [norm(m)[:60] for m in edits], "restore": [norm(m)[:60] for m in rm]})


def lock_rule(prog: Program, rep, RID: str):
    f = prog.function("flowpaths.utils.safetypathcovers", "safe_sequences")
    pm = parents_map(f.node)
    pools = {"adj_dict_pool", "adj_dict_rev_pool"}
    n = 0
    for s in ast.walk(f.node):
        if isinstance(s, ast.Subscript) and isinstance(s.value, ast.Name) and s.value.id in pools:
            n += 1
            idx = norm(s.slice)
            cur = s
            locked = False
            while id(cur) in pm:
                cur = pm[id(cur)]
                if isinstance(cur, (ast.With, ast.AsyncWith)):
                    for it in cur.items:
                        ce = it.context_expr
                        if isinstance(ce, ast.Subscript) and dotted(ce.value) == "worker_locks" and norm(ce.slice) == idx:
                            locked = True
            key = f"safe_sequences:{s.value.id}[{idx}]"
            if locked:
                rep.ok(RID, key, f"accessed inside `with worker_locks[{idx}]`", f.loc(s))
            else:
                rep.violation(RID, key, f"`{norm(s)}` is used outside `with worker_locks[{idx}]`: two tasks mapped to the same worker edit one adjacency dict "
                              "concurrently (find_all_bridges reverses a path in place)", f.loc(s))
    if n < 2:
        raise AnalysisError("safe_sequences: accesses to the per-worker pools not found")
    # worker id domain = number of pools/locks
    src = norm(f.node)
    key = "safe_sequences:worker-id-domain"
    if re.search(r"\(i % threads, edge\)", src) and "for _ in range(threads)" in src:
        rep.ok(RID, key, "worker ids are i % threads; pools and locks have `threads` entries", f.loc())
    else:
        rep.violation(RID, key, "worker ids are not taken modulo the number of pools/locks", f.loc())


def multiplicity_guard(prog: Program, rep, RID: str):
    f = prog.own_method("AbstractWalkModelDiGraph", "_apply_safety_optimizations")
    # the multiplicity is the value of the Counter item the loop binds: the site is `multiplicity != 1` inside that loop
    sites = [s for s in val.sites_in(f) if re.search(r"not \(EQ0\[-1 \+ L\d_\d\]\)", s["test"]) and "Counter(" in (s["loop"] or "")]
    key = "AbstractWalkModelDiGraph._apply_safety_optimizations:m!=1-guard"
    if not sites:
        rep.violation(RID, key, "a non-SCC edge of a safe sequence is fixed to 1 without the `m != 1 -> ValueError` test", f.loc())
        return
    s = sites[0]
    from sa import boolnf as B
    scc = [a for a in B.atoms_of(s["_ctx"]) if "is_scc_edge(" in a]
    ok_ctx = bool(scc) and B.implies(s["_ctx"], B.mk_not(B.atom(scc[0])))
    ok, why = val.dominance(prog, f, s)
    if ok_ctx and ok and s["exc"] == "ValueError":
        rep.ok(RID, key, "on the non-SCC branch every iteration passes `m != 1 -> ValueError` before fixing the variable to 1", f.loc(s["_node"]),
               sample={"test": s["test"], "context": s["context"]})
    else:
        rep.violation(RID, key, f"multiplicity guard broken (non-SCC context: {ok_ctx}; dominates the fix: {ok} {why})", f.loc(s["_node"]))


def flow_safety_threshold(prog: Program, rep, RID: str):
    """A path is safe for flow decomposition iff its excess flow is *strictly* positive (Khan et al., RECOMB 2022; the
    references the function cites): the right extension must stop as soon as the excess after the extension is <= 0."""
    from sa.poly import to_poly
    from rules.common import local_single_defs, substitute_locals
    f = prog.function("flowpaths.utils.safetyflowdecomp", "compute_inexact_flow_decomp_safe_paths")
    from rules.common import all_local_defs
    # locals defined inside the loops are re-assigned per iteration but syntactically once (augmented assignments count as re-binding)
    defs = {k: v for k, v in all_local_defs(f.node).items() if k != "inexact_excess"}
    hits = []
    for w in [n for n in ast.walk(f.node) if isinstance(n, ast.While)]:
        for st in w.body:
            if isinstance(st, ast.If) and any(isinstance(b, ast.Break) for b in st.body) and "inexact_excess" in norm(st.test):
                hits.append(st)
    key = "compute_inexact_flow_decomp_safe_paths:excess-threshold"
    if len(hits) != 1:
        raise AnalysisError(f"flow-safe paths: expected one `if <excess test>: break` in the extension loop, found {len(hits)}")
    t = hits[0].test
    if not (isinstance(t, ast.Compare) and len(t.ops) == 1):
        raise AnalysisError(f"flow-safe paths: cannot interpret the stop test `{norm(t)}`")
    class _PlainNumber(ast.NodeTransformer):
        """`X.item() if hasattr(X, 'item') else X` (a numpy scalar read as a Python number) is X"""

        def visit_IfExp(self, node):
            self.generic_visit(node)
            tt = norm(node.test)
            if tt.startswith("hasattr(") and "'item'" in tt and norm(node.body) == norm(node.orelse) + ".item()":
                return node.orelse
            return node
    # nested readers `def upper(u, v): value = G.edges[u, v][upperbound_attr]; return <value as a Python number>` stand for the subscript
    readers = {}
    for fd in [n for n in ast.walk(f.node) if isinstance(n, ast.FunctionDef) and n is not f.node and len(n.args.args) == 2]:
        # a reader: the only access to the graph is G.edges[p0, p1][A] (one attribute A) and everything else in the function converts that value
        # (`.item()`, Fraction / int / float, isinstance / hasattr tests): it returns the value of the attribute as a number
        fdefs_ = all_local_defs(fd)      # (an inlined shared reader binds the attribute to a local first)
        subs = {norm(substitute_locals(n.slice, fdefs_)) for n in ast.walk(fd) if isinstance(n, ast.Subscript) and
                norm(substitute_locals(n.value, fdefs_)) == f"G.edges[{fd.args.args[0].arg}, {fd.args.args[1].arg}]"}
        other_graph = [n for n in ast.walk(fd) if isinstance(n, ast.Attribute) and isinstance(n.value, ast.Name) and n.value.id == "G" and n.attr != "edges"]
        calls_ok = all((dotted(c_.func) in ("Fraction", "fractions.Fraction", "int", "float", "isinstance", "hasattr")) or
                       (isinstance(c_.func, ast.Attribute) and c_.func.attr in ("item", "as_integer_ratio") and not c_.args) for c_ in ast.walk(fd) if isinstance(c_, ast.Call))
        rets_ = [r for r in ast.walk(fd) if isinstance(r, ast.Return) and r.value is not None]
        if len(subs) == 1 and not other_graph and calls_ok and rets_ and not any(isinstance(n, (ast.BinOp, ast.AugAssign)) for n in ast.walk(fd)):
            readers[fd.name] = next(iter(subs))

    class _Readers(ast.NodeTransformer):
        def visit_Call(self, node):
            self.generic_visit(node)
            if isinstance(node.func, ast.Name) and node.func.id in readers and len(node.args) == 2:
                return ast.parse(f"G.edges[{norm(node.args[0])}, {norm(node.args[1])}][{readers[node.func.id]}]", mode="eval").body
            return node

    def canon(e):
        e = ast.parse(norm(substitute_locals(e, defs)), mode="eval").body
        return _PlainNumber().visit(_Readers().visit(e))
    # names that hold the tolerance are kept as names (they are classified below, not expanded)
    for nm_ in [k for k in list(defs) if re.search(r"toler|eps", k)]:
        defs.pop(nm_, None)
    left = canon(t.left)
    right = canon(t.comparators[0])
    P = to_poly(left) - to_poly(right)
    c = P.coeff(("inexact_excess",))
    op = t.ops[0]
    # ---- the tolerance the excess is compared with
    # Float values meant as decimal numbers are each off by up to half a unit in the last place, and (unless the arithmetic is exact) every
    # addition adds as much: a zero excess comes out as 5.55e-17 for values around 0.1 and as 2e-9 .. 7e-9 for values around 1e7.  So neither
    # 0 nor a constant is a valid threshold for "excess is positive"; the tolerance has to scale with the magnitude of the values
    # (math.ulp / spacing / epsilon of the largest value), and may be 0 only in the case that all values are integral.
    # the arithmetic on the bounds is exact when the readers hand out ints / fractions (not when a Fraction merely occurs somewhere)
    reader_defs = [fd for fd in ast.walk(f.node) if isinstance(fd, ast.FunctionDef) and fd.name in readers]
    exact_numbers = bool(reader_defs) and all(any("Fraction(" in norm(r.value) for r in ast.walk(fd) if isinstance(r, ast.Return) and r.value is not None) for fd in reader_defs)

    def classify_tolerance(e):
        """'zero' | 'absolute' | 'scaled' | None for a constant / a name defined in this function"""
        if isinstance(e, ast.Constant) and isinstance(e.value, (int, float)):
            return "zero" if e.value == 0 else ("absolute" if 0 < e.value else None)
        if isinstance(e, ast.Name):
            kinds = set()
            for st in ast.walk(f.node):
                if isinstance(st, ast.Assign) and any(isinstance(t_, ast.Name) and t_.id == e.id for t_ in st.targets):
                    def kinds_of(v):
                        if isinstance(v, ast.Constant) and isinstance(v.value, (int, float)):
                            return {"zero" if v.value == 0 else "absolute"}
                        if isinstance(v, ast.IfExp):
                            return kinds_of(v.body) | kinds_of(v.orelse)
                        if re.search(r"\b(ulp|spacing|epsilon|nextafter)\b", norm(v)):
                            return {"scaled"}
                        return {"other"}
                    kinds |= kinds_of(st.value)
            if not kinds or "other" in kinds:
                return None
            if "scaled" in kinds:
                return "scaled" if kinds <= {"scaled", "zero"} else None
            return "absolute" if "absolute" in kinds else "zero"
        return None

    from sa.poly import Poly
    stop_kind = None
    for a in sorted(P.atoms()):
        if re.fullmatch(r"\w+", a) and a != "inexact_excess":
            k_ = classify_tolerance(ast.Name(id=a, ctx=ast.Load()))
            if k_ is not None:
                stop_kind = k_
                P = P - Poly.atom(a) * Poly.const(P.coeff((a,)))
    eps = P.coeff(())
    if eps != 0:
        if c != 0 and -eps / c > 0 and stop_kind is None:
            stop_kind = "absolute"
            P = P - Poly.const(eps)
        else:
            raise AnalysisError(f"flow-safe paths: the stop test `{norm(t)}` compares the excess with {-eps / c if c else eps}, not with 0 or a tolerance")
    elif stop_kind is None:
        stop_kind = "zero"
    # expected: excess + U(next) - sum of U over the out-edges of the current node
    atoms = sorted(a for a in P.atoms() if a != "inexact_excess")
    shape = c != 0 and len(atoms) == 2 and any(a.startswith("sum(") and "out_edges(path[R])" in a for a in atoms) and \
        any("path[R], path[R + 1]" in a and "upperbound_attr" in a for a in atoms)
    if not shape:
        raise AnalysisError(f"flow-safe paths: stop test `{norm(t)}` has normal form `{P!r}` - not the excess-flow expression")
    # ---- the report of a window is guarded by a positive excess (a one-edge window whose lower bound is 0 is in no decomposition path)
    reports = [st for st in ast.walk(f.node) if isinstance(st, ast.If) and "path_not_suffix_of_previous" in norm(st.test) and
               any("safe_paths" in norm(x) for x in st.body)]
    if len(reports) != 1:
        raise AnalysisError("flow-safe paths: the statement that reports a window was not found")
    rt = norm(reports[0].test)
    rcmp = [n for n in ast.walk(reports[0].test) if isinstance(n, ast.Compare) and len(n.ops) == 1 and norm(n.left) == "inexact_excess"]
    report_kind, report_op = None, None
    if rcmp:
        report_kind, report_op = classify_tolerance(rcmp[0].comparators[0]), rcmp[0].ops[0]
    report_guarded = False
    if "inexact_excess" not in rt:
        rep.violation(RID, key + ":report", f"a window is reported under `{rt}` whatever its excess is: the initial one-edge window has excess = lower bound of the edge, "
                      "so an edge with lower bound 0 is reported safe although the flow that puts 0 on it has a decomposition avoiding it", f.loc(reports[0]))
    elif not rcmp or report_kind is None or not isinstance(report_op, (ast.Gt, ast.GtE, ast.NotEq)):
        raise AnalysisError(f"flow-safe paths: report condition `{rt}` not understood")
    elif report_kind == "zero" and isinstance(report_op, (ast.GtE, ast.NotEq)):
        rep.violation(RID, key + ":report", f"a window is reported under `{rt}`, i.e. also when its excess flow is 0: a path with excess 0 is avoided by some flow decomposition "
                      "(and a one-edge window whose lower bound is 0 is in no decomposition path)", f.loc(reports[0]))
    elif report_kind == "zero":
        rep.violation(RID, key + ":float-zero", f"a window is reported when its excess is `> 0` exactly: the excess is a sum of the caller's (float) flow values, an excess "
                      "that is 0 as a decimal number comes out as 5.55e-17 and the window is reported safe (flows 0.1 + 0.2 vs 0.3)", f.loc(reports[0]))
    elif report_kind == "absolute":
        rep.violation(RID, key + ":absolute-tolerance", f"a window is reported when its excess exceeds the constant in `{rt}`: the rounding noise of the excess grows with the "
                      "values (one unit in the last place at 1e7 is 1.9e-9), so for flows around 1e7 a zero excess evaluates to 2e-9 .. 7e-9 and the window is reported safe "
                      "(u->v 10000000.6, v->w 20000000.2, v->wp 10000000.6, up->v 20000000.2, x1->up and x2->up 10000000.1: two unsafe paths, MinFlowDecomp with safety as "
                      "subpath constraints returns 4 paths where 3 suffice)", f.loc(reports[0]))
    else:
        report_guarded = True
        rep.ok(RID, key + ":report", f"a window is reported only with an excess above the rounding noise of the values (`{rt}`)", f.loc(reports[0]))
    # ---- assertions on the running excess
    for a_ in [n for n in ast.walk(f.node) if isinstance(n, ast.Assert) and "inexact_excess" in norm(n.test)]:
        exact_cmp = isinstance(a_.test, ast.Compare) and norm(a_.test.left) == "inexact_excess" and isinstance(a_.test.ops[0], ast.Eq)
        if exact_cmp and not exact_numbers:
            rep.violation(RID, key + ":assert-exact", f"`{norm(a_)}` holds in exact arithmetic only: the float residue of the additions and subtractions (about 1e-16) fails it on "
                          "ordinary one-decimal flows and AssertionError escapes from MinFlowDecomp.solve() / kFlowDecomp (0->1 1.5, 1->3 0.7, 1->2 0.8, ...)", f.loc(a_))
        else:
            rep.ok(RID, key + ":assert", f"`{norm(a_)[:70]}`" + (" (exact arithmetic)" if exact_cmp else ""), f.loc(a_))
    nonstrict = (c > 0 and isinstance(op, ast.LtE)) or (c < 0 and isinstance(op, ast.GtE))
    strict = (c > 0 and isinstance(op, ast.Lt)) or (c < 0 and isinstance(op, ast.Gt))
    # When a window is recorded only with positive excess (tolerance included), the recorded windows are exactly the windows of positive excess the
    # scan visits - whatever the stop test is: excess + rightdiff never increases along an extension (f(next) is one of the out-flows), so a window
    # extended too far is not recorded, and one extended too little is a shorter safe window.  The stop test then decides only *which* safe windows
    # are found (running time of the models, C05), not whether a recorded window is safe.
    if report_guarded and (strict or nonstrict):
        rep.ok(RID, key, f"windows are recorded only with positive excess, so the stop test `{norm(t)}` decides only which safe windows are found", f.loc(hits[0]),
               sample={"stop_test": norm(t), "report_test": rt})
    elif nonstrict and stop_kind == "zero":
        rep.violation(RID, key + ":float-zero", f"the stop test `{norm(t)}` compares the running excess with 0 exactly: with float flow values an excess that is 0 comes out as "
                      "5.55e-17, the window is extended and reported safe although its excess flow is 0", f.loc(hits[0]))
    elif nonstrict and stop_kind == "absolute":
        rep.violation(RID, key + ":absolute-tolerance", f"the stop test `{norm(t)}` compares the running excess with a constant: below the rounding noise of values around 1e7, "
                      "so windows with excess 0 are extended and reported safe", f.loc(hits[0]))
    elif nonstrict:
        rep.ok(RID, key, "the extension stops when excess + f(next) - sum f(out-edges) is within the rounding noise of 0: only positive excess is reported safe", f.loc(hits[0]),
               sample={"stop_test": norm(t)})
    elif strict:
        rep.violation(RID, key, f"the extension stops only when the excess becomes negative (`{norm(t)}`): a path whose excess flow is exactly 0 is reported as safe although a "
                      "flow decomposition avoiding it exists", f.loc(hits[0]))
    else:
        raise AnalysisError(f"flow-safe paths: stop test `{norm(t)}` not understood")


def slot_symmetry(prog: Program, rep, RID: str):
    """Safety fixing assigns sequence i to walk index i (and prunes walk i against it).  That is without loss of generality only
    while the walk indices are interchangeable.  kFlowDecompCycles' given weights pin walk i to weight i, so every index-specific
    safety effect has to be rejected or switched off when weights are given."""
    from rules.semantic import enclosing_tests
    from sa import boolnf as B
    f = prog.own_method("AbstractWalkModelDiGraph", "_apply_safety_optimizations")
    slot_opts = {}
    for st in ast.walk(f.node):
        if not isinstance(st, ast.If):
            continue
        opt = dotted(st.test)
        if opt is None or not opt.startswith("self.optimize_with_"):
            continue
        body_txt = " ".join(norm(x) for x in st.body)
        per_slot = "_apply_safety_optimizations_fix_zero_edges" in body_txt or \
            any(isinstance(x, ast.For) and "walks_to_fix[" in " ".join(norm(y) for y in x.body) for x in st.body)
        if per_slot:
            slot_opts[opt[5:]] = st
    if len(slot_opts) < 2:
        raise AnalysisError(f"_apply_safety_optimizations: index-specific safety effects not recognised (found {sorted(slot_opts)})")
    # option attribute -> option name
    init = prog.own_method("AbstractWalkModelDiGraph", "__init__")
    names = {}
    for st in walk_no_nested(init.node):
        if isinstance(st, ast.Assign) and len(st.targets) == 1 and (dotted(st.targets[0]) or "").startswith("self.") and isinstance(st.value, ast.Call) and \
                norm(st.value.func) == "optimization_options.get" and st.value.args and isinstance(st.value.args[0], ast.Constant):
            names[dotted(st.targets[0])[5:]] = st.value.args[0].value
    g = prog.own_method("kFlowDecompCycles", "_encode_given_weights")
    pins = any(isinstance(c, ast.Call) and isinstance(c.func, ast.Attribute) and c.func.attr == "add_constraint" and c.args and isinstance(c.args[0], ast.Compare)
               and "path_weights_vars[" in norm(c.args[0].left) and isinstance(c.args[0].ops[0], ast.Eq) for c in ast.walk(g.node))
    if not pins:
        rep.ok(RID, "kFlowDecompCycles._encode_given_weights:pins", "given weights are not tied to walk indices", g.loc())
        return
    k_init = prog.own_method("kFlowDecompCycles", "__init__")
    for attr, site in sorted(slot_opts.items()):
        oname = names.get(attr)
        if oname is None:
            raise AnalysisError(f"option attribute self.{attr} is not read from optimization_options in AbstractWalkModelDiGraph.__init__")
        key = f"kFlowDecompCycles:given-weights-vs-{oname}"
        rejected = any(isinstance(st, ast.If) and f"'{oname}'" in norm(st.test) and any(isinstance(x, ast.Raise) for x in st.body) for st in ast.walk(g.node))
        disabled = False
        for st in walk_no_nested(k_init.node):
            if isinstance(st, ast.Assign) and len(st.targets) == 1 and isinstance(st.targets[0], ast.Subscript) and \
                    dotted(st.targets[0].value) == "self.optimization_options" and isinstance(st.targets[0].slice, ast.Constant) and \
                    st.targets[0].slice.value == oname and isinstance(st.value, ast.Constant) and st.value.value is False:
                tests = enclosing_tests(k_init.node, st)
                if any("given_weights" in norm(t) for t, pol in tests):
                    disabled = True
        # a guard `if options.get(name, D): raise` covers the caller who sets the option; the caller who leaves it out gets the base class's default:
        # if that default is True while D is False, the effect stays active under default options and has to be switched off
        base_default = None
        for st in prog.cls("AbstractWalkModelDiGraph").node.body:
            if isinstance(st, ast.Assign) and any(isinstance(t, ast.Name) and t.id == attr for t in st.targets) and isinstance(st.value, ast.Constant):
                base_default = st.value.value
        guard_defaults = [c.args[1].value for st in ast.walk(g.node) if isinstance(st, ast.If) and f"'{oname}'" in norm(st.test) and any(isinstance(x, ast.Raise) for x in st.body)
                          for c in ast.walk(st.test) if isinstance(c, ast.Call) and isinstance(c.func, ast.Attribute) and c.func.attr == "get" and len(c.args) == 2 and
                          isinstance(c.args[1], ast.Constant)]
        absent_case_open = rejected and not disabled and base_default is True and guard_defaults and all(d is False for d in guard_defaults)
        if absent_case_open:
            rep.violation(RID, key, f"with given weights `{oname}` is rejected only when the caller sets it: the guard reads the option with the default False, the base class "
                          f"defaults it to True, so under default options the index-specific effect (AbstractWalkModelDiGraph._apply_safety_optimizations line {site.lineno}) "
                          "stays active - s->a 5, a->t 5, s->b 3, b->t 3 with given_weights=[3, 5] is kInfeasible while [5, 3] is solved", g.loc())
        elif rejected or disabled:
            rep.ok(RID, key, f"with given weights `{oname}` is {'rejected' if rejected else 'switched off'}" + (" when set and switched off when left out" if rejected and disabled else ""), g.loc())
        else:
            rep.violation(RID, key, f"given weights pin walk i to weight i, but the index-specific safety effect under `{oname}` "
                          f"(AbstractWalkModelDiGraph._apply_safety_optimizations line {site.lineno}) stays active: sequence i need not be in the walk of weight i, "
                          "and the edges forbidden for walk i can exclude the only valid decomposition (the guessed-weights model of MinFlowDecompCycles is infeasible)",
                          g.loc())


def scan_reads_python_numbers(prog: Program, rep, RID: str):
    """The excess-flow scan subtracts bounds; with unsigned numpy integers a negative difference wraps around to about 2**32 / 2**64 and the
    stop test is never true.  Inside the scan loops the bounds are read through a reader that returns Python numbers - never subtracted raw."""
    f = prog.function("flowpaths.utils.safetyflowdecomp", "compute_inexact_flow_decomp_safe_paths")
    loops = [n for n in f.node.body if isinstance(n, ast.For)]
    scan = [lp for lp in loops if any(isinstance(x, ast.While) for x in ast.walk(lp))]
    if not scan:
        raise AnalysisError("flow-safe paths: the two-pointer scan loop was not found")
    raw = []
    for lp in scan:
        for node in ast.walk(lp):
            if isinstance(node, (ast.BinOp, ast.AugAssign)) and isinstance(node.op, (ast.Sub, ast.Add)):
                ops = [node.left, node.right] if isinstance(node, ast.BinOp) else [node.value]
                for o in ops:
                    for sub in ast.walk(o):
                        if isinstance(sub, ast.Subscript) and norm(sub.value).startswith("G.edges[") and norm(sub.slice) in ("upperbound_attr", "lowerbound_attr"):
                            raw.append(node)
            if isinstance(node, ast.Assign) and isinstance(node.value, ast.Subscript) and norm(node.value.value).startswith("G.edges[") and \
                    norm(node.value.slice) in ("upperbound_attr", "lowerbound_attr") and norm(node.targets[0]) == "inexact_excess":
                raw.append(node)
    key = "compute_inexact_flow_decomp_safe_paths:python-numbers"
    readers = [fd for fd in ast.walk(f.node) if isinstance(fd, ast.FunctionDef) and fd is not f.node and any(".item()" in norm(x) for x in ast.walk(fd) if isinstance(x, (ast.Return, ast.Assign)))]
    if raw:
        rep.violation(RID, key, f"the scan computes `{norm(raw[0])[:90]}` on the caller's scalars: with np.uint8/16/32/64 flow values a negative difference wraps around, the stop "
                      "test is never true and every greedy decomposition path is reported safe in full", f.loc(raw[0]))
    elif readers:
        rep.ok(RID, key, f"bounds are read through {', '.join(fd.name for fd in readers)} (Python numbers)", f.loc(readers[0]))
    else:
        raise AnalysisError("flow-safe paths: neither raw arithmetic on the bounds nor a reader returning Python numbers was found")


def tolerance_unit_covers_narrow_floats(prog: Program, rep, RID: str):
    """The readers of the scan accept numpy scalars (`.item()`), so np.float32 values arrive as the Python float nearest to a *float32* - off from the decimal
    they stand for by up to half a float32 unit, 2**29 units in the last place of that Python float.  A tolerance built from math.ulp of the converted
    values alone is below that noise: a zero excess reads as positive and a window that is not safe is reported.  Where the readers convert numpy scalars,
    the unit of the tolerance also takes the spacing of the raw values in their own type (numpy.spacing / finfo of the dtype)."""
    f = prog.function("flowpaths.utils.safetyflowdecomp", "compute_inexact_flow_decomp_safe_paths")
    converts_numpy = any(isinstance(x, ast.Attribute) and x.attr == "item" for fd in ast.walk(f.node) if isinstance(fd, ast.FunctionDef) and fd is not f.node for x in ast.walk(fd))
    tol = [st for st in ast.walk(f.node) if isinstance(st, ast.Assign) and any(isinstance(t, ast.Name) and re.search(r"toler|eps", t.id) for t in st.targets) and
           re.search(r"\b(ulp|spacing|nextafter|finfo)\b", norm(st.value))]
    key = "compute_inexact_flow_decomp_safe_paths:tolerance-unit-of-narrow-floats"
    if not converts_numpy:
        rep.ok(RID, key, "the readers do not convert numpy scalars", f.loc())
        return
    if not tol:
        raise AnalysisError("flow-safe paths: definition of the scaled tolerance not found")
    from rules.common import all_local_defs, substitute_locals
    defs = all_local_defs(f.node)
    txt = " ".join(norm(substitute_locals(st.value, defs)) for st in tol)
    whole = norm(f.node)
    if re.search(r"\b(spacing|finfo)\b", txt) and "dtype" in txt:
        rep.ok(RID, key, "the unit also covers the spacing of numpy floats in their own type", f.loc(tol[0]))
    elif re.search(r"\b(spacing|finfo)\(", whole) and "dtype" in whole:
        # the spacings are collected by other means than a comprehension (a loop appending to a list): the name they are collected under has to feed the tolerance
        feeders = {c.func.value.id for c in ast.walk(f.node) if isinstance(c, ast.Call) and isinstance(c.func, ast.Attribute) and c.func.attr in ("append", "extend", "add") and
                   isinstance(c.func.value, ast.Name) and re.search(r"\b(spacing|finfo)\(", norm(c))}
        raw_txt = " ".join(norm(st.value) for st in tol)
        assigned = {t.id for st in ast.walk(f.node) if isinstance(st, ast.Assign) and re.search(r"\b(spacing|finfo)\(", norm(st.value)) for t in st.targets if isinstance(t, ast.Name)}
        if any(re.search(r"\b" + re.escape(nm) + r"\b", txt + " " + raw_txt) for nm in feeders):
            rep.ok(RID, key, f"the unit also covers the spacing of numpy floats in their own type (collected in `{sorted(feeders)[0]}`)", f.loc(tol[0]))
        elif assigned and not feeders and not any(re.search(r"\b" + re.escape(nm) + r"\b", raw_txt) for nm in assigned):
            rep.violation(RID, key, f"the spacing of the raw values is computed (`{sorted(assigned)[0]}`) but does not enter `{norm(tol[0])[:90]}`: the unit of the tolerance is "
                          "math.ulp of the values as Python floats only - np.float32 values are 2**29 times coarser", f.loc(tol[0]))
        else:
            raise AnalysisError("flow-safe paths: a spacing of the raw values is computed, but how it reaches the tolerance was not recognised")
    else:
        rep.violation(RID, key, f"`{norm(tol[0])[:110]}` takes its unit from math.ulp of the values as Python floats only, while the readers accept numpy scalars: a np.float32 "
                      "value is off by up to 2**29 such units, so a window of excess 0 (flows 0.004, 0.004 -> 0.004, 0.001, 0.003 as np.float32) reads as +1.2e-10, is reported "
                      "as flow-safe, and optimize_with_safety_as_subpath_constraints makes kFlowDecomp(k=3) infeasible", f.loc(tol[0]))


def readers_take_every_number(prog: Program, rep, RID: str):
    """The readers of the excess-flow scan turn non-integers into fractions.  `Fraction(value)` takes int, float, Decimal, Fraction and str only: a real number
    without a Python counterpart (np.longdouble: `.item()` returns it unchanged) raises TypeError, although it has an exact ratio (`as_integer_ratio()`).
    A bare `Fraction(<value>)` is accepted only where the value is known to have no as_integer_ratio()."""
    from rules.semantic import enclosing_tests
    f = prog.function("flowpaths.utils.safetyflowdecomp", "compute_inexact_flow_decomp_safe_paths")
    n = 0
    for fd in [x for x in ast.walk(f.node) if isinstance(x, ast.FunctionDef) and x is not f.node]:
        fr = [c for c in ast.walk(fd) if isinstance(c, ast.Call) and dotted(c.func) in ("Fraction", "fractions.Fraction")]
        if not fr:
            continue
        par = {}
        for a in ast.walk(fd):
            for ch in ast.iter_child_nodes(a):
                par[id(ch)] = a
        for c in fr:
            n += 1
            key = f"compute_inexact_flow_decomp_safe_paths.{fd.name}:fraction-of-every-real"
            if len(c.args) != 1 or c.keywords or not isinstance(c.args[0], ast.Name):
                rep.ok(RID, key, f"`{norm(c)[:70]}`", f.loc(c))
                continue
            v = c.args[0].id
            excl = False
            cur = c
            while id(cur) in par:
                p_ = par[id(cur)]
                if isinstance(p_, ast.IfExp) and cur is p_.orelse and norm(p_.test) == f"hasattr({v}, 'as_integer_ratio')":
                    excl = True
                cur = p_
            for t, pol in enclosing_tests(fd, c):
                if norm(t) == f"hasattr({v}, 'as_integer_ratio')" and not pol:
                    excl = True
            # ... or behind an earlier `if hasattr(v, 'as_integer_ratio'): return ...` of an enclosing block
            cur = c
            while id(cur) in par and not excl:
                p_ = par[id(cur)]
                for fld in ("body", "orelse"):
                    blk = getattr(p_, fld, None)
                    if isinstance(blk, list) and any(cur is s_ for s_ in blk):
                        for sib in blk:
                            if sib is cur:
                                break
                            if isinstance(sib, ast.If) and norm(sib.test) == f"hasattr({v}, 'as_integer_ratio')" and sib.body and isinstance(sib.body[-1], (ast.Return, ast.Raise)):
                                excl = True
                cur = p_
            if excl:
                rep.ok(RID, key, f"`Fraction({v})` only for values without as_integer_ratio()", f.loc(c))
            else:
                rep.violation(RID, key, f"`{norm(c)}` is applied to every non-integer: np.longdouble has no Python counterpart (.item() returns it unchanged) and Fraction() rejects it "
                              "with TypeError - kFlowDecomp / MinFlowDecomp cannot be constructed on np.longdouble flow values although every other route decomposes them; the exact "
                              "ratio is available as as_integer_ratio()", f.loc(c))
    if n == 0:
        raise AnalysisError("flow-safe paths: no reader turning the bounds into fractions was found")


def check(prog: Program, rep):
    rep.rule("C06.R1", "mutate/restore pairing on the shared adjacency dict", floor=2)
    restore_rule(prog, rep, "C06.R1", "flowpaths.utils.safetypathcovers", "find_all_bridges")
    restore_rule(prog, rep, "C06.R1", "flowpaths.utils.safetypathcoverscycles", "find_idom")
    rep.rule("C06.R2", "lock discipline of the per-worker adjacency pools", floor=3)
    lock_rule(prog, rep, "C06.R2")
    rep.rule("C06.R3", "multiplicity guard; safety rows and protection-set builders conform to the frozen table", floor=6)
    multiplicity_guard(prog, rep, "C06.R3")
    conformance(prog, rep, "C06.R3", "C05")
    rep.rule("C06.R4", "flow-safe paths: the excess-flow threshold is strict positivity", floor=1)
    flow_safety_threshold(prog, rep, "C06.R4")
    tolerance_unit_covers_narrow_floats(prog, rep, "C06.R4")
    rep.rule("C06.R5", "index-specific safety effects presuppose interchangeable walks: rejected / switched off when given weights pin walks to indices", floor=2)
    slot_symmetry(prog, rep, "C06.R5")
    rep.rule("C06.R6", "flow-safe paths are used only for decompositions of the whole flow: nothing ignored, flow conserved, internal graph (C10.R8)", floor=2)
    from rules import plumb
    from rules.common import RuleProxy
    plumb.whole_flow_shortcuts_rule(prog, RuleProxy(rep, "C06.R6"), "C10.R8")
    rep.rule("C06.R7", "the safety traversals are iterative (no function of the safety modules calls itself); the flow-safety scan reads the bounds as Python numbers", floor=2)
    from rules.values import no_recursion
    no_recursion(prog, rep, "C06.R7", ["flowpaths.utils.dominators", "flowpaths.utils.safetyflowdecomp", "flowpaths.utils.safetypathcovers", "flowpaths.utils.safetypathcoverscycles"])
    scan_reads_python_numbers(prog, rep, "C06.R7")
    readers_take_every_number(prog, rep, "C06.R7")
    rep.rule("C06.R8", "the reachability queries the pruning of a slot relies on (nodes_reachable / nodes_reaching and their caches) answer for the graph: cache ownership and purity of the substrate queries (C17.R1, C17.R2)", floor=20)
    from rules import c17 as _c17
    from sa.alias import AliasModel as _AM
    _c17.cache_ownership(prog, RuleProxy(rep, "C06.R8"), "C17.R1")
    _c17.query_purity(prog, RuleProxy(rep, "C06.R8"), "C17.R2", _AM(prog))
    from rules.plumb import constraints_as_safe_sequences_rule
    constraints_as_safe_sequences_rule(prog, RuleProxy(rep, "C06.R8"), "C05.R10")
