"""C01 - returned paths/walks are real source-to-sink routes of the caller's graph."""
from __future__ import annotations

from sa.pm import Program, AnalysisError
from sa.poly import Poly, to_poly, nonneg_given
from rules.formulation import conformance, method_effects
from rules import ns

EXPLANATION = (
    "Decides: (R1) the path/walk-shape families (10a/10c, 17a/17b, 21, 22a/22b, 18a, 19c) are present for every layer and every inner "
    "node with exactly the frozen normal forms, quantifier domains and guards (<= 1 instead of == 1 only under allow_empty_*), and the "
    "big-M constants dominate what they relax (22a: sum of the per-edge caps of the incoming edges; 19c: ub(distance)+1); (R2) every node "
    "list seeded with the synthetic source reaches a publishing exit only through the [1:-1] sanitizer (one logged, whitelisted error exit); "
    "(R3) no already augmented graph flows into the base-graph parameter of an st-graph or the G parameter of a k-model; (R4) in every "
    "node-capable class the published paths/walks are condensed whenever the mode may be 'node' (k-models, greedy route, the four "
    "wrappers); (R5) per-path lists have one entry per layer and _remove_empty_* filters every per-path key that is published; (R6) paths "
    "start/end only where documented: the synthetic source/sink edges are added by the documented disjunctions and node mode maps declared "
    "starts to 'v.0' and ends to 'v.1' (expansion naming scheme agrees with its reader); (R7) under a given weight superset the cap on non-empty paths is "
    "the caller's k (taken before k is overwritten by the number of candidate weights) and the cap row is present.  "
    " (R5, extended) the remove-empty filters decide emptiness on the internal (expanded) route where the class publishes one, and filter `_paths_internal` / `_walks_internal` with the same mask - in node-weighted mode a route through one node is not empty; (R7, extended) a class that forces allow_empty_paths itself (one layer per given weight) removes the unused layers in get_solution unless the caller asked for empty paths. "
    "On the greedy route the working graph of the peeling keeps the topology of the caller's graph (no edge or node added or removed inside the loop), so every peeled path runs between a node without incoming and a node without outgoing edges of that graph (C17.R5).  NOT decided: that the solver returns a point satisfying the rows; simplicity of DAG paths and 'exactly k' follow from the rows."
    ' (R5, round 3) the remove-empty filters keep every route with at least one internal element (the smallest kept length is computed from the filter test; `> 1` is a violation).'
    ' (R7, hunt 4) negative entries of a weight superset are rejected.'
    ' (R5, seeds 6) the greedy route of kFlowDecomp publishes one weight per path also when it pads to k (C02.R4).'
)
DECIDED = ["path/walk-shape constraints present and complete", "synthetic endpoints never reach a public return value",
           "no graph is augmented twice", "node-mode results are condensed before they are published", "per-path lists stay in lock-step"]
NOT_DECIDED = ["that the solver's solution satisfies the rows", "edges of returned paths exist in the caller's graph (follows from the rows + solver)"]


def bigm_walks(prog: Program, rep, RID: str):
    cls = prog.cls("AbstractWalkModelDiGraph")
    f = prog.own_method("AbstractWalkModelDiGraph", "_encode_walks")
    effs = method_effects(prog, cls, f)
    decl = {e["family"]: e for e in effs if e["kind"] == "add_variables"}
    dist_ub = decl.get("self.distance_vars", {}).get("ub")
    if dist_ub is None:
        raise AnalysisError("distance_vars declaration not found")
    hit19 = hit22 = False
    for e in effs:
        if e["kind"] != "add_constraint":
            continue
        nf = e["_nf"]
        ds = [k for k in nf.terms if k.startswith("self.distance_vars[")]
        ys = [k for k in nf.terms if k.startswith("self.edge_selected_vars[")]
        if len(ds) == 2 and len(ys) == 1 and nf.rel == ">=":
            hit19 = True
            M = -nf.terms[ys[0]]
            # row: d_v - d_u - M*y + (M - 1) >= 0   => const = M - 1
            need = Poly.atom(dist_ub) + Poly.const(1) if not dist_ub.replace(".", "").isdigit() else Poly.const(int(dist_ub) + 1)
            diff = M - need
            shape = (nf.const - (M - Poly.const(1))).is_zero()
            ok = nonneg_given(diff) is True and shape
            key = "AbstractWalkModelDiGraph._encode_walks:19c:big-M"
            loc = f"{f.module.relpath}:{e['_line']}"
            if ok:
                rep.ok(RID, key, f"M = {M!r} >= ub(distance)+1 = {need!r}; row is d[v] >= d[u] + 1 - M(1-y)", loc,
                       sample={"row": nf.key(), "M": repr(M), "ub_distance": dist_ub})
            else:
                rep.violation(RID, key, f"the big-M of the distance row is `{M!r}` but distances range up to `{dist_ub}` (needs >= ub+1) or the row is not "
                              f"d[v] >= d[u] + 1 - M(1-y): un-selected edges constrain distances and valid walks become infeasible", loc)
        xs = [k for k in nf.terms if k.startswith("SUM[") and "self.edge_vars[" in k]
        ysum = [k for k in nf.terms if k.startswith("SUM[") and "self.edge_selected_vars[" in k]
        if len(xs) == 1 and len(ysum) == 1 and nf.rel == ">=" and nf.const.is_zero():
            hit22 = True
            M = nf.terms[ysum[0]]
            key = "AbstractWalkModelDiGraph._encode_walks:22a:big-M"
            loc = f"{f.module.relpath}:{e['_line']}"
            atoms = M.atoms()
            ok = len(atoms) == 1 and (list(atoms)[0].startswith("sum((self.edge_upper_bounds[") or list(atoms)[0].startswith("sum((float(self.edge_upper_bounds[")) and "self.G.predecessors(" in list(atoms)[0] \
                and M.coeff((list(atoms)[0],)) >= 1 and nf.terms[xs[0]].const_value() == -1
            ub_decl = str(decl.get("self.edge_vars", {}).get("ub", ""))
            ok = ok and "self.edge_upper_bounds[" in ub_decl
            if ok:
                rep.ok(RID, key, "M_v = sum of the declared upper bounds of the incoming edge variables", loc, sample={"row": nf.key()})
            else:
                rep.violation(RID, key, f"the big-M `{M!r}` of row 22a is not the sum of the incoming edges' declared upper bounds "
                              f"(edge_vars ub: {ub_decl[:60]}): vertices entered more often than M allows are cut off", loc)
    if not (hit19 and hit22):
        raise AnalysisError("rows 19c / 22a not found in _encode_walks")


def check(prog: Program, rep):
    rep.rule("C01.R1", "path/walk-shape families conform to the frozen formulation table", floor=15)
    conformance(prog, rep, "C01.R1", "C01")
    rep.rule("C01.R1b", "big-M sufficiency of the walk-connectivity rows (from declared bounds)", floor=2)
    bigm_walks(prog, rep, "C01.R1b")
    rep.rule("C01.R2", "strip rule: synthetic endpoints never reach a publishing exit", floor=3)
    ns.strip_rule(prog, rep, "C01.R2")
    rep.rule("C01.R3", "no double augmentation", floor=30)
    ns.no_double_augmentation(prog, rep, "C01.R3")
    rep.rule("C01.R4", "node-mode results are condensed before they are published", floor=12)
    ns.node_results_condensed(prog, rep, "C01.R4")
    rep.rule("C01.R5", "arity of per-path lists", floor=10)
    ns.arity_rule(prog, rep, "C01.R5")
    # one weight per path also on the greedy route of kFlowDecomp (C02.R4: what is published, and how the two lists are padded to k)
    from rules.c02 import greedy_publishes as _gp
    from rules.common import RuleProxy as _RPg
    _gp(prog, _RPg(rep, "C01.R5"), "C02.R4")
    rep.rule("C01.R7", "never more than k paths: under given weights the cap on non-empty paths is the caller's k", floor=3)
    from rules.providers import original_k_provider
    original_k_provider(prog, rep, "C01.R7", ["kFlowDecomp", "kLeastAbsErrors", "kMinPathError"])
    from rules.providers import forced_empty_paths_removed
    forced_empty_paths_removed(prog, rep, "C01.R7", ["kFlowDecomp", "kLeastAbsErrors", "kMinPathError"])
    rep.rule("C01.R6", "admissible endpoints: augmentation guards; node mode maps declared starts to the entry and ends to the exit endpoint", floor=6)
    from rules.c10 import augmentation_guards
    from rules.c11 import naming_rule
    augmentation_guards(prog, rep, "C01.R6")
    naming_rule(prog, rep, "C01.R6")
    # the greedy route: peeled paths run between sources and sinks of the caller's graph only while the working graph keeps its topology (C17.R5)
    from rules.c17 import peeling_rule as _peel
    from rules.common import RuleProxy as _RPp
    _peel(prog, _RPp(rep, "C01.R6"), "C17.R5")
    from rules.providers import given_weights_nonnegative
    given_weights_nonnegative(prog, rep, "C01.R7", ["kFlowDecomp", "kLeastAbsErrors", "kMinPathError"])
