"""C16 - MinErrorFlow returns a closest non-negative flow on the same graph."""
from __future__ import annotations

import ast

from sa.pm import Program, dotted, norm, calls_in, walk_no_nested, AnalysisError
from sa.alias import AliasModel
from rules.formulation import conformance, method_effects
from rules.c13 import SolveFlow
from rules.c10 import scale_zero_ignored

EXPLANATION = (
    "Decides: (R1) the formulation conforms to the frozen table: a conservation row for every node with both in- and out-edges and no other "
    "skip, both absolute-value rows for non-ignored edges and err = 0 for ignored ones, all variables with lower bound 0 (non-negativity), "
    "objective sum scale*err + sparsity_lambda * source outflow, and the epsilon row of the second model uses the same expression as the "
    "first objective; (R2) same graph: the corrected graph is a deep copy of a deep copy of the input that only receives item assignments "
    "(R6) additional starts / ends are wired to the synthetic source / sink exactly by the documented rule (C10.R4), which is what exempts them from conservation.  "
    "of flow_attr; (R3) cache typestate: no cached solution survives the lowering of the solved flag / re-creation of the solver; (R4) the constructor never writes to the caller's ignore list or its shared default.  NOT "
    "decided: optimality; the (1+eps) guarantee as a numeric statement."
    " (R7) few-values variant: the number of value slots is counted on the first solution over the slot edges (not on the published graph), the published error is recomputed from the corrected values of the non-ignored edges (not read from error variables), and solve() re-installs the minimum-error model when the few-values model is installed; (R8) the numpy-scalar bound w_max*|E| reaches the variables (C12.R7). "
    ' (R7, round 3) the variable bound and the recomputed error are computed on Python numbers; scaling factors are float()-converted.'
    ' (R7, hunt 4) error variables are integer only for integral weights; epsilon and lambda are stored as Python floats.'
    ' (R8, hunt 6) w_max - the bound of every variable and the big-M of the few-flow-values model - runs over non-ignored elements only.'
)
DECIDED = ["formulation (conservation, absolute deviation, non-negativity, objective, epsilon budget)", "corrected graph is a copy with only flow values changed",
           "no stale cached solution"]
NOT_DECIDED = ["total change is minimum", "few-values result within (1+eps) of the optimum as a numeric fact"]


def same_graph(prog: Program, rep, RID: str):
    f = prog.own_method("MinErrorFlow", "get_solution")
    src = None
    for st in walk_no_nested(f.node):
        if isinstance(st, ast.Assign) and len(st.targets) == 1 and isinstance(st.targets[0], ast.Name) and isinstance(st.value, ast.Call) and \
                dotted(st.value.func) in ("deepcopy", "copy.deepcopy") and norm(st.value.args[0]) == "self.original_graph_copy":
            src = st.targets[0].id
    key = "MinErrorFlow.get_solution:corrected-graph"
    if src is None:
        rep.violation(RID, key, "the corrected graph is not created as a deep copy of the stored copy of the input graph", f.loc())
        return
    muts = []
    for n in walk_no_nested(f.node):
        if isinstance(n, ast.Assign):
            for t in n.targets:
                base = t
                depth = 0
                while isinstance(base, ast.Subscript):
                    base = base.value
                    depth += 1
                if isinstance(base, ast.Name) and base.id == src and depth > 0:
                    muts.append((n, t, depth))
        if isinstance(n, ast.Call) and isinstance(n.func, ast.Attribute) and isinstance(n.func.value, ast.Name) and n.func.value.id == src and \
                n.func.attr in ("add_edge", "add_node", "remove_edge", "remove_node", "add_edges_from", "remove_nodes_from", "remove_edges_from", "clear"):
            muts.append((n, n, -1))
    # `for u, v, data in <copy>.edges(data=True): data[k] = value` writes <copy>[u][v][k]
    for lp in [n for n in walk_no_nested(f.node) if isinstance(n, ast.For)]:
        it = lp.iter
        if isinstance(it, ast.Call) and isinstance(it.func, ast.Attribute) and it.func.attr == "edges" and norm(it.func.value) == src and \
                any(k.arg == "data" and isinstance(k.value, ast.Constant) and k.value.value is True for k in it.keywords) and \
                isinstance(lp.target, ast.Tuple) and len(lp.target.elts) == 3 and isinstance(lp.target.elts[2], ast.Name):
            alias = lp.target.elts[2].id
            for n in ast.walk(lp):
                if isinstance(n, ast.Assign):
                    for t in n.targets:
                        if isinstance(t, ast.Subscript) and isinstance(t.value, ast.Name) and t.value.id == alias:
                            muts.append((n, t, 3))
                if isinstance(n, ast.Call) and isinstance(n.func, ast.Attribute) and isinstance(n.func.value, ast.Name) and n.func.value.id == alias and \
                        n.func.attr in ("update", "pop", "clear", "setdefault", "popitem"):
                    muts.append((n, n, -1))
    bad = [m for m in muts if not (m[2] == 3 and norm(m[1].slice) == "self.flow_attr")]
    if muts and not bad:
        rep.ok(RID, key, f"deep copy of the input; only `{src}[u][v][flow_attr] = value` item assignments", f.loc(), sample={"writes": [norm(m[0])[:80] for m in muts]})
    elif not muts:
        rep.violation(RID, key, "the corrected values are never written into the returned graph", f.loc())
    else:
        rep.violation(RID, key, f"the returned graph is modified other than by assigning flow values: `{norm(bad[0][0])[:80]}`", f.loc(bad[0][0]))
    g = prog.own_method("MinErrorFlow", "__init__")
    k2 = "MinErrorFlow.__init__:original-copy"
    if any(isinstance(st, ast.Assign) and dotted(st.targets[0]) == "self.original_graph_copy" and isinstance(st.value, ast.Call) and
           dotted(st.value.func) in ("deepcopy", "copy.deepcopy") and norm(st.value.args[0]) == "self.G_internal" for st in walk_no_nested(g.node)):
        rep.ok(RID, k2, "original_graph_copy = deepcopy(G_internal)", g.loc())
    else:
        rep.violation(RID, k2, "the stored copy of the input graph is not a deep copy of the (expanded) input", g.loc())


def nonneg(prog: Program, rep, RID: str):
    cls = prog.cls("MinErrorFlow")
    for f in cls.methods.values():
        for e in method_effects(prog, cls, f):
            if e["kind"] == "add_variables":
                key = f"MinErrorFlow.{f.name}:lb({e.get('family')})"
                if e.get("lb") == "0":
                    rep.ok(RID, key, "lower bound 0", f"{f.module.relpath}:{e['_line']}")
                else:
                    rep.violation(RID, key, f"variable family {e.get('family')} has lower bound {e.get('lb')}: corrected values / errors may become negative",
                                  f"{f.module.relpath}:{e['_line']}")


def epsilon_row(prog: Program, rep, RID: str):
    cls = prog.cls("MinErrorFlow")
    obj = [e for e in method_effects(prog, cls, prog.own_method("MinErrorFlow", "_encode_min_sum_errors_objective")) if e["kind"] == "set_objective"]
    rows = [e for e in method_effects(prog, cls, prog.own_method("MinErrorFlow", "_encode_different_flow_values_and_objective")) if e["kind"] == "add_constraint"]
    if len(obj) != 1:
        raise AnalysisError("first objective not found")
    onf = obj[0]["_nf"]
    key = "MinErrorFlow:epsilon-row-uses-first-objective"
    hit = None
    for r in rows:
        nf = r["_nf"]
        if "objective_value" in repr(nf.const):
            hit = r
    if hit is None:
        rep.violation(RID, key, "no budget row bounding the first objective by (1+eps)*optimum in the few-values model", "")
        return
    nf = hit["_nf"]
    # budget row is  (1+eps)*obj* - expr >= 0  -> its coefficients are the negated objective coefficients
    ok = set(nf.terms) == set(onf.terms) and all((-nf.terms[k]) == onf.terms[k] for k in nf.terms) and nf.rel == ">="
    cst = repr(nf.const).replace(" ", "")
    okc = cst in ("objective_value+objective_value*self.different_flow_values_epsilon", "objective_value*self.different_flow_values_epsilon+objective_value")
    if ok and okc:
        rep.ok(RID, key, "budget row: first objective expression <= (1 + eps) * optimum", f"flowpaths/minerrorflow.py:{hit['_line']}", sample={"row": nf.key()[:300]})
    else:
        rep.violation(RID, key, f"the epsilon row does not bound the first model's objective expression by (1+eps)*optimum (terms equal: {ok}, bound `{cst}`)",
                      f"flowpaths/minerrorflow.py:{hit['_line']}")


def cache_typestate(prog: Program, rep, RID: str):
    cls = prog.cls("MinErrorFlow")
    n = 0
    for f in cls.methods.values():
        fl = SolveFlow(prog, f)
        fl.run(f.node)
        stale = None
        for kind, node, state, what in fl.events:
            if kind in ("return", "fallthrough") and state is not None and any(w.get("#stale") == frozenset(["T"]) for w in state):
                stale = node
        key = f"MinErrorFlow.{f.name}:stale-solution"
        n += 1
        if stale is not None:
            rep.violation(RID, key, "a cached `_solution` survives the lowering of the solved flag / re-creation of the solver: the few-values result is never "
                          "read and get_solution() returns data while is_solved() may be False", f.loc(stale) if hasattr(stale, "lineno") else f.loc())
        else:
            rep.ok(RID, key, "no stale cache on any exit", f.loc(), nontrivial=(f.name == "solve"))


def reported_error_recomputed(prog: Program, rep, RID: str):
    """`error` in the published solution is a function of what is published: |input value - corrected value| summed over the
    non-ignored edges.  Reading the error *variables* is sound only for a model whose objective pushes each of them down to
    the absolute difference - not for the few-values model (objective: number of distinct values)."""
    from rules.common import all_local_defs
    f = prog.own_method("MinErrorFlow", "get_solution")
    defs = all_local_defs(f.node)
    errs = []
    for st in walk_no_nested(f.node):
        if isinstance(st, ast.Assign) and dotted(st.targets[0]) == "self._solution" and isinstance(st.value, ast.Dict):
            for k, v in zip(st.value.keys, st.value.values):
                if isinstance(k, ast.Constant) and k.value == "error":
                    errs.append((st, v))
    if not errs:
        raise AnalysisError("MinErrorFlow.get_solution: no published `error` entry found")
    for st, v in errs:
        e = v
        seen = 0
        while isinstance(e, ast.Name) and e.id in defs and seen < 4:
            e = defs[e.id]
            seen += 1
        closure = [e]
        for n in list(ast.walk(e)):
            if isinstance(n, ast.Name) and n.id in defs:
                closure.append(defs[n.id])
        txt = " ".join(norm(x) for x in closure)
        key = "MinErrorFlow.get_solution:error"
        if "edge_error_vars" in txt:
            rep.violation(RID, key, f"the published error is read from the solver's error variables (`{norm(e)[:80]}`): in the few-flow-values model (and on edges with error "
                          "scaling 0) these are only upper bounds of the absolute differences, free up to the (1+eps) budget - the reported error is not the error "
                          "of the returned graph", f.loc(st))
        elif "self.edge_sol" in txt and "flow_attr" in txt and "abs(" in txt and "edges_to_ignore" in txt:
            rep.ok(RID, key, "recomputed as sum |input - corrected| over the non-ignored edges", f.loc(st), sample={"expr": norm(e)[:160]})
        else:
            raise AnalysisError(f"MinErrorFlow.get_solution: cannot classify the published error `{norm(e)[:100]}`")


def few_values_slots(prog: Program, rep, RID: str):
    """The number of value slots of the few-values model is counted on the first solution over the same (internal) edges the slots
    are created for.  The published graph lives in the caller's namespace (condensed node names in node-weighted mode) and has no
    value on ignored edges without flow attribute: indexing it with internal edges raises KeyError or under-counts."""
    from rules.common import all_local_defs
    f = prog.own_method("MinErrorFlow", "solve")
    defs = all_local_defs(f.node)
    call = [c for c in calls_in(f.node) if (dotted(c.func) or "").endswith("_encode_different_flow_values_and_objective")]
    if len(call) != 1:
        raise AnalysisError("MinErrorFlow.solve: call of _encode_different_flow_values_and_objective not found")
    from sa.pm import kwarg
    ub = kwarg(call[0], "ub_different_flow_values")
    es = kwarg(call[0], "edge_subset")
    if ub is None or es is None:
        raise AnalysisError("MinErrorFlow.solve: arguments ub_different_flow_values / edge_subset not found")
    e = ub
    seen = 0
    while isinstance(e, ast.Name) and e.id in defs and seen < 4:
        e = defs[e.id]
        seen += 1
    published = {n for n, d in defs.items() if isinstance(d, ast.Call) and (dotted(d.func) or "") in ("self.get_corrected_graph",)}
    published |= {n for n, d in defs.items() if isinstance(d, ast.Subscript) and "get_solution()" in norm(d) and "graph" in norm(d)}
    key = "MinErrorFlow.solve:value-slots"
    names = {n.id for n in ast.walk(e) if isinstance(n, ast.Name)}
    if names & published:
        rep.violation(RID, key, f"the number of value slots `{norm(e)[:90]}` is counted on the published graph `{sorted(names & published)[0]}` indexed with the internal "
                      f"edges of `{norm(es)}`: in node-weighted mode that graph has the caller's node names (KeyError), and ignored edges without flow attribute "
                      "all count as one value (too few slots, infeasible second model)", f.loc(call[0]))
    elif "self.edge_sol" in norm(e) and norm(es) in norm(e):
        rep.ok(RID, key, f"counted on the first solution over the slot edges: `{norm(e)[:90]}`", f.loc(call[0]))
    else:
        raise AnalysisError(f"MinErrorFlow.solve: cannot classify the slot count `{norm(e)[:100]}`")


def solve_reentrant(prog: Program, rep, RID: str):
    """solve() optimises whatever model is installed in self.solver.  After a few-values solve that is the second model; a second
    call must first re-install the minimum-error model, otherwise the number of distinct values is taken for the minimum error."""
    f = prog.own_method("MinErrorFlow", "solve")
    builders = ("self._create_solver", "self._encode_flow", "self._encode_min_sum_errors_objective")
    stage2 = [c for c in calls_in(f.node) if (dotted(c.func) or "").endswith("_encode_different_flow_values_and_objective")]
    key = "MinErrorFlow.solve:re-entrancy"
    if not stage2:
        rep.ok(RID, key, "solve() installs no second model", f.loc())
        return
    first_opt = None
    prologue = []
    for st in f.node.body:
        if any(isinstance(c, ast.Call) and dotted(c.func) == "self.solver.optimize" for c in ast.walk(st)):
            first_opt = st
            break
        prologue.append(st)
    if first_opt is None:
        raise AnalysisError("MinErrorFlow.solve: first self.solver.optimize() not found at the top level")
    rebuilt = None
    for st in prologue:
        called = {dotted(c.func) for c in ast.walk(st) if isinstance(c, ast.Call)}
        if all(b in called for b in builders):
            rebuilt = st
    if rebuilt is None:
        rep.violation(RID, key, "solve() optimises the installed model without re-installing the minimum-error model, although a previous solve() with "
                      "few_flow_values_epsilon leaves the few-values model in self.solver: a second call takes the number of distinct values for the minimum "
                      "error and exceeds the (1+eps) bound (or ends infeasible)", f.loc(first_opt))
        return
    if isinstance(rebuilt, ast.If):
        flag = dotted(rebuilt.test)
        if flag is None or not flag.startswith("self."):
            raise AnalysisError(f"MinErrorFlow.solve: rebuild guarded by `{norm(rebuilt.test)}` (not a plain flag attribute)")
        # the flag is raised where the second model is installed (same block as the stage-2 call) and nowhere lowered before it
        raised = False
        for st in ast.walk(f.node):
            if isinstance(st, ast.Assign) and dotted(st.targets[0]) == flag and isinstance(st.value, ast.Constant) and st.value.value is True:
                raised = True
        cleared = any(isinstance(st, ast.Assign) and dotted(st.targets[0]) == "self._solution" and isinstance(st.value, ast.Constant) and st.value.value is None
                      for st in list(ast.walk(rebuilt)) + [p for p in prologue if isinstance(p, ast.Assign)])
        if raised and cleared:
            rep.ok(RID, key, f"a second call re-installs the minimum-error model first (flag {flag}, cached solution dropped)", f.loc(rebuilt))
        elif not raised:
            rep.violation(RID, key, f"the rebuild is guarded by `{flag}`, which solve() never sets where it installs the few-values model", f.loc(rebuilt))
        else:
            rep.violation(RID, key, "the rebuild keeps the cached solution of the previous call", f.loc(rebuilt))
    else:
        rep.ok(RID, key, "every call re-installs the minimum-error model first", f.loc(rebuilt))


def bound_excludes_ignored(prog: Program, rep, RID: str):
    """MinErrorFlow's w_max - the bound of every variable (w_max * |E|) and the big-M of the few-flow-values model - is the largest weight of a *non-ignored*
    element: the weight of an ignored element (missing, NaN, arbitrarily large) must not reach the model (the rule of the ten path / walk models, C10)."""
    from rules.search import comprehension_excludes_ignored
    f = prog.own_method("MinErrorFlow", "__init__")
    stores = [st for st in walk_no_nested(f.node) if isinstance(st, ast.Assign) and any(norm(t) == "self.w_max" for t in st.targets)]
    if not stores:
        raise AnalysisError("MinErrorFlow.__init__: self.w_max is not stored")
    key = "MinErrorFlow.__init__:w_max-excludes-ignored"
    for st in stores:
        v = st.value
        if not (isinstance(v, ast.Call) and dotted(v.func) == "max"):
            raise AnalysisError(f"MinErrorFlow.__init__: w_max = `{norm(v)[:60]}` is not a max(...)")
        reads = [n for n in ast.walk(v) if isinstance(n, (ast.ListComp, ast.GeneratorExp, ast.SetComp)) and "flow_attr" in norm(n.elt)]
        if not reads:
            raise AnalysisError("MinErrorFlow.__init__: the weights under max(...) were not found")
        # ignore set complete at this point: the scale-0 elements are added before
        upd = [s2 for s2 in walk_no_nested(f.node) if isinstance(s2, ast.AugAssign) and norm(s2.target) == "self.edges_to_ignore" and "factor == 0" in norm(s2.value).replace("0 == factor", "factor == 0")]
        late = [s2 for s2 in upd if s2.lineno > st.lineno]
        if all(comprehension_excludes_ignored(n) for n in reads) and not late:
            rep.ok(RID, key, "the maximum runs over the elements that are not ignored (scale-0 elements included in the ignore set before)", f.loc(st))
        elif late:
            rep.violation(RID, key, "w_max is computed before the elements with error scaling factor 0 are added to the ignore set: their weights still reach the bound", f.loc(st))
        else:
            rep.violation(RID, key, f"`{norm(v)[:100]}` takes the maximum over all edges, the ignored ones included: the weight of an ignored element reaches the model as the "
                          "bound of every variable and the big-M of the few-flow-values model - an ignored weight NaN makes the constructor raise, an ignored weight 1e9 makes "
                          "the few-flow-values model report 1 distinct value where 3 is the minimum", f.loc(st), self_contained=True)


def check(prog: Program, rep):
    rep.rule("C16.R1", "formulation conforms to the frozen table; non-negativity; epsilon budget row; scale 0 => ignored", floor=20)
    conformance(prog, rep, "C16.R1", "C16")
    nonneg(prog, rep, "C16.R1")
    epsilon_row(prog, rep, "C16.R1")
    rep.rule("C16.R2", "same graph: deep copy, only flow values written", floor=2)
    same_graph(prog, rep, "C16.R2")
    rep.rule("C16.R3", "cache typestate", floor=5)
    cache_typestate(prog, rep, "C16.R3")
    rep.rule("C16.R4", "the ignore set derives only from this call's arguments (no write to caller objects or shared defaults)", floor=2)
    from rules.c18 import class_inputs_not_mutated
    class_inputs_not_mutated(prog, rep, "C16.R4", ["MinErrorFlow"])
    rep.rule("C16.R5", "node-weighted input: expansion scheme, attribute handling (missing => ignored, present incl. 0 => weighted)", floor=12)
    from rules.common import node_mode_plumbing
    node_mode_plumbing(prog, rep, "C16.R5")
    rep.rule("C16.R6", "additional starts / ends are exempt from conservation because they are wired to the synthetic source / sink by the documented rule (C10.R4)", floor=2)
    from rules.c10 import augmentation_guards
    from rules.common import RuleProxy
    augmentation_guards(prog, RuleProxy(rep, "C16.R6"), "C10.R4")
    rep.rule("C16.R7", "few-values variant: slot count from the first solution, reported error recomputed from the returned values, solve() re-entrant", floor=3)
    few_values_slots(prog, rep, "C16.R7")
    reported_error_recomputed(prog, rep, "C16.R7")
    solve_reentrant(prog, rep, "C16.R7")
    rep.rule("C16.R8", "the bound w_max * |E| (possibly a numpy scalar) reaches the variables: scalar recognition of add_variables (C12.R7)", floor=1)
    from rules.c12 import bounds_materialised
    from rules.common import RuleProxy
    bounds_materialised(prog, RuleProxy(rep, "C16.R8"), "C12.R7")
    bound_excludes_ignored(prog, rep, "C16.R8")
    from rules.values import coefficients_converted
    coefficients_converted(prog, rep, "C16.R7", ["MinErrorFlow"])
    from rules.values import python_arithmetic
    if python_arithmetic(prog, rep, "C16.R7", [m for m in prog.cls("MinErrorFlow").methods.values()],
                         "the bound of the variables (w_max * |E|) comes out too small or negative and the reported error is astronomically large") < 2:
        raise AnalysisError("MinErrorFlow: the variable bound / the recomputed error were not found")
    # epsilon / lambda reach solver expressions: stored as Python floats
    _init = prog.own_method("MinErrorFlow", "__init__")
    for attr, why in (("different_flow_values_epsilon", "the budget row (1 + eps) * objective"), ("sparsity_lambda", "the sparsity term of the objective")):
        sts = [st for st in ast.walk(_init.node) if isinstance(st, ast.Assign) and any(norm(t) == f"self.{attr}" for t in st.targets)]
        key = f"MinErrorFlow.__init__:{attr}-converted"
        if not sts:
            raise AnalysisError(f"MinErrorFlow.__init__: self.{attr} is not stored")
        raw = [st for st in sts if not (isinstance(st.value, ast.Constant) or (isinstance(st.value, ast.Call) and dotted(st.value.func) in ("float", "int")))]
        # a raw store is fine when a later store on the same paths converts it (None / 0 handling): every path must end in a converted or constant value
        last_raw = [st for st in raw if not any(o.lineno > st.lineno and o not in raw for o in sts)]
        if raw and len(raw) == len(sts) or last_raw:
            rep.violation("C16.R7", key, f"`{norm((last_raw or raw)[0])}` keeps the caller's value, which {why} multiplies with solver variables: np.float32(0.5) stays a numpy scalar under "
                          "NumPy 2 and solve() raises AttributeError / 'Unexpected parameters.'", _init.loc((last_raw or raw)[0]))
        else:
            rep.ok("C16.R7", key, f"self.{attr} is stored as a Python float (or None / a constant)", _init.loc(sts[-1]))
