"""C08 - k-Minimum-Path-Error is feasible for k >= width and minimises total slack."""
from __future__ import annotations

import ast
import re

from sa.pm import Program, dotted, norm, walk_no_nested, calls_in, AnalysisError
from rules.formulation import conformance
from rules import semantic, providers
from rules.search import width_call_ok
from rules.c10 import _is_scale0_comp

EXPLANATION = (
    "Decides: (R1) rows 9aa/9ab (scale*(f - sum pi) bounded by +- sum gamma, scale on the error side only), gamma linked per layer to the "
    "(length-scaled) slack exactly as pi to the weight, objective min sum_i slack_i, in all three encoders, with the frozen normal forms; "
    "(R2) length-factor plumbing: piecewise(x = path_length_vars[i], y = slack_factors_vars[i]) per layer, scaled slack = integer helper of "
    "slack and factor, every family used is declared and switched on by the constructor arguments (V1), helper kinds/bounds match "
    "declarations (V2; one tabled exception for gamma's bound under length factors); position / path-length rows of the base class conform; "
    "(R3) k=None takes get_width with the synthetic edges, the ignored edges and the scale-0 edges ignored; (R4) the constructor never writes to the caller's ignore list / options / constraints or "
    "(R3w) the width that k=None and the lower bound rely on counts every non-ignored element (demands of C09.R7); (R7) cyclic model: walk reconstruction (C14.R1).  "
    " (R8) cyclic model: the repetition cap and the product bound are checked against the premises that justify a flow-valued cap (exact flow row, weights >= 1) - all three fail for kMinPathErrorCycles and are reported as known findings (modelling limitation); a non-integral superset is rejected for integer weights; filters decide emptiness on the internal route (C01.R5); (R2, extended) every product helper is told an upper bound that dominates the declared bound of its continuous factor, and the integer helper sizes the bit expansion from a bound that dominates the declared bound of the integer factor (symbolic dominance over the bound attributes set in the constructor, with slack_ub >= 1). "
    "their shared defaults.  NOT decided: feasibility for all "
    "k >= width, optimality of the slack sum."
    ' (R8, round 3) is_valid_solution() scales the error like the model; with empty paths allowed and path length ranges, length 0 lies in some range; coefficient conversion; validity check on Python numbers.'
    ' (R8, hunt 4) with a weight superset w_max covers the sum of the given weights; is_valid_solution() accepts one-node routes; known finding: the path length that selects the slack factor counts the two synthetic edges.'
    " (R3, hunt 6) the validity checks multiply by float(scaling factor) like the model's objective; (R8) stores of the given weights leave them unaltered."
)
DECIDED = ["error/slack rows, linking and objective present and complete", "length-factor plumbing", "k=None -> width of the non-ignored part"]
NOT_DECIDED = ["feasible for every k >= width", "total slack is minimum"]

MODELS = ["kMinPathError", "kMinPathErrorCycles"]


def k_none_rule(prog: Program, rep, RID: str):
    for cname in MODELS:
        cls = prog.cls(cname)
        f = prog.own_method(cname, "__init__")
        call = None
        holder = None
        for st in walk_no_nested(f.node):
            # `self.k = W` or, when the parameter is resolved before it is stored, `k = W` followed by `self.k = k`
            stores_k = any(dotted(t) == "self.k" for t in st.targets) if isinstance(st, ast.Assign) else False
            local_k = isinstance(st, ast.Assign) and any(isinstance(t, ast.Name) and t.id == "k" for t in st.targets) and \
                any(isinstance(s2, ast.Assign) and any(dotted(t) == "self.k" for t in s2.targets) and norm(s2.value) == "k" and s2.lineno > st.lineno for s2 in walk_no_nested(f.node))
            if isinstance(st, ast.Assign) and (stores_k or local_k) and isinstance(st.value, ast.Call) and \
                    isinstance(st.value.func, ast.Attribute) and st.value.func.attr == "get_width":
                call, holder = st.value, st
        key = f"{cname}.__init__:k=None"
        if call is None:
            raise AnalysisError(f"{cname}.__init__: `self.k = self.G.get_width(...)` not found")
        ok, why = width_call_ok(prog, f, call, cls)
        scale0 = [s for s in walk_no_nested(f.node) if isinstance(s, (ast.AugAssign, ast.Assign)) and _is_scale0_comp(getattr(s, "value", s)) ]
        after_scale0 = bool(scale0) and all(s.lineno < holder.lineno for s in scale0)
        from rules.semantic import enclosing_tests
        tests = [norm(t) for t, pol in enclosing_tests(f.node, holder) if pol]
        # (`self.k = k if k is not None else W` is stored by the program model as `if k is not None: self.k = k else: self.k = W`)
        neg_tests = [norm(t) for t, pol in enclosing_tests(f.node, holder) if not pol]
        guarded = any(t in ("self.k is None", "k is None") for t in tests) or any(t in ("self.k is not None", "k is not None") for t in neg_tests)
        if ok and after_scale0 and guarded:
            rep.ok(RID, key, f"k defaults to the width with {why}; scale-0 edges already in the ignore set", f.loc(holder), sample={"call": norm(call)})
        else:
            rep.violation(RID, key, f"k=None does not take the covering number of the non-ignored part: width call ok={ok} ({why}); computed after "
                          f"scale-0 edges were ignored={after_scale0}; under `k is None`={guarded}", f.loc(holder))


def check(prog: Program, rep):
    rep.rule("C08.R1", "min-path-error families conform to the frozen formulation table", floor=30)
    conformance(prog, rep, "C08.R1", "C08")
    rep.rule("C08.R2", "linking (flag consumers), helper preconditions (V2), declared-before-used (V1)", floor=10)
    semantic.flag_consumers(prog, rep, "C08.R2", MODELS)
    for c in MODELS:
        semantic.helper_preconditions(prog, rep, "C08.R2", c)
    from rules.common import helpers_exact
    helpers_exact(prog, rep, "C08.R2", piecewise=True)
    providers.declared_before_used(prog, rep, "C08.R2", MODELS)
    providers.wmax_provider(prog, rep, "C08.R2", MODELS)
    providers.numeric_type(prog, rep, "C08.R2", MODELS)
    rep.rule("C08.R3", "k=None -> width of the graph without ignored edges", floor=2)
    k_none_rule(prog, rep, "C08.R3")
    rep.rule("C08.R3w", "the width that k=None / the lower bound rely on counts every non-ignored element (per-edge, per-condensation-edge and per-SCC demands; C09.R7)", floor=4)
    from rules.c09 import width_demands
    from rules.common import RuleProxy
    width_demands(prog, RuleProxy(rep, "C08.R3w"), "C09.R7")
    from rules.values import scaling_factors_converted_in_readers
    scaling_factors_converted_in_readers(prog, rep, "C08.R3", [("kMinPathError", "is_valid_solution"), ("kMinPathErrorCycles", "is_valid_solution")])
    rep.rule("C08.R4", "the ignore set and options derive only from this call's arguments (no write to caller objects or shared defaults)", floor=6)
    from rules.c18 import class_inputs_not_mutated
    class_inputs_not_mutated(prog, rep, "C08.R4", MODELS)
    rep.rule("C08.R5", "node-weighted input: expansion scheme, attribute handling (missing => ignored, present incl. 0 => weighted)", floor=12)
    from rules.common import node_mode_plumbing
    node_mode_plumbing(prog, rep, "C08.R5")
    rep.rule("C08.R8", "cyclic model: the repetition cap and the product bound are justified (exact flow row, weights >= 1); DAG and cyclic filters decide "
             "emptiness on the internal route (C01.R5)", floor=5)
    from rules.bounds import cap_premises
    cap_premises(prog, rep, "C08.R8", "kMinPathErrorCycles", which=("P2", "P3", "P4"))
    from rules.common import RuleProxy as _RP
    from rules import ns as _ns
    _ns.arity_rule(prog, _RP(rep, "C08.R8"), "C01.R5", only=("kMinPathError", "kMinPathErrorCycles"))
    rep.rule("C08.R7", "cyclic model: the walks handed out traverse every edge exactly as often as the solver decided (linear-use rule of C14.R1)", floor=6)
    from rules import c14
    from rules.common import RuleProxy
    px = RuleProxy(rep, "C08.R7")
    c14.trail_loop_rule(prog, px, "C14.R1", prog.own_method("AbstractWalkModelDiGraph", "_reconstruct_eulerian_walk"), ("walk",))
    c14.trail_loop_rule(prog, px, "C14.R1", prog.own_method("AbstractWalkModelDiGraph", "_build_closed_walk_from_vertex"), ("closed_walk",))
    c14.residual_rule(prog, px, "C14.R1")
    c14.splice_rule(prog, px, "C14.R1")
    from rules.providers import given_weights_integral
    given_weights_integral(prog, rep, "C08.R8", ["kMinPathError"])
    from rules.c04 import repetition_caps as _rc_caps
    from rules.common import RuleProxy as _RPcaps
    _rc_caps(prog, _RPcaps(rep, "C08.R8"), "C04.R5")
    from rules.providers import given_weights_above_coefficient_threshold
    given_weights_above_coefficient_threshold(prog, rep, "C08.R8", ["kMinPathError"])
    # the self-check of positions / path lengths compares with a tolerance (sums of non-integer lengths are not integers)
    ap = prog.cls("AbstractPathModelDAG")
    for mname in ("verify_edge_position", "verify_path_length"):
        m = ap.methods.get(mname)
        if m is None:
            continue
        key = f"AbstractPathModelDAG.{mname}:tolerance"
        rounds = [c for c in ast.walk(m.node) if isinstance(c, ast.Compare) and any(isinstance(x, ast.Call) and dotted(x.func) == "round" for x in [c.left] + list(c.comparators))]
        if rounds:
            rep.violation("C08.R8", key, f"`{norm(rounds[0])[:80]}` rounds the solver value before comparing it with a sum of edge lengths: with a non-integer length_attr the "
                          "model's own correct solution is reported invalid (is_valid_solution() False)", m.loc(rounds[0]))
        else:
            rep.ok("C08.R8", key, "solver values are compared with the sums of the edge lengths up to a tolerance", m.loc())
    from rules.values import coefficients_converted
    coefficients_converted(prog, rep, "C08.R8", ["kMinPathError", "kMinPathErrorCycles", "AbstractPathModelDAG"])
    for cname in ("kMinPathError", "kMinPathErrorCycles"):
        m = prog.own_method(cname, "is_valid_solution")
        from rules.common import all_local_defs as _ald, substitute_locals as _sl
        _defs = _ald(m.node)
        cmp_ = []
        for c in ast.walk(m.node):
            if isinstance(c, ast.Compare):
                left = _sl(c.left, _defs)        # the deviation may be computed into a local first
                if "abs(" in norm(left) and "flow_attr" in norm(left):
                    cmp_.append(ast.Compare(left=left, ops=c.ops, comparators=c.comparators, lineno=c.lineno, col_offset=c.col_offset))
        key = f"{cname}.is_valid_solution:scaled-error"
        if not cmp_:
            raise AnalysisError(f"{cname}.is_valid_solution: the comparison of |flow - load| with the slacks was not found")
        if "edge_error_scaling" in norm(cmp_[0].left):
            rep.ok("C08.R8", key, "the validity check scales |flow - load| by the edge's factor, like the model", m.loc(cmp_[0]))
        else:
            rep.violation("C08.R8", key, f"`{norm(cmp_[0].left)[:80]}` is compared with the slacks unscaled, while the model (and the documentation) scale the error of an edge by "
                          "its factor: with error_scaling={e: 0.5} the model's own optimal solution is reported invalid", m.loc(cmp_[0]))
    # empty paths (unused weights of a superset) have length 0: with path length ranges some range has to contain 0
    init = prog.own_method("kMinPathError", "__init__")
    zero = [st for st in ast.walk(init.node) if isinstance(st, ast.If) and "allow_empty_paths" in norm(st.test) and "path_length_ranges" in norm(st.test) and
            any("[0, 0]" in norm(x) for x in st.body)]
    key = "kMinPathError.__init__:empty-path-length"
    uses_ranges = any("path_length_ranges" in norm(c) for c in calls_in(prog.own_method("kMinPathError", "_encode_minpatherror_decomposition_with_given_weights").node)
                      if isinstance(c.func, ast.Attribute) and c.func.attr == "add_piecewise_constant_constraint")
    if not uses_ranges:
        rep.ok("C08.R8", key, "the given-weights model does not select factors by path length", init.loc())
    elif zero:
        rep.ok("C08.R8", key, "with empty paths allowed, length 0 lies in some range (the range [0, 0] is added when no given range contains it)", init.loc(zero[0]))
    else:
        rep.violation("C08.R8", key, "the length-to-factor selection is stated for every layer of the given-weights model, also for the unused weights whose paths are empty (length 0): "
                      "if no range contains 0 every given weight is forced onto a real path (ranges [[1, 100]], factor 1, superset [5, 3] on s->a->t with flow 5: infeasible for "
                      "k=1, slack 3 for k=2, optimum 0)", init.loc())
    from rules.values import python_arithmetic as _pa
    from sa.pm import AnalysisError as _AE
    if _pa(prog, rep, "C08.R8", [prog.own_method(c, "is_valid_solution") for c in ['kMinPathError', 'kMinPathErrorCycles']],
           "is_valid_solution() reports the model's own optimal solution invalid (5 - 7 = 254 for np.uint8)") < 2:
        raise _AE("is_valid_solution: the comparison of the flow values with the load of the routes was not found")
    # the consumers replace the product of an edge flagged `= 1` / `= 0` by the weight / by 0: the flag has to be set exactly where the matching constraint
    # (or queued fix) is stated (C05.R1)
    from rules.common import RuleProxy as _RPf
    semantic.flag_pairing(prog, _RPf(rep, "C08.R2"), "C05.R1")
    from rules.plumb import constraints_as_safe_sequences_rule
    constraints_as_safe_sequences_rule(prog, _RPf(rep, "C08.R8"), "C05.R10")
    # the length of a solution path, which selects its slack factor, is the length of the path itself
    _ep = prog.own_method("AbstractPathModelDAG", "_encode_paths")
    _rows = [c for c in calls_in(_ep.node) if isinstance(c.func, ast.Attribute) and c.func.attr == "add_constraint" and c.args and "self.path_length_vars[" in norm(c.args[0])]
    if not _rows:
        raise AnalysisError("AbstractPathModelDAG._encode_paths: the row defining path_length_vars was not found")
    for _c in _rows:
        _gens = [g for n_ in ast.walk(_c.args[0]) if isinstance(n_, (ast.GeneratorExp, ast.ListComp)) for g in n_.generators]
        _all_edges = any(norm(g.iter) in ("self.G.edges()", "self.G.edges") and not any("source" in norm(i) or "sink" in norm(i) for i in g.ifs) for g in _gens)
        _zero_for_synthetic = "source_sink_edges" in norm(_c.args[0]) or "self.G.source" in norm(_c.args[0])
        key = "AbstractPathModelDAG._encode_paths:path-length-own-edges"
        if _all_edges and not _zero_for_synthetic:
            rep.violation("C08.R8", key, "path_length_vars[i] sums `.get(length_attr, 1)` over *all* edges of the internal graph, the synthetic (source, first node) and (last node, "
                          "sink) edges included - each counts 1: the model selects the slack factor by |P| + 2 (documentation: |P_i|, the length of the solution path). s->a 5, "
                          "a->t 9, k=1, ranges [[0,2],[3,100]], factors [1,2]: slack 1 reported (length read as 4), 2 by brute force; ranges [[0,2]] alone: kInfeasible",
                          _ep.loc(_c), self_contained=True)
        else:
            rep.ok("C08.R8", key, "the path length sums the lengths of the path's own edges", _ep.loc(_c))
    # with a weight superset several given weights can share an edge: the slack bound has to cover their sum
    _init = prog.own_method("kMinPathError", "__init__")
    # (a local that names the superset - `given_weights = self.solution_weights_superset or []` - is written out)
    from rules.common import local_single_defs as _lsd8, substitute_locals as _sl8
    import copy as _copy8
    _al = {k_: v_ for k_, v_ in _lsd8(_init.node).items() if "solution_weights_superset" in norm(v_) and not any(isinstance(x_, ast.Call) for x_ in ast.walk(v_))}
    _w = []
    for st in ast.walk(_init.node):
        if isinstance(st, ast.Assign) and any(norm(t) == "self.w_max" for t in st.targets):
            st2 = _copy8.copy(st)
            st2.value = _sl8(st.value, _al) if _al else st.value
            if "solution_weights_superset" in norm(st2.value):
                _w.append(st2)
    key = "kMinPathError.__init__:slack-bound-with-superset"
    if not _w:
        raise AnalysisError("kMinPathError.__init__: w_max is not related to the weight superset")
    _v = _w[-1].value
    _sums = [n_ for n_ in ast.walk(_v) if isinstance(n_, ast.Call) and dotted(n_.func) == "sum" and "solution_weights_superset" in norm(n_)]
    _maxs = [n_ for n_ in ast.walk(_v) if isinstance(n_, ast.Call) and dotted(n_.func) == "max" and n_ is not _v and "solution_weights_superset" in norm(n_) and not any(x in _sums for x in ast.walk(n_))]
    if _sums and not _maxs:
        _raw = [s_ for s_ in _sums if s_.args and isinstance(s_.args[0], (ast.Name, ast.Attribute, ast.BoolOp))]
        if _raw:
            rep.violation("C08.R8", key, f"`{norm(_raw[0])[:70]}` adds up the caller's weights in their own type: np.uint8 130 + 130 = 4", _init.loc(_w[-1]))
        else:
            rep.ok("C08.R8", key, f"w_max covers the sum of the given weights (`{norm(_v)[:80]}`)", _init.loc(_w[-1]))
    else:
        rep.violation("C08.R8", key, f"`{norm(_w[-1])[:90]}` extends w_max - the bound of the slacks and of their products - by the *largest* given weight only: several given "
                      "weights can share an edge, so the error of an edge and the slack one path needs reach their sum (n0->n1 1, n0->n2 2, n1->n2 1, n1->n4 2, n2->n3 1, k=3, "
                      "superset [11, 11, 11]: total slack 31 reported, 30 is optimal)", _init.loc(_w[-1]))
    # a route through a single node (a node that is both a start and an end) is a legitimate route: the validity check must not raise on it
    for cname in ("kMinPathError", "kMinPathErrorCycles"):
        m = prog.own_method(cname, "is_valid_solution")
        key = f"{cname}.is_valid_solution:single-node-route"
        bad = [i for i in ast.walk(m.node) if isinstance(i, ast.If) and re.search(r"len\(\w+\) == 1\b", norm(i.test)) and any(isinstance(x, ast.Raise) for x in ast.walk(i))]
        if bad:
            rep.violation("C08.R8", key, f"is_valid_solution() raises under `{norm(bad[0].test)}`: a route through a single node is what get_solution() reports for a node that is both "
                          "a start and an end (a->b 5, additional_ends=['a'], k=2: [['a','b'], ['a']]), so the check raises ValueError on the model's own optimum", m.loc(bad[0]))
        else:
            rep.ok("C08.R8", key, "one-node routes are not rejected", m.loc())
