"""C04 - MinFlowDecompCycles finds a decomposition into the fewest walks.

Minimality, completeness and the scale-invariance clause are statements about solver verdicts, Dilworth-type bounds and numerics:
not decidable statically.  Decided: the structural necessary conditions of the search (as C03) and the repetition caps.
"""
from __future__ import annotations

from sa.pm import Program, dotted, norm, AnalysisError
from rules.c03 import run

EXPLANATION = (
    "Decides structural necessary conditions of the minimum search of MinFlowDecompCycles on all paths of the current tree: (R1) search "
    "protocol (start at the lower bound, ascend by one, next k only after an infeasible verdict, True only with a proven model, publish that "
    "model's solution, elapsed-time exit returns False, guessed-weights model adopted only if its number of walks equals k); (R2) the k-range "
    "reaches |E| (+1 exclusive); (R3) lower-bound candidates are tabled providers composed by max; the condensation-width query ignores the "
    "synthetic source/sink edges together with the user's ignore set; the min-gen-set bound is not computed from ignored edges' values; "
    "(R4) no process exit; (R5) repetition caps: after initialisation a cap is only ever overwritten with 1 and only for non-SCC edges; the cap "
    "each walk model passes is the tabled provider (own flow / w_max, max reachable value, |E||V|); the variable bound of x and the big-M of "
    "row 22a are that same cap (formulation table); (R6) the options dict is never written; (R7) under every "
    "optimisation setting an edge inside an SCC is only bounded from below by its multiplicity in a safe sequence (the bounds route equals the "
    "(R8) the integer*continuous product helper every walk model uses is exact up to its bound (bit count proof and rows of C12.R2).  "
    " (R5, extended) premises of the flow-valued repetition cap of kFlowDecompCycles are checked in the code: own-flow values cap only non-ignored edges, the flow row is exact, and the weights are at least 1 when positive - the last premise fails for weight_type=float and is reported as the known finding cap-units (scale invariance of C04 does not hold for factors below 1); (R3, extended) the total handed to MinGenSet (out-flow minus in-flow with missing values read as 0) is used only when every edge has a flow value; (R9) the products x*g of MinGenSet are bounded by max(total, numbers) (C15.R6); (R2, extended) the k-range reaches |E| + number of subset constraints. "
    " (R10) as C03.R9 for MinFlowDecompCycles. "
    "constraint route), so walks may still repeat a cycle as often as a minimum decomposition needs.  The cap of ignored edges adds the *sum* of the other caps (a max / min aggregate in its place is reported); the safety fixing / pruning rows of the walk base class conform to the table.  NOT decided: minimality, completeness, validity of the condensation width as a bound, "
    "scale invariance for non-integer weights."
    ' (R10, round 3) as C03.R9 for the cyclic class; the repetition cap of an ignored edge is structural (|E| + sum of the non-ignored flows), never a flow value or w_max.'
    ' (R10, round 4) cache ownership and purity of the reachability queries the default pruning reads (C17.R1 / R2).'
    ' (R5, hunt 7) the cap of an edge outside every SCC is the literal 1 (min(1, cap) turns a flow-valued cap below 1 into the bound 0).'
)
DECIDED = ["search protocol on every path", "range reaches the largest attainable optimum", "lower-bound providers and width-call convention",
           "no process exit", "per-edge repetition caps: providers, overwrite discipline, bound and big-M tied to the cap"]
NOT_DECIDED = ["the number of returned walks is minimum", "solve() succeeds on every decomposable instance",
               "multiplying all flows by a common factor changes nothing (numeric sufficiency of the caps)"]


# ----------------------------------------------------------------------------------------------- C04.R5
import ast as _ast
import re
from sa.pm import calls_in as _calls_in, is_super_call as _is_super, kwarg as _kwarg, walk_no_nested as _wnn
from rules.formulation import conformance as _conformance
from rules.semantic import enclosing_tests as _enclosing_tests
from rules.common import local_single_defs as _lsd, substitute_locals as _subst

CAP_PROVIDERS = {
    "kFlowDecompCycles": ("max_edge_repetition_dict", "{(u, v): data[self.flow_attr] if self.flow_attr in data and (u, v) not in self.edges_to_ignore else self.w_max for u, v, data in self.G.edges(data=True)}",
                          "the edge's own flow (x*w <= f, w >= 1) for edges whose flow row is in the model; w_max for ignored and attribute-less helper edges"),
    "kLeastAbsErrorsCycles": ("max_edge_repetition_dict", "self.G.compute_edge_max_reachable_value(flow_attr=self.flow_attr)", "largest weight reachable from / reaching the edge"),
    "kMinPathErrorCycles": ("max_edge_repetition_dict", "self.G.compute_edge_max_reachable_value(flow_attr=self.flow_attr)", "largest weight reachable from / reaching the edge"),
    "kPathCoverCycles": ("max_edge_repetition", "self.G.number_of_edges() * self.G.number_of_nodes()", "|E|*|V| bounds the length of a shortest covering walk"),
}


def repetition_caps(prog, rep, RID):
    f = prog.own_method("AbstractWalkModelDiGraph", "__init__")
    n = 0
    for st in _wnn(f.node):
        if isinstance(st, _ast.Assign):
            for t in st.targets:
                if isinstance(t, _ast.Subscript) and dotted(t.value) == "self.edge_upper_bounds":
                    n += 1
                    tests = list(_enclosing_tests(f.node, st))
                    # an earlier `if c: continue` of the same loop body is a guard `not c` of the store
                    for lp_ in _ast.walk(f.node):
                        if isinstance(lp_, (_ast.For, _ast.While)) and any(x is st for x in lp_.body):
                            for sib in lp_.body:
                                if sib is st:
                                    break
                                if isinstance(sib, _ast.If) and not sib.orelse and sib.body and isinstance(sib.body[-1], _ast.Continue):
                                    tests.append((sib.test, False))
                    lit1 = isinstance(st.value, _ast.Constant) and st.value.value == 1
                    guard = any((not pol and "self.G.is_scc_edge(" in norm(tt) and not norm(tt).startswith("not")) or
                                (pol and norm(tt).startswith("not self.G.is_scc_edge(")) for tt, pol in tests)
                    # `min(1, <the cap itself>)` looks like the careful form but is not: the cyclic error models pass flow values as caps, and a float flow below 1
                    # turns into the bound 0 of an integer variable (repair 1ed69cd did that and was reverted by 620db2b)
                    if isinstance(st.value, _ast.Call) and dotted(st.value.func) == "min" and guard:
                        rep.violation(RID, "AbstractWalkModelDiGraph.__init__:cap-overwrite", f"`{norm(st)}` keeps a cap below 1 for an edge outside every SCC: the caps the cyclic error "
                                      "models pass are flow values, below 1 for float flows, so the edge variable gets the upper bound 0 and kMinPathErrorCycles / kLeastAbsErrorsCycles "
                                      "report valid instances with weights below 1 infeasible; such an edge is crossed at most once - the bound is 1", f.loc(st), self_contained=True)
                        continue
                    key = "AbstractWalkModelDiGraph.__init__:cap-overwrite"
                    if lit1 and guard:
                        rep.ok(RID, key, "caps are overwritten only with 1 and only for edges outside every SCC", f.loc(st), sample={"stmt": norm(st), "guard": [norm(tt) for tt, _ in tests]})
                    else:
                        rep.violation(RID, key, f"`{norm(st)}` under {[norm(tt) for tt, _ in tests]}: the per-edge repetition cap is overwritten with something other than 1 or "
                                      "not only for non-SCC edges - cycles can then not be traversed as often as a minimum decomposition needs", f.loc(st))
    if n == 0:
        raise AnalysisError("AbstractWalkModelDiGraph.__init__: cap overwrite not found")
    for cname, (kw, pat, why) in CAP_PROVIDERS.items():
        g = prog.own_method(cname, "__init__")
        sup = [c for c in _calls_in(g.node) if _is_super(c) and c.func.attr == "__init__"]
        if not sup:
            raise AnalysisError(f"{cname}.__init__: super().__init__ not found")
        v = _kwarg(sup[0], kw)
        key = f"{cname}.__init__:cap-provider"
        if v is None:
            rep.violation(RID, key, f"`{kw}` is not passed to the walk base class: every edge is capped at the default 1 repetition", g.loc(sup[0]))
            continue
        if cname in ("kLeastAbsErrorsCycles", "kMinPathErrorCycles"):
            # The cap of an edge is the largest flow value reachable from / reaching it.  The value of an ignored edge bounds nothing: it must not enter
            # the maxima (edges_to_ignore handed to the computation), and the ignored edges themselves need a bound that does not come from a flow
            # value of their own (a structural one, derived from the caps of the other edges).
            def name_def(nm):
                defs_ = [st for st in _ast.walk(g.node) if isinstance(st, _ast.Assign) and any(isinstance(t, _ast.Name) and t.id == nm for t in st.targets)]
                return defs_[0].value if len(defs_) == 1 else None
            src = v
            if isinstance(v, _ast.Name):
                src = name_def(v.id)
                if src is None:
                    raise AnalysisError(f"{cname}.__init__: cannot tell how `{v.id}` (the repetition caps) is defined")
            # form A: d = compute(...); for e in d: if e in ignored: d[e] = B         form B: d = {e: (B if e in ignored else b) for e, b in compute(...).items()}
            override_value, compute_call = None, None
            if isinstance(src, _ast.Call) and isinstance(src.func, _ast.Attribute) and src.func.attr == "compute_edge_max_reachable_value":
                compute_call = src
                overrides = [st for st in _ast.walk(g.node) if isinstance(st, _ast.Assign) and isinstance(st.targets[0], _ast.Subscript) and isinstance(v, _ast.Name) and
                             norm(st.targets[0].value) == v.id and any("edges_to_ignore" in norm(t_) for t_, pol_ in _enclosing_tests(g.node, st) if pol_)]
                if not overrides:
                    # `for e in d: if e not in ignored: continue; d[e] = B` - the store is reached only for ignored edges
                    for lp_ in _ast.walk(g.node):
                        if isinstance(lp_, _ast.For):
                            for i_, st in enumerate(lp_.body):
                                if isinstance(st, _ast.Assign) and isinstance(st.targets[0], _ast.Subscript) and isinstance(v, _ast.Name) and norm(st.targets[0].value) == v.id:
                                    guards_ = [x for x in lp_.body[:i_] if isinstance(x, _ast.If) and not x.orelse and x.body and isinstance(x.body[-1], _ast.Continue)]
                                    if any(re.search(r"not in .*edges_to_ignore|^not \(?.* in .*edges_to_ignore", norm(x.test)) for x in guards_):
                                        overrides.append(st)
                if not overrides and any(isinstance(st, (_ast.Assign, _ast.AugAssign)) and isinstance(getattr(st, "targets", [getattr(st, "target", None)])[0], _ast.Subscript) and
                                         isinstance(v, _ast.Name) and norm(getattr(st, "targets", [getattr(st, "target", None)])[0].value) == v.id for st in _ast.walk(g.node)):
                    raise AnalysisError(f"{cname}.__init__: `{v.id}` is written after it was computed, under a condition this rule does not recognise")
                override_value = overrides[0].value if overrides else None
            elif isinstance(src, _ast.DictComp) and len(src.generators) == 1 and isinstance(src.generators[0].iter, _ast.Call) and \
                    isinstance(src.generators[0].iter.func, _ast.Attribute) and src.generators[0].iter.func.attr == "items":
                base = src.generators[0].iter.func.value
                base = name_def(base.id) if isinstance(base, _ast.Name) else base
                if isinstance(base, _ast.Call) and isinstance(base.func, _ast.Attribute) and base.func.attr == "compute_edge_max_reachable_value":
                    compute_call = base
                    val = src.value
                    if isinstance(val, _ast.IfExp) and "edges_to_ignore" in norm(val.test):
                        override_value = val.orelse if norm(val.test).startswith("not ") or " not in " in norm(val.test) else val.body
            if compute_call is None:
                if any(isinstance(n_, _ast.Call) and isinstance(n_.func, _ast.Attribute) and n_.func.attr == "compute_edge_max_reachable_value" for n_ in _ast.walk(g.node)):
                    raise AnalysisError(f"{cname}.__init__: cannot relate the repetition caps `{norm(v)[:60]}` to compute_edge_max_reachable_value (unrecognised construction)")
                rep.violation(RID, key, f"max_edge_repetition_dict = `{norm(v)[:80]}` is not the tabled provider ({why}): walks that must repeat an edge more often are cut off", g.loc(sup[0]))
                continue
            src = compute_call
            ign = _kwarg(src, "edges_to_ignore", 1)
            if ign is None or "edges_to_ignore" not in norm(ign):
                rep.violation(RID, key + ":ignored-values", f"`{norm(src)[:90]}` computes the largest reachable flow value over *all* edges: the value of an ignored edge caps the traversals "
                              "of the edges around it and of the edge itself (s->a 1, a->b F ignored, b->c 3, c->a 3, b->d 3, d->a 3, a->t 1, k=1: optimum 0 for every F, 4 / slack 1 "
                              "reported unless F >= 6; in node-weighted mode every original edge is such an edge)", g.loc(src))
            elif override_value is None:
                rep.violation(RID, key + ":ignored-values", "the ignored edges keep the cap computed from flow values (0 once they do not enter the maxima - no walk can use them): they need a "
                              "bound of their own, derived from the caps of the non-ignored edges", g.loc(src))
            else:
                ov = override_value
                for _i in range(4):
                    ov2 = _subst(ov, _lsd(g.node))
                    if norm(ov2) == norm(ov):
                        break
                    ov = _ast.parse(norm(ov2), mode="eval").body
                ov = norm(ov)
                if "number_of_edges()" in ov and "sum(" in ov:
                    rep.ok(RID, key, "largest non-ignored flow value reachable from / reaching the edge; ignored edges get |E| + the sum of the other caps", g.loc(src))
                elif "sum(" not in ov and any(isinstance(n_, _ast.Call) and isinstance(n_.func, _ast.Name) and n_.func.id in ("max", "min") and n_.args and
                                              any(isinstance(x_, (_ast.GeneratorExp, _ast.ListComp)) for x_ in _ast.walk(n_.args[0])) for n_ in _ast.walk(_ast.parse(ov, mode="eval"))):
                    # an ignored edge shared by several cycles is crossed once per traversal of each of them: its traversals add up over the
                    # non-ignored edges around it, so the largest single cap (max over the collection) is below what an optimal walk may need
                    # (only when that aggregate enters additively: `|E| * max(..)` dominates the sum and is not this defect)
                    from sa.poly import to_poly as _tp2
                    _pl = _tp2(_ast.parse(ov, mode="eval").body)
                    if any(len(m_) > 1 and any("max(" in a_ or "min(" in a_ for a_ in m_) for m_ in _pl.t):
                        raise AnalysisError(f"{cname}.__init__: cannot classify the cap `{ov[:80]}` given to ignored edges (a product with a max / min aggregate)")
                    rep.violation(RID, key + ":ignored-values", f"the cap of the ignored edges `{ov[:160]}` takes the largest (max / min) of the other caps, not their sum: an ignored edge "
                                  "shared by several cycles is crossed as often as all of them together (s->a, a->b ignored, b->c->a 5 times and b->d->a 5 times: "
                                  "a->b is crossed 11 times), so optimal walks are cut off and a worse decomposition is reported as optimal", g.loc(src))
                else:
                    raise AnalysisError(f"{cname}.__init__: cannot classify the cap `{ov[:80]}` given to ignored edges")
            continue
        from rules.common import canonical_value, canonical_text
        txt = canonical_value(g.node, v)
        want = canonical_text(pat)
        if isinstance(v, _ast.Call) or True:
            from sa.poly import to_poly as _tp
            same_poly = False
            try:
                same_poly = repr(_tp(_ast.parse(txt, mode="eval").body)) == repr(_tp(_ast.parse(want, mode="eval").body))
            except SyntaxError:
                pass
        equivalent_form = False
        if cname == "kFlowDecompCycles":
            # a dict over the edges whose value is, case by case, the edge's own flow value (which case applies to which edge is decided by
            # the premises rule: own flow only for non-ignored edges carrying the attribute) or, for ignored / attribute-less edges, a bound
            # on the traversals of any walk of weight >= 1: |E| + sum of the non-ignored flow values.  w_max (k * largest flow) is not
            # such a bound: one walk may cross an ignored cycle edge once per cycle that returns through it.
            from rules.common import expr_cases
            from rules.bounds import _resolve, expand_get
            try:
                e_ = _ast.parse(txt, mode="eval").body
            except SyntaxError:
                e_ = _resolve(g, v)
            e_ = expand_get(e_)
            if not (isinstance(e_, _ast.DictComp) and len(e_.generators) == 1 and "self.G.edges" in norm(e_.generators[0].iter)):
                raise AnalysisError(f"{cname}.__init__: the repetition cap `{txt[:100]}` is not a dict over the edges of self.G")
            ldefs = _lsd(g.node)
            from rules.common import substitute_locals as _subl

            def _deep(x):
                # follow locals to their definitions (a few levels: `bound = |E| + ceil(sum(values))`, `values = [... if not ignored]`)
                for _i in range(4):
                    y = _subl(x, ldefs)
                    if norm(y) == norm(x):
                        break
                    x = _ast.parse(norm(y), mode="eval").body
                return x
            vals = [norm(_deep(x)) for _, x in expr_cases(e_.value)]
            own = [t for t in vals if re.fullmatch(r"[\w.\[\], ()]+\[self\.flow_attr\]", t)]
            other = [t for t in vals if t not in own]
            structural = [t for t in other if "number_of_edges()" in t and "sum(" in t and "edges_to_ignore" in t and "flow_attr" in t]
            if own and other and len(structural) == len(other):
                equivalent_form = True
                txt = txt[:60] + " ... "
            elif any(t == "self.w_max" for t in other):
                rep.violation(RID, key, f"ignored and attribute-less edges are capped at `self.w_max` (k times the largest non-ignored flow value): that is no bound on the "
                              "traversals of a walk, which may cross an ignored cycle edge once per cycle returning through it (s->h, h->l0/l1/l2->x, x->h ignored, x->t: "
                              "k=1 is kInfeasible and MinFlowDecompCycles returns 2 walks); a structural bound is |E| + sum of the non-ignored flow values", g.loc(sup[0]))
                continue
            elif any(isinstance(x, _ast.Constant) for _, x in expr_cases(e_.value)):
                equivalent_form = False
            else:
                raise AnalysisError(f"{cname}.__init__: cannot classify the repetition cap `{txt[:100]}`")
            same_poly = False
            want = None
        if txt == want or same_poly or equivalent_form:
            rep.ok(RID, key, f"{kw} = {txt[:80]} ({why})", g.loc(sup[0]), sample={"class": cname, "cap": txt[:120]})
        else:
            rep.violation(RID, key, f"{kw} = `{txt[:100]}` is not the tabled provider ({why}): walks that must repeat an edge more often are cut off", g.loc(sup[0]))


def check(prog, rep):
    run(prog, rep, "C04", "MinFlowDecompCycles", "walks", False, 4)
    rep.rule("C04.R5", "per-edge repetition caps: providers, overwrite discipline, variable bound and big-M tied to the cap", floor=7)
    repetition_caps(prog, rep, "C04.R5")
    from rules.bounds import cap_premises
    cap_premises(prog, rep, "C04.R5", "kFlowDecompCycles")
    _conformance(prog, rep, "C04.R5", "C04")
    rep.rule("C04.R7", "safe-sequence fixing never forbids further repetitions of a cycle edge: SCC edges get lower bounds (x >= m) on both option routes", floor=2)
    from rules.c05 import bound_vs_constraint_route
    bound_vs_constraint_route(prog, rep, "C04.R7")
    rep.rule("C04.R8", "the integer*continuous product helper every walk model uses is exact for multiplicities up to its bound (bit count, rows; C12.R2)", floor=5)
    from rules.common import helpers_exact
    helpers_exact(prog, rep, "C04.R8")
    rep.rule("C04.R9", "the min-gen-set lower bound is not an over-estimate: product bounds of MinGenSet cover max(numbers) (C15.R6)", floor=2)
    from rules.bounds import product_covers_rhs
    from rules.common import RuleProxy
    product_covers_rhs(prog, RuleProxy(rep, "C04.R9"), "C15.R6")
    rep.rule("C04.R10", "solver noise of a float generating set does not reach the given-weights model as coefficients", floor=1)
    from rules.values import generating_set_as_weights
    generating_set_as_weights(prog, rep, "C04.R10", "MinFlowDecompCycles")
    from rules.values import candidate_weights_exclude_ignored, subgraph_windows_guarded
    candidate_weights_exclude_ignored(prog, rep, "C04.R10", "MinFlowDecompCycles")
    from rules.values import python_arithmetic as _pa4
    from sa.pm import AnalysisError as _AE4
    if _pa4(prog, rep, "C04.R5", [prog.own_method("kFlowDecompCycles", "__init__")],
            "the structural repetition bound of ignored edges comes out too small and a decomposable flow is reported infeasible (np.uint8 flows 1, 200, 200, 1: 402 -> 146)") < 1:
        raise _AE4("kFlowDecompCycles.__init__: the sum of the non-ignored flow values was not found")
    # the default safety pruning of the cyclic models reads nodes_reachable / nodes_reaching: their caches answer for the graph (C17.R1, C17.R2)
    from rules import c17 as _c17x
    from sa.alias import AliasModel as _AMx
    from rules.common import RuleProxy as _RPx
    _c17x.cache_ownership(prog, _RPx(rep, "C04.R10"), "C17.R1")
    _c17x.query_purity(prog, _RPx(rep, "C04.R10"), "C17.R2", _AMx(prog))
