"""Rules shared by the minimum searches (C03, C04, C09, C15): range rule, lower-bound composition, width-call convention."""
from __future__ import annotations

import ast
import re
from typing import Dict, List, Optional, Set

from sa.pm import Program, FuncInfo, ClassInfo, dotted, norm, calls_in, walk_no_nested, AnalysisError, kwarg
from sa.poly import Poly, to_poly, nonneg_given
from rules.common import local_single_defs, substitute_locals, find_for_loops, stores_to_self_attr
from rules.common import split_or_return_guards as _split_guards
from rules.c13 import k_loop_protocol, loop_with_solver_run


# ---------------------------------------------------------------------------------------- range rule
# K = the largest optimum that can occur, per loop, with the one-line argument and witness (DESIGN C03.R2)
RANGE_TABLE = {
    "MinFlowDecomp.solve": (["self.G.number_of_edges()"], 0,
                            "a flow decomposition may need |E| paths, and every subpath constraint may need a path of its own; witnesses: "
                            "single-edge graph, optimum 1 = |E|; a1,a2,a3->m->b1,b2,b3 with 7 pairwise incompatible constraints, optimum 7 > |E| = 6",
                            ["len(self.subpath_constraints)"]),
    "MinFlowDecompCycles.solve": (["self.G.number_of_edges()"], 0,
                                  "witnesses: single-edge graph, optimum 1 = |E|; pairwise incompatible subset constraints need a walk each",
                                  ["len(self.subset_constraints)"]),
    "MinPathCover.solve": (["self.G.number_of_edges()"], 0,
                           "witnesses: single-edge graph, optimum 1 = |E|; pairwise incompatible subpath constraints need a path each",
                           ["len(self.subpath_constraints)"]),
    "MinPathCoverCycles.solve": (["self.G.number_of_edges()"], 0,
                                 "witnesses: single-edge graph, optimum 1 = |E|; pairwise incompatible subset constraints need a walk each",
                                 ["len(self.subset_constraints)"]),
    "MinGenSet.solve": (["len(self.initial_numbers)", "len(self.numbers)"], 1,
                        "the prefix-difference multiset always generates; witness numbers=[3], total=10 needs {3,7} = len+1; a partition constraint with t parts "
                        "can force t - 1 further elements (witness [5], total 10, constraint [1,2,3,4]: 4 elements)",
                        ["re:^sum\\(\\(?len\\((\\w+)\\) - 1 for \\1 in \\(?self\\.partition_constraints( or \\[\\])?\\)?\\)?\\)$"]),
}


def dominates(expr: ast.AST, need: Poly, atoms: List[str], plus: List[str] = ()) -> Optional[bool]:
    """expr >= need for all non-negative values of the atoms?  True / False / None (cannot decide)."""
    if isinstance(expr, ast.Call) and dotted(expr.func) == "max" and expr.args and not expr.keywords:
        res = [dominates(a, need, atoms, plus) for a in expr.args]
        if any(r is True for r in res):
            return True
        if any(r is False for r in res):
            return False        # no argument is guaranteed to reach the need; one provably does not
        return None
    if isinstance(expr, ast.Call) and dotted(expr.func) == "min" and expr.args and not expr.keywords:
        res = [dominates(a, need, atoms, plus) for a in expr.args]
        if all(r is True for r in res):
            return True
        if any(r is False for r in res):
            return False
        return None
    p = to_poly(expr)
    # any accepted size atom may stand for the canonical one (they are ordered: accepted atoms >= canonical)
    best = None
    for a in atoms:
        q = p
        if a != atoms[-1]:
            # rename accepted atom a to the canonical (last) one: a >= canonical, so expr(a) >= expr(canonical) if coeff >= 0
            t = {}
            for m, c in q.t.items():
                m2 = tuple(sorted(atoms[-1] if x == a else x for x in m))
                t[m2] = t.get(m2, 0) + c
            q = Poly(t)
        d = q - need
        r = nonneg_given(d, nonneg_atoms=[atoms[-1]] + list(plus))
        if r is True:
            return True
        if r is False:
            best = False
    return best


def range_rule(prog: Program, rep, RID: str, cname: str, mname: str):
    f = prog.own_method(cname, mname)
    loop = loop_with_solver_run(None, prog, f)
    if loop is None:
        raise AnalysisError(f"{cname}.{mname}: k-loop not found")
    key = f"{cname}.{mname}"
    atoms, extra, why, plus = RANGE_TABLE[key]
    it = loop.iter
    if not (isinstance(it, ast.Call) and dotted(it.func) == "range" and len(it.args) >= 2):
        raise AnalysisError(f"{key}: k-loop iterator is not range(lo, hi): {norm(it)}")
    defs = local_single_defs(f.node)
    hi = substitute_locals(it.args[1], defs)
    # a bound kept in an attribute: follow it to its (single) definition in the class; there the *caller's* graph parameter is
    # not the model graph self.G (node-weighted input: the expanded graph has more edges than the caller's)
    cls_ = prog.cls(cname)
    for n in list(ast.walk(hi)):
        d = dotted(n) if isinstance(n, ast.Attribute) else None
        if d and d.startswith("self._") and d.count(".") == 1:
            stores = [(m, st) for m in cls_.methods.values() for st in stores_to_self_attr(m.node, d[5:]) if isinstance(st, ast.Assign)]
            if len(stores) == 1:
                m, st = stores[0]
                params = {a.arg for a in m.node.args.args[1:]}
                used_params = {x.id for x in ast.walk(st.value) if isinstance(x, ast.Name) and x.id in params}
                graph_params = {p_ for p_ in used_params if re.search(r"%s\.number_of_(edges|nodes)\(\)" % re.escape(p_), norm(st.value))}
                if graph_params and m.name != mname:
                    rep.violation(RID, f"{key}:upper-bound", f"the k-loop's upper bound `{norm(it.args[1])}` is `{norm(st.value)}` computed in {cname}.{m.name} from the caller's "
                                  f"graph `{sorted(graph_params)[0]}`, not from the model graph self.G: for node-weighted input (self.G is the expanded graph) "
                                  "the search stops below the optimum", m.loc(st))
                    return
                if not used_params:
                    class _S(ast.NodeTransformer):
                        def visit_Attribute(self, node):
                            return st.value if dotted(node) == d else self.generic_visit(node)
                    hi = _S().visit(hi)
    class _SumIfExp(ast.NodeTransformer):
        """`sum(f(c) for c in X) if X else 0`  is  `sum(f(c) for c in (X or []))`  (X is None or a list)"""

        def visit_IfExp(self, node):
            self.generic_visit(node)
            b = node.body
            if isinstance(node.orelse, ast.Constant) and node.orelse.value == 0 and isinstance(b, ast.Call) and dotted(b.func) == "sum" and len(b.args) == 1 and \
                    isinstance(b.args[0], (ast.GeneratorExp, ast.ListComp)) and len(b.args[0].generators) == 1 and norm(b.args[0].generators[0].iter) == norm(node.test):
                g = b.args[0]
                new_iter = ast.BoolOp(op=ast.Or(), values=[node.test, ast.List(elts=[], ctx=ast.Load())])
                gen = ast.comprehension(target=g.generators[0].target, iter=new_iter, ifs=g.generators[0].ifs, is_async=0)
                return ast.fix_missing_locations(ast.copy_location(ast.Call(func=b.func, args=[type(g)(elt=g.elt, generators=[gen])], keywords=[]), node))
            return node
    hi = _SumIfExp().visit(ast.parse(norm(hi), mode="eval").body)
    canonical = atoms[-1]
    need = Poly.atom(canonical) + Poly.const(extra + 1)          # exclusive bound must be >= K + 1
    # a required summand given as a pattern stands for whatever atom of the bound matches it (a fresh atom if none does)
    plus_ = []
    # a required *sum* over a collection replaced by the *max* over the same collection: max(f(c) for c in X) <= sum(f(c) for c in X), and the
    # difference is unbounded in the number of elements of X (independently of the size atom), so the bound is below K+1 on some input
    for a in plus:
        if a.startswith("re:") and not any(re.match(a[3:], x) for x in to_poly(hi).atoms()):
            for n_ in ast.walk(hi):
                if isinstance(n_, ast.Call) and dotted(n_.func) in ("max", "min") and len(n_.args) == 1 and isinstance(n_.args[0], (ast.GeneratorExp, ast.ListComp)) \
                        and all(kw.arg == "default" for kw in n_.keywords):
                    as_sum = norm(ast.Call(func=ast.Name(id="sum", ctx=ast.Load()), args=[n_.args[0]], keywords=[]))
                    if re.match(a[3:], as_sum):
                        rep.violation(RID, f"{key}:upper-bound", f"the k-loop's exclusive upper bound `{norm(hi)}` takes `{norm(n_)}` where K needs the sum `{as_sum}`: "
                                      f"the {dotted(n_.func)} over the collection is below the sum by an amount that grows with the number of its elements, "
                                      f"so an instance whose optimum is K is reported unsolved ({why})", f.loc(loop))
                        return
    for a in plus:
        if a.startswith("re:"):
            found = [x for x in to_poly(hi).atoms() | {y for n_ in ast.walk(hi) if isinstance(n_, ast.Call) and dotted(n_.func) in ("max", "min")
                                                       for arg in n_.args for y in to_poly(arg).atoms()} if re.match(a[3:], x)]
            plus_.append(found[0] if found else "<" + why.split(";")[-1].strip()[:40] + ">")
        else:
            plus_.append(a)
    plus = plus_
    for a in plus:
        need = need + Poly.atom(a)
    r = dominates(hi, need, atoms, plus)
    ktxt = " + ".join([canonical] + list(plus))
    if r is True:
        rep.ok(RID, f"{key}:upper-bound", f"exclusive upper bound `{norm(hi)}` >= K+1 with K = {ktxt}+{extra} ({why})",
               f.loc(loop), sample={"loop": norm(it), "K": f"{canonical}+{extra}", "argument": why})
    elif r is False:
        rep.violation(RID, f"{key}:upper-bound", f"the k-loop's exclusive upper bound `{norm(hi)}` is below K+1 = {ktxt}+{extra + 1}: "
                      f"an instance whose optimum is K is reported unsolved ({why})", f.loc(loop))
    else:
        raise AnalysisError(f"{key}: cannot compare upper bound `{norm(hi)}` with {ktxt}+{extra + 1}")


# ------------------------------------------------------------------------------- width call convention
def union_terms(expr: ast.AST, defs: Dict[str, ast.AST], depth: int = 4) -> Set[str]:
    """Operands of a set-union expression: a.union(b, c), a | b, set(a), list(a), frozenset(a), local names expanded."""
    out: Set[str] = set()

    def go(e, d):
        if isinstance(e, ast.Call) and isinstance(e.func, ast.Attribute) and e.func.attr == "union":
            go(e.func.value, d)
            for a in e.args:
                go(a, d)
            return
        if isinstance(e, ast.Call) and dotted(e.func) in ("set", "list", "frozenset", "sorted", "tuple") and len(e.args) == 1:
            go(e.args[0], d)
            return
        if isinstance(e, ast.BinOp) and isinstance(e.op, (ast.BitOr, ast.Add)):
            go(e.left, d)
            go(e.right, d)
            return
        if isinstance(e, ast.Name) and e.id in defs and d > 0:
            go(defs[e.id], d - 1)
            return
        out.add(norm(e))
    go(expr, depth)
    return out


def class_ignore_terms(prog: Program, cls: ClassInfo) -> Set[str]:
    """Union terms of the definition(s) of self.edges_to_ignore in the constructor chain of cls."""
    terms: Set[str] = set()
    for c in prog.mro(cls):
        init = c.methods.get("__init__")
        if init is None:
            continue
        defs = local_single_defs(init.node)
        for st in stores_to_self_attr(init.node, "edges_to_ignore"):
            if isinstance(st, ast.Assign):
                terms |= union_terms(st.value, defs)
            elif isinstance(st, ast.AugAssign):
                terms |= union_terms(st.value, defs)
    return terms


def width_call_ok(prog: Program, f: FuncInfo, call: ast.Call, ctx_cls: ClassInfo) -> (bool, str):
    """A get_width call that feeds k or a lower bound must ignore the receiver's synthetic source/sink edges together
    with the model's ignore set."""
    recv = dotted(call.func.value)
    arg = kwarg(call, "edges_to_ignore", 0)
    if arg is None:
        return False, "get_width() is called without the ignore set (user-ignored elements are counted)"
    defs = local_single_defs(f.node)
    terms = union_terms(arg, defs)
    has_user = any(t in ("self.edges_to_ignore",) or "edges_to_ignore" in t for t in terms)
    has_ss = f"{recv}.source_sink_edges" in terms
    if not has_ss and "self.edges_to_ignore" in terms and recv == "self.G":
        # the class-level ignore set already contains self.G.source_sink_edges
        cterms = class_ignore_terms(prog, ctx_cls)
        has_ss = "self.G.source_sink_edges" in cterms
    if not has_user:
        return False, f"ignore argument `{norm(arg)}` does not contain the model's ignore set"
    if not has_ss:
        return False, (f"ignore argument `{norm(arg)}` does not contain {recv}.source_sink_edges: get_width then demands coverage of "
                       f"the synthetic edges and over-estimates when a source/sink-adjacent element is ignored")
    return True, f"ignores {recv}.source_sink_edges and the model's ignore set"


MGS_ARGS = {
    "MinFlowDecompCycles": {"max_multiplicity": (r"self\.w_max", "a walk may traverse a cycle edge up to w_max times, so a weight may be used that often in one flow value"),
                            "total": (r"source_flow", "the generating set sums to the total source flow"),
                            "weight_type": (r"self\.weight_type", "same numeric type as the decomposition")},
    "MinFlowDecomp": {"total": (r"source_flow", "the generating set sums to the total source flow"),
                      "weight_type": (r"self\.weight_type", "same numeric type as the decomposition")},
}


def comprehension_excludes_ignored(e: ast.AST) -> bool:
    """A set/list comprehension (possibly wrapped in set()/list()) over the edges with a `... not in self.edges_to_ignore` filter."""
    from sa import boolnf as B
    import copy
    for n in ast.walk(e):
        if isinstance(n, (ast.SetComp, ast.ListComp, ast.GeneratorExp, ast.DictComp)):
            for g in n.generators:
                if not g.ifs:
                    continue
                # the filter as one formula; it has to imply `<element> not in <ignore set>` (also written `not (... or e in ignored)`, or as an early `continue`)
                member = [c for cond in g.ifs for c in ast.walk(cond) if isinstance(c, ast.Compare) and len(c.ops) == 1 and isinstance(c.ops[0], (ast.In, ast.NotIn)) and
                          "edges_to_ignore" in norm(c.comparators[0])]
                if not member:
                    continue
                want = copy.deepcopy(member[0])
                want.ops = [ast.NotIn()]
                try:
                    f_ = B.mk_and([B.parse(c) for c in g.ifs])
                    if B.implies(f_, B.parse(want)):
                        return True
                except Exception:
                    raise AnalysisError(f"filter `{norm(g.ifs[0])[:80]}` of a distinct-values set could not be read")
    return False


# ------------------------------------------------------------------------- lower-bound composition
def lowerbound_rule(prog: Program, rep, RID: str, cname: str, allow_log2: bool):
    """V := provider | max(V, ...) | self._lowerbound_k | local bound to V ; providers from the frozen table."""
    cls = prog.cls(cname)
    f = prog.own_method(cname, "get_lowerbound_k")
    defs = {}
    # locals in this function (possibly multiply assigned under ifs): collect all definitions
    multi: Dict[str, List[ast.AST]] = {}
    # (accumulator loops - `s = set(); for e in E: if c: continue; s.add(f(e))` - are read as the comprehension they compute)
    from sa.mir import comprehensionise
    folded = ast.Module(body=comprehensionise(f.node.body), type_ignores=[])
    for n in walk_no_nested(folded):
        if isinstance(n, ast.Assign) and len(n.targets) == 1 and isinstance(n.targets[0], ast.Name):
            multi.setdefault(n.targets[0].id, []).append(n.value)

    def classify(e: ast.AST, depth=0) -> (bool, str):
        if depth > 5:
            return False, "too deep"
        if isinstance(e, ast.Constant) and e.value is None:
            return True, "None"
        if isinstance(e, ast.Constant) and isinstance(e.value, int) and e.value <= 1:
            return True, f"const {e.value}"
        d = dotted(e)
        if d == "self._lowerbound_k":
            return True, "previous bound"
        if isinstance(e, ast.Name) and e.id in multi:
            rs = [classify(v, depth + 1) for v in multi[e.id]]
            bad = [r for r in rs if not r[0]]
            return (not bad, "; ".join(r[1] for r in (bad or rs)))
        if isinstance(e, ast.IfExp):
            # a candidate chosen by a condition is valid when both alternatives are (`P if values else 0`: 0 is below every bound)
            rs = [classify(e.body, depth + 1), classify(e.orelse, depth + 1)]
            bad = [r for r in rs if not r[0]]
            return (not bad, " / ".join(r[1] for r in (bad or rs)))
        if isinstance(e, ast.Call):
            fn = dotted(e.func) or ""
            if fn == "max" and not e.keywords:
                rs = [classify(a, depth + 1) for a in e.args]
                bad = [r for r in rs if not r[0]]
                return (not bad, "max(" + ", ".join(r[1] for r in rs) + ")")
            if fn == "self.optimization_options.get" and e.args and isinstance(e.args[0], ast.Constant) and e.args[0].value == "lowerbound_k":
                dflt = e.args[1] if len(e.args) > 1 else None
                if dflt is None or (isinstance(dflt, ast.Constant) and isinstance(dflt.value, int) and dflt.value <= 1):
                    return True, "user option lowerbound_k"
                return False, f"default of the lowerbound_k option is {norm(dflt)} (> 1)"
            if fn.endswith(".get_width"):
                ok, why = width_call_ok(prog, f, e, cls)
                return ok, ("width: " + why)
            if fn in ("math.ceil", "ceil") and len(e.args) == 1 and isinstance(e.args[0], ast.Call) and \
                    (dotted(e.args[0].func) or "") in ("math.log2", "log2") and len(e.args[0].args) == 1:
                inner = e.args[0].args[0]
                if allow_log2 and isinstance(inner, ast.Call) and dotted(inner.func) == "len" and len(inner.args) == 1:
                    src = inner.args[0]
                    cands = multi.get(src.id, []) if isinstance(src, ast.Name) else [src]
                    for c in cands:
                        if not comprehension_excludes_ignored(c):
                            return False, (f"the distinct-values set `{norm(c)[:80]}` also counts the flow values of ignored edges "
                                           "(no `not in self.edges_to_ignore` filter): over-estimates when ignored edges carry many values")
                    return True, "ceil(log2(#distinct flow values of non-ignored edges))"
                return False, f"log2 bound on `{norm(inner)}` is not the tabled provider"
            if fn in ("self._get_lowerbound_with_min_gen_set", "self._get_lowerbound_with_subgraph_scanning"):
                return True, fn.split(".")[-1]
            if fn == "len":
                return False, f"`{norm(e)}` is not a tabled lower-bound provider"
        return False, f"`{norm(e)[:70]}` is not a tabled lower-bound provider (providers: user option, ceil(log2(#values)), " \
                      f"get_width with the ignore convention, min-gen-set size, subgraph scanning; combined only by max)"

    n = 0
    for st in stores_to_self_attr(f.node, "_lowerbound_k"):
        n += 1
        val = st.value
        ok, why = classify(val)
        key = f"{cname}.get_lowerbound_k:update#{n}"
        if ok:
            rep.ok(RID, key, why, f.loc(st), sample={"update": norm(st)[:120], "grammar": why})
        else:
            rep.violation(RID, f"{cname}.get_lowerbound_k:{norm(val)[:60]}", f"lower bound candidate not valid: {why}", f.loc(st))
    if n == 0:
        raise AnalysisError(f"{cname}.get_lowerbound_k: no update of _lowerbound_k found")
    # the provider functions return what they computed from a *solved* sub-model
    for prov in ("_get_lowerbound_with_min_gen_set", "_get_lowerbound_with_subgraph_scanning"):
        g = cls.methods.get(prov)
        if g is None:
            continue
        provider_function_rule(prog, rep, RID, cname, g)


def provider_function_rule(prog: Program, rep, RID: str, cname: str, g: FuncInfo):
    """Each value the provider can return is None or derives from len()/max(len()) of a sub-model solution obtained under
    `<m>.is_solved()`."""
    from rules.c13 import SolveFlow, proof_keys
    multi: Dict[str, List[ast.AST]] = {}
    for n in walk_no_nested(g.node):
        if isinstance(n, ast.Assign) and len(n.targets) == 1 and isinstance(n.targets[0], ast.Name):
            multi.setdefault(n.targets[0].id, []).append(n)
    flow = SolveFlow(prog, g)
    states = {}
    orig = flow.on_stmt

    def on_stmt(st, state):
        states[id(st)] = state
    flow.on_stmt = on_stmt
    flow.run(g.node)

    def ok_value(e: ast.AST, at_stmt, depth=0, seen=frozenset()) -> (bool, str):
        if depth > 6:
            return False, "too deep"
        if isinstance(e, ast.Constant) and (e.value is None or (isinstance(e.value, int) and e.value <= 1)):
            return True, "const"
        if isinstance(e, ast.IfExp):
            a = ok_value(e.body, at_stmt, depth + 1, seen)
            b = ok_value(e.orelse, at_stmt, depth + 1, seen)
            return (a[0] and b[0], f"{a[1]} / {b[1]}")
        if isinstance(e, ast.Name) and e.id in multi:
            if e.id in seen:
                return True, f"{e.id} (inductively)"
            rs = [ok_value(s.value, s, depth + 1, seen | {e.id}) for s in multi[e.id]]
            bad = [r for r in rs if not r[0]]
            return (not bad, "; ".join(r[1] for r in (bad or rs)))
        if isinstance(e, ast.Call) and dotted(e.func) == "max":
            rs = [ok_value(a, at_stmt, depth + 1, seen) for a in e.args]
            bad = [r for r in rs if not r[0]]
            return (not bad, "max(" + ", ".join(r[1] for r in rs) + ")")
        if isinstance(e, ast.Call) and dotted(e.func) == "len" and len(e.args) == 1:
            st = states.get(id(at_stmt))
            if st is not None and proof_keys(flow, st):
                return True, f"{norm(e)} of a solved sub-model ({proof_keys(flow, st)})"
            return False, f"{norm(e)} is taken without the sub-model being proven solved"
        return False, f"`{norm(e)[:60]}` is not len()/max() of a solved sub-model's solution"

    if g.name == "_get_lowerbound_with_min_gen_set":
        mgs_calls = [c for c in calls_in(g.node) if (dotted(c.func) or "").endswith("MinGenSet")]
        if not mgs_calls:
            raise AnalysisError(f"{cname}.{g.name}: MinGenSet construction not found")
        for c in mgs_calls:
            # arguments that make the generating-set size a bound for *this* kind of decomposition (frozen table)
            want = MGS_ARGS.get(cname, {})
            for kw_name, (pat_, why_) in want.items():
                val_ = kwarg(c, kw_name)
                keya = f"{cname}.{g.name}:MinGenSet({kw_name})"
                if val_ is not None and re.fullmatch(pat_, norm(val_)):
                    rep.ok(RID, keya, f"{kw_name}={norm(val_)} ({why_})", g.loc(c))
                else:
                    rep.violation(RID, keya, f"MinGenSet is built with {kw_name}={norm(val_) if val_ is not None else '<default>'}; required: {why_} - "
                                  "otherwise the generating-set size exceeds the true optimum and the search starts too high", g.loc(c))
            st = None
            for sid, sst in states.items():
                pass
            # state before the statement containing the call
            holder = None
            for stmt_node in walk_no_nested(g.node):
                if isinstance(stmt_node, ast.stmt) and any(x is c for x in ast.walk(stmt_node)) and id(stmt_node) in states:
                    if holder is None or sum(1 for _ in ast.walk(stmt_node)) < sum(1 for _ in ast.walk(holder)):
                        holder = stmt_node
            stt = states.get(id(holder)) if holder is not None else None
            guarded = stt is not None and all(any(k.startswith("?") and "edges_to_ignore" in k for k in w.d) for w in stt)
            numbers = kwarg(c, "numbers", 0)
            filtered = False
            if numbers is not None:
                cands = [a.value for a in multi.get(numbers.id, [])] if isinstance(numbers, ast.Name) else [numbers]
                filtered = bool(cands) and all(comprehension_excludes_ignored(x) for x in cands)
            # the total: an excess computation that reads a missing flow value as 0 is valid only if every edge has a value
            sf = prog.cls(cname).methods.get("_get_source_flow")
            if sf is not None:
                txt_sf = " ".join(norm(x) for x in sf.node.body)
                excess_style = "in_edges" in txt_sf and ".get(self.flow_attr, 0)" in txt_sf
                keyt = f"{cname}.{g.name}:total-needs-all-values"
                if excess_style:
                    early = [st_ for st_ in walk_no_nested(_split_guards(g.node)) if isinstance(st_, ast.If) and st_.lineno < c.lineno and
                             any(isinstance(x, ast.Return) and (x.value is None or (isinstance(x.value, ast.Constant) and x.value.value is None)) for x in st_.body)
                             and "self.flow_attr not in" in norm(st_.test) and "self.G.edges" in norm(st_.test) and "edges_to_ignore" not in norm(st_.test)]
                    if early:
                        rep.ok(RID, keyt, "the total source flow (out-flow minus in-flow, missing values read as 0) is used only when every edge has a flow value", g.loc(early[0]))
                    else:
                        rep.violation(RID, keyt, f"{cname}._get_source_flow sums out-flow minus in-flow reading a missing flow value as 0, and the min-gen-set bound uses it "
                                      "although edges without a value can exist (the edges between expanded nodes in node-weighted mode): every node counts as a source, "
                                      "the total is too large and the bound exceeds the optimum (a(3)->b(3): bound 2, optimum 1)", g.loc(c))
                else:
                    early = [st_ for st_ in walk_no_nested(_split_guards(g.node)) if isinstance(st_, ast.If) and st_.lineno < c.lineno and
                             any(isinstance(x, ast.Return) and (x.value is None or (isinstance(x.value, ast.Constant) and x.value.value is None)) for x in st_.body)
                             and "self.flow_attr not in" in norm(st_.test) and "self.G.edges" in norm(st_.test) and "edges_to_ignore" not in norm(st_.test)]
                    if early:
                        rep.ok(RID, keyt, "the total (out-flow of the source nodes' valued edges) is used only when every edge has a flow value", g.loc(early[0]))
                    else:
                        rep.violation(RID, keyt, f"{cname}._get_source_flow sums the valued out-edges of the source nodes, and the min-gen-set bound uses it although a path can start "
                                      "on an element without a value (a source node without the attribute in node-weighted mode, an attribute-less ignored source edge): such paths "
                                      "are not counted in the total, the generating-set size is no lower bound and more paths than the minimum are returned (4 where 3 suffice)", g.loc(c))
            key = f"{cname}.{g.name}:ignored-values"
            if guarded or filtered:
                rep.ok(RID, key, "the generating-set bound is not computed from the flow values of ignored edges "
                       f"({'guard on self.edges_to_ignore' if guarded else 'numbers filtered'})", g.loc(c))
            else:
                rep.violation(RID, key, "the min-gen-set bound is computed from the flow values of all edges, including ignored ones: "
                              "its size is then no lower bound for decompositions of the non-ignored part", g.loc(c))
    n = 0
    for node in walk_no_nested(g.node):
        if isinstance(node, ast.Return) and node.value is not None:
            n += 1
            ok, why = ok_value(node.value, node)
            key = f"{cname}.{g.name}:return#{n}"
            if ok:
                rep.ok(RID, key, why, g.loc(node), sample={"return": norm(node.value)[:100], "derivation": why})
            else:
                rep.violation(RID, f"{cname}.{g.name}:return:{norm(node.value)[:50]}", f"lower-bound provider returns a value that is not a valid bound: {why}", g.loc(node))
    if n == 0:
        raise AnalysisError(f"{cname}.{g.name}: no return found")
