"""C02 - flow decompositions explain every non-ignored edge's flow exactly."""
from __future__ import annotations

import ast

from sa.pm import Program, dotted, norm, walk_no_nested, AnalysisError
from rules.formulation import conformance
from rules import semantic, providers
from rules.c05 import adoption_guards
from rules.c10 import greedy_rejection

EXPLANATION = (
    "Decides: (R1) the equality family 10d (sum of products == the same edge's flow attribute, resp. sum_i w_i x for given weights) is present "
    "for every edge whose only admissible skip is membership in the ignore set, in all three flow encoders, with the frozen normal forms; "
    "(R2) for every non-ignored edge and layer exactly one of {product = 0 under the zero flag, product = weight under the one flag, exact "
    "product helper}; helper kind matches the declared range of the multiplicity variable (binary helper on DAGs, integer helper for walks) "
    "and helper bounds equal the declared bounds of the weight (V2); (R3) weights are integer variables iff weight_type == int and the "
    "getters round()/float() under the same test; the weight bound w_max is at least the largest non-ignored flow value; (R4) the greedy "
    "route is accepted only if it fits in k paths and meets every constraint, and it publishes the weights the decomposition returned "
    "(edge and node branches agree); (R5) the walk handed out traverses each edge exactly as often as the solver decided (linear-use rule of "
    "C14); (R6) no write to caller objects / shared defaults; (R7) node-weighted plumbing (C11.R3); (R8) the greedy peeling subtracts on every edge of a peeled path exactly the value it "
    "(R9) variables the encoders treat as fixed through queued bounds are really fixed: on every path of SolverWrapper.optimize the queued updates are applied before the solver runs (must-call dataflow).  "
    " (R4, extended) the greedy route converts the bottleneck values to the requested type (round() after an integrality test that hands non-integral values to the MILP, float() otherwise) and types the padding weights; (R10) the remove-empty filters of the flow models decide emptiness on the internal route (C01.R5), and a non-integral solution_weights_superset is rejected for integer weights (the encoder uses the given values, get_solution publishes them rounded). "
    " (R11) the flow value of every exact flow row is converted with float() before it meets the solver's == (numpy integer / float32 flows are accepted). "
    "publishes as the path's weight and the bottleneck DP reports the value of the path it reconstructs (C17.R5).  NOT decided: solver tolerance, float rounding, termination of the peeling, Eulerian "
    "reconstruction beyond C14's clause."
    ' (R11, round 3) is_valid_solution() computes |flow - load| on Python numbers (fixed-width numpy scalars wrap around).'
    ' (R2, round 4) the flag / constraint pairing of the safety fixing (C05.R1) is checked here too: the consumers replace the product of an edge flagged `= 1` by the weight.'
    ' (R3, hunt 4) w_max is not truncated in any model; (R11) the big-M of row 22a is summed on Python numbers.'
    " (R4, seeds 6) on the greedy route paths and weights are each padded to k by their own deficit. (R11, hunt 6) the caller's numbers in the given-weights rows and the subset row of the walk model are float() coefficients; the readers of the flow-safe scan take every real number."
)
DECIDED = ["10d equality present, complete and exact in all flow encoders", "product linking exact for every non-ignored edge and layer",
           "requested numeric type of weights", "greedy route publishes what it computed and only when admissible"]
NOT_DECIDED = ["equality within solver tolerance (numeric)", "that the peeling ends with all flow consumed (needs conservation + arithmetic)", "walk reconstruction (C14)"]

FLOW_MODELS = ["kFlowDecomp", "kFlowDecompCycles"]


def greedy_publishes(prog: Program, rep, RID: str):
    f = prog.own_method("kFlowDecomp", "_get_solution_with_greedy")
    src = None
    for st in walk_no_nested(f.node):
        if isinstance(st, ast.Assign) and isinstance(st.targets[0], ast.Tuple) and isinstance(st.value, ast.Call) and \
                (dotted(st.value.func) or "").endswith("decompose_using_max_bottleneck"):
            src = [norm(x) for x in st.targets[0].elts]
    if not src or len(src) != 2:
        raise AnalysisError("greedy: (paths, weights) = decompose_using_max_bottleneck(...) not found")
    pv, wv = src
    dicts = [st for st in walk_no_nested(f.node) if isinstance(st, ast.Assign) and dotted(st.targets[0]) == "self._solution" and isinstance(st.value, ast.Dict)]
    if len(dicts) < 2:
        raise AnalysisError("greedy: edge/node solution dicts not found")
    keysets = []
    for st in dicts:
        d = {k.value: v for k, v in zip(st.value.keys, st.value.values) if isinstance(k, ast.Constant)}
        keysets.append(set(d) - {"_paths_internal"})
        key = f"kFlowDecomp._get_solution_with_greedy:weights@{st.lineno - f.node.lineno}"
        if norm(d.get("weights")) == wv:
            rep.ok(RID, "kFlowDecomp._get_solution_with_greedy:weights", f"publishes the weights returned by the greedy decomposition (`{wv}`)", f.loc(st))
        else:
            rep.violation(RID, "kFlowDecomp._get_solution_with_greedy:weights", f"a branch of the greedy route publishes `weights: {norm(d.get('weights'))}` instead of "
                          f"the weights `{wv}` the decomposition returned", f.loc(st))
        pvals = norm(d.get("paths"))
        if pv not in pvals:
            rep.violation(RID, "kFlowDecomp._get_solution_with_greedy:paths", f"publishes `paths: {pvals}` which is not derived from the greedy paths `{pv}`", f.loc(st))
    # padding to k entries: each list is padded by its own deficit (`X += [.. for _ in range(self.k - len(X))]`); a list padded by the deficit of the other one,
    # measured after that one was padded already, stays short: k paths are published with fewer weights
    pads = [st for st in walk_no_nested(f.node) if isinstance(st, ast.AugAssign) and isinstance(st.op, ast.Add) and isinstance(st.target, ast.Name) and
            st.target.id in (pv, wv) and isinstance(st.value, (ast.ListComp, ast.BinOp))]
    from rules.common import local_single_defs as _lsd_p, substitute_locals as _sl_p
    _pdefs = _lsd_p(f.node)
    for st in pads:
        keyp = f"kFlowDecomp._get_solution_with_greedy:padding[{st.target.id}]"
        val_ = _sl_p(st.value, _pdefs)
        lens = [norm(c.args[0]) for c in ast.walk(val_) if isinstance(c, ast.Call) and dotted(c.func) == "len" and len(c.args) == 1 and norm(c.args[0]) in (pv, wv)]
        if not lens:
            raise AnalysisError(f"greedy: padding `{norm(st)[:80]}` does not count a deficit with len()")
        earlier_padded = {p_.target.id for p_ in pads if p_.lineno < st.lineno}
        # a deficit named by a local is measured where the local is defined
        via_local = [n_.id for n_ in ast.walk(st.value) if isinstance(n_, ast.Name) and n_.id in _pdefs and "len(" in norm(_pdefs[n_.id])]
        if via_local and not all(l == st.target.id for l in lens):
            def_line = min(s_.lineno for s_ in ast.walk(f.node) if isinstance(s_, ast.Assign) and any(isinstance(t_, ast.Name) and t_.id in via_local for t_ in s_.targets))
            if all(def_line < p_.lineno for p_ in pads):
                raise AnalysisError(f"greedy: `{norm(st)[:70]}` pads by a deficit measured on another list before any padding: equal only if both lists have one length - not decided")
        if all(l == st.target.id for l in lens):
            rep.ok(RID, keyp, f"`{st.target.id}` is padded by its own deficit", f.loc(st))
        elif any(l in earlier_padded for l in lens):
            rep.violation(RID, keyp, f"`{norm(st)[:100]}` pads `{st.target.id}` by the deficit of `{lens[0]}`, which was padded to k just before: nothing is appended, and "
                          "get_solution() returns k paths with fewer weights (kFlowDecomp with k above the number of greedy paths)", f.loc(st))
        else:
            raise AnalysisError(f"greedy: padding `{norm(st)[:80]}` counts the deficit of another list: not recognised")
    if all(k == keysets[0] for k in keysets):
        rep.ok(RID, "kFlowDecomp._get_solution_with_greedy:sibling-keys", f"edge and node branches publish the same keys {sorted(keysets[0])}", f.loc())
    else:
        rep.violation(RID, "kFlowDecomp._get_solution_with_greedy:sibling-keys", f"edge and node branches publish different keys: {[sorted(k) for k in keysets]}", f.loc())


def greedy_weight_type(prog: Program, rep, RID: str):
    """The greedy route publishes weights of the requested numeric type, like the MILP route: the bottleneck values are
    converted (round() for int after an integrality test, float() otherwise) and the padding weights are typed."""
    from sa import boolnf as B
    from rules.semantic import enclosing_tests
    f = prog.own_method("kFlowDecomp", "_get_solution_with_greedy")
    wv = None
    src_line = None
    for st in walk_no_nested(f.node):
        if isinstance(st, ast.Assign) and isinstance(st.targets[0], ast.Tuple) and isinstance(st.value, ast.Call) and \
                (dotted(st.value.func) or "").endswith("decompose_using_max_bottleneck"):
            wv = norm(st.targets[0].elts[1])
            src_line = st.lineno
    if wv is None:
        raise AnalysisError("greedy: (paths, weights) = decompose_using_max_bottleneck(...) not found")
    is_int = B.parse(ast.parse("self.weight_type == int", mode="eval").body)
    conv = {"int": [], "other": []}
    unknown = []
    for st in walk_no_nested(f.node):
        if isinstance(st, ast.Assign) and len(st.targets) == 1 and norm(st.targets[0]) == wv and st.lineno > src_line:
            v = st.value
            fn = None
            if isinstance(v, ast.ListComp) and isinstance(v.elt, ast.Call) and norm(v.generators[0].iter) == wv:
                fn = dotted(v.elt.func)
            elif isinstance(v, ast.Call) and dotted(v.func) == "list" and v.args and isinstance(v.args[0], ast.Call) and dotted(v.args[0].func) == "map" \
                    and len(v.args[0].args) == 2 and norm(v.args[0].args[1]) == wv:
                fn = dotted(v.args[0].args[0])
            if fn is None:
                unknown.append(norm(st)[:80])
                continue
            g = B.mk_and([B.parse_pol(t, pol) for t, pol in enclosing_tests(f.node, st)])
            if fn == "self.weight_type":
                conv["int"].append((st, fn))
                conv["other"].append((st, fn))
            elif B.implies(g, is_int) and fn in ("round", "int"):
                conv["int"].append((st, fn))
            elif B.implies(g, B.mk_not(is_int)) and fn == "float":
                conv["other"].append((st, fn))
            else:
                unknown.append(norm(st)[:80])
    key = "kFlowDecomp._get_solution_with_greedy:weight-type"
    if unknown:
        raise AnalysisError(f"greedy: cannot classify the conversion of the greedy weights: {unknown[0]}")
    if conv["int"] and conv["other"]:
        rep.ok(RID, key, "greedy weights are converted to the requested type (round() under weight_type == int, float() otherwise)", f.loc(conv["int"][0][0]))
    else:
        rep.violation(RID, key, f"the greedy route publishes `{wv}` as returned by decompose_using_max_bottleneck, i.e. in the type of the input flow values "
                      f"(conversions found: int case {len(conv['int'])}, other case {len(conv['other'])}): int flows give int weights for weight_type=float and "
                      "float flows give float weights for weight_type=int, unlike the MILP route", f"{f.module.relpath}:{src_line}")
    # rounding is preceded by an integrality test that hands non-integral bottlenecks to the MILP
    for st, fn in conv["int"]:
        if fn not in ("round", "int"):
            continue
        key3 = "kFlowDecomp._get_solution_with_greedy:integrality-test"
        guarded = False
        for other in walk_no_nested(f.node):
            if isinstance(other, ast.If) and other.lineno < st.lineno and any(isinstance(x, ast.Return) and isinstance(x.value, ast.Constant) and x.value.value is False
                                                                              for x in other.body):
                t = norm(other.test)
                if "round(" in t and ("!=" in t or "==" in t or "is_integer" in t):
                    guarded = True
        if guarded:
            rep.ok(RID, key3, "non-integral bottlenecks are not rounded: the greedy result is rejected and the MILP decides", f.loc(st))
        else:
            rep.violation(RID, key3, f"`{norm(st)[:80]}` rounds the greedy bottlenecks without testing that they are integral: a non-integral flow would be "
                          "explained by rounded weights", f.loc(st))
    # padding weights
    n = 0
    for st in walk_no_nested(f.node):
        if isinstance(st, ast.AugAssign) and norm(st.target) == wv and isinstance(st.value, (ast.ListComp, ast.List, ast.BinOp)):
            n += 1
            elt = st.value.elt if isinstance(st.value, ast.ListComp) else (st.value.elts[0] if isinstance(st.value, ast.List) and st.value.elts else
                                                                           (st.value.left.elts[0] if isinstance(st.value, ast.BinOp) and isinstance(st.value.left, ast.List) and st.value.left.elts else None))
            key2 = "kFlowDecomp._get_solution_with_greedy:padding-type"
            if elt is None:
                raise AnalysisError(f"greedy: padding `{norm(st)[:80]}` not understood")
            if isinstance(elt, ast.Call) and dotted(elt.func) == "self.weight_type":
                rep.ok(RID, key2, f"padding weights are `{norm(elt)}`", f.loc(st))
            elif isinstance(elt, ast.Constant):
                rep.violation(RID, key2, f"the paths added to reach k get the literal weight `{norm(elt)}` whatever weight_type is: a float model returns a mixed "
                              "list such as [7.0, 4.0, 2.0, 0, 0]", f.loc(st))
            else:
                raise AnalysisError(f"greedy: padding element `{norm(elt)}` not understood")
    if n == 0:
        raise AnalysisError("greedy: padding of the weights up to k not found")


def check(prog: Program, rep):
    rep.rule("C02.R1", "flow-decomposition families conform to the frozen formulation table (10d, linking, given weights)", floor=15)
    conformance(prog, rep, "C02.R1", "C02")
    rep.rule("C02.R2", "product linking: flag consumers and helper preconditions (V2)", floor=6)
    semantic.flag_consumers(prog, rep, "C02.R2", FLOW_MODELS)
    for c in FLOW_MODELS:
        semantic.helper_preconditions(prog, rep, "C02.R2", c)
    from rules.common import helpers_exact
    helpers_exact(prog, rep, "C02.R2")
    rep.rule("C02.R3", "numeric type of weights; weight bound provider", floor=6)
    providers.numeric_type(prog, rep, "C02.R3", FLOW_MODELS)
    providers.wmax_provider(prog, rep, "C02.R3", FLOW_MODELS)
    rep.rule("C02.R4", "greedy route: acceptance guards and published values", floor=6)
    adoption_guards(prog, rep, "C02.R4")
    greedy_rejection(prog, rep, "C02.R4")
    greedy_publishes(prog, rep, "C02.R4")
    greedy_weight_type(prog, rep, "C02.R4")
    rep.rule("C02.R5", "walk reconstruction conserves the solver's multiplicities (shared with C14.R1)", floor=6)
    from rules import c14
    c14.trail_loop_rule(prog, rep, "C02.R5", prog.own_method("AbstractWalkModelDiGraph", "_reconstruct_eulerian_walk"), ("walk",))
    c14.trail_loop_rule(prog, rep, "C02.R5", prog.own_method("AbstractWalkModelDiGraph", "_build_closed_walk_from_vertex"), ("closed_walk",))
    c14.residual_rule(prog, rep, "C02.R5")
    c14.splice_rule(prog, rep, "C02.R5")
    rep.rule("C02.R6", "the model's ignore set / options derive only from this call's arguments (no write to caller objects or shared defaults)", floor=4)
    from rules.c18 import class_inputs_not_mutated
    class_inputs_not_mutated(prog, rep, "C02.R6", FLOW_MODELS)
    rep.rule("C02.R7", "node-weighted input: expansion scheme, attribute handling (missing => ignored, present incl. 0 => weighted)", floor=12)
    from rules.common import node_mode_plumbing
    node_mode_plumbing(prog, rep, "C02.R7")
    rep.rule("C02.R8", "greedy peeling: what is subtracted along a path is what is published as its weight, on every edge (C17.R5)", floor=9)
    from rules.c17 import peeling_rule
    from rules.common import RuleProxy
    peeling_rule(prog, RuleProxy(rep, "C02.R8"), "C17.R5")
    rep.rule("C02.R9", "variables the encoders treat as fixed (edges_set_to_one / zero through queued bounds) are really fixed: queued updates reach the solver on every path (C12.R5)", floor=1)
    from rules.c12 import apply_before_run
    apply_before_run(prog, RuleProxy(rep, "C02.R9"), "C12.R5")
    rep.rule("C02.R10", "solutions hand out every route that carries flow: remove-empty filters decide emptiness on the internal route (C01.R5); "
             "given weights are integral when weight_type is int (published = modelled)", floor=3)
    from rules import ns as _ns
    _ns.arity_rule(prog, RuleProxy(rep, "C02.R10"), "C01.R5", only=("kFlowDecomp", "kFlowDecompCycles"))
    from rules.providers import given_weights_integral
    given_weights_integral(prog, rep, "C02.R10", ["kFlowDecomp"])
    from rules.providers import given_weights_above_coefficient_threshold
    given_weights_above_coefficient_threshold(prog, rep, "C02.R10", ["kFlowDecomp"])
    rep.rule("C02.R11", "the flow values of the exact flow rows reach the solver as Python numbers (numpy integer / float32 flows are accepted like in the error models)", floor=3)
    from rules.values import data_rhs_converted
    data_rhs_converted(prog, rep, "C02.R11", {"kFlowDecomp": ["_encode_flow_decomposition", "_encode_flow_decomposition_with_given_weights"],
                                               "kFlowDecompCycles": ["_encode_flow_decomposition"]})
    from rules.values import python_arithmetic as _pa
    from sa.pm import AnalysisError as _AE
    if _pa(prog, rep, "C02.R11", [prog.own_method(c, "is_valid_solution") for c in ['kFlowDecomp', 'kFlowDecompCycles']],
           "is_valid_solution() reports the model's own optimal solution invalid (5 - 7 = 254 for np.uint8)") < 2:
        raise _AE("is_valid_solution: the comparison of the flow values with the load of the routes was not found")
    from rules.values import coefficients_converted as _cc
    _cc(prog, rep, "C02.R11", ["kFlowDecomp", "AbstractWalkModelDiGraph"])
    # the flow-safe paths of kFlowDecomp / MinFlowDecomp are computed in the constructor: the readers of the scan must take every real flow value (C06.R7)
    from rules.c06 import readers_take_every_number as _rten
    from rules.common import RuleProxy as _RPr
    _rten(prog, _RPr(rep, "C02.R11"), "C06.R7")
    # the consumers replace the product of an edge flagged `= 1` / `= 0` by the weight / by 0: the flag has to be set exactly where the matching constraint
    # (or queued fix) is stated (C05.R1)
    from rules.common import RuleProxy as _RPf
    semantic.flag_pairing(prog, _RPf(rep, "C02.R2"), "C05.R1")
    if _pa(prog, rep, "C02.R11", [prog.own_method("AbstractWalkModelDiGraph", "_encode_walks")],
           "the big-M of row 22a (sum of the repetition bounds of the edges entering a node) comes out as 0 or negative, no walk can enter the node and a decomposable flow is infeasible (np.uint8 128 + 128 = 0)") < 1:
        raise _AE("_encode_walks: the sum of the repetition bounds was not found")
