"""NS - namespace typestate of graphs and paths (USER / EXP / AUG) and the strip / condense rules."""
from __future__ import annotations

import ast
import re
from typing import Dict, List, Optional, Set, Tuple

from sa.pm import Program, FuncInfo, ClassInfo, dotted, norm, calls_in, walk_no_nested, AnalysisError, kwarg
from sa.worlds import WorldFlow, World, must
from sa.flow import Flow
from rules.common import stores_to_self_attr, local_single_defs

ST_GRAPHS = {"stDAG", "stDiGraph"}
K_MODELS = {"kFlowDecomp", "kFlowDecompCycles", "kLeastAbsErrors", "kLeastAbsErrorsCycles", "kMinPathError",
            "kMinPathErrorCycles", "kPathCover", "kPathCoverCycles"}
WRAPPERS = ["MinFlowDecomp", "MinFlowDecompCycles", "MinPathCover", "MinPathCoverCycles"]


def callee_class(prog: Program, f: FuncInfo, call: ast.Call) -> Optional[str]:
    d = dotted(call.func)
    if d is None:
        return None
    last = d.split(".")[-1]
    if prog.has_cls(last):
        obj = prog.find_dotted(prog.expand_alias(f.module, d))
        if isinstance(obj, ClassInfo) or d in f.module.classes:
            return last
    return None


def attr_namespace(prog: Program, cls: ClassInfo, attr: str, depth: int = 0) -> Set[str]:
    """May-namespaces of self.<attr>: 'AUG' if some store assigns an st-graph, 'EXP' for NodeExpandedDiGraph, else 'USER'."""
    out: Set[str] = set()
    if depth > 4:
        return {"UNKNOWN"}
    for c in prog.mro(cls):
        for f in c.methods.values():
            for st in stores_to_self_attr(f.node, attr):
                v = getattr(st, "value", None)
                if v is None:
                    continue
                if isinstance(v, ast.Call):
                    cc = callee_class(prog, f, v)
                    if cc in ST_GRAPHS:
                        out.add("AUG")
                        continue
                    if cc == "NodeExpandedDiGraph":
                        out.add("EXP")
                        continue
                d = dotted(v)
                if d and d.startswith("self.") and d.count(".") == 1:
                    out |= attr_namespace(prog, cls, d.split(".")[1], depth + 1)
                else:
                    out.add("USER")
    return out or {"USER"}


def expr_namespace(prog: Program, cls: Optional[ClassInfo], f: FuncInfo, e: ast.AST, defs: Dict[str, ast.AST], depth=0) -> Set[str]:
    if depth > 4:
        return {"UNKNOWN"}
    d = dotted(e)
    if d and cls is not None and d.startswith("self.") and d.count(".") == 1:
        return attr_namespace(prog, cls, d.split(".")[1])
    if isinstance(e, ast.Name) and e.id in defs:
        return expr_namespace(prog, cls, f, defs[e.id], defs, depth + 1)
    if isinstance(e, ast.Call):
        cc = callee_class(prog, f, e)
        if cc in ST_GRAPHS:
            return {"AUG"}
        if cc == "NodeExpandedDiGraph":
            return {"EXP"}
    return {"USER"}


def no_double_augmentation(prog: Program, rep, RID: str):
    """No AUG value flows into the base-graph parameter of an st-graph or the G parameter of a k-model."""
    n = 0
    for f in prog.all_functions():
        cls = f.cls
        defs = local_single_defs(f.node)
        for c in calls_in(f.node):
            cc = callee_class(prog, f, c)
            if cc in ST_GRAPHS or cc == "NodeExpandedDiGraph":
                arg = kwarg(c, "base_graph", 0) if cc in ST_GRAPHS else kwarg(c, "G", 0)
            elif cc in K_MODELS or cc in WRAPPERS:
                arg = kwarg(c, "G", 0)
            else:
                continue
            if arg is None:
                continue
            n += 1
            ns = expr_namespace(prog, cls, f, arg, defs)
            key = f"{f.qualname}:{cc}({norm(arg)})"
            if "AUG" in ns:
                rep.violation(RID, key, f"`{norm(arg)}` may already be an augmented s-t graph (it is assigned from stDAG/stDiGraph in this class) and is "
                              f"passed as the base graph of {cc}: the synthetic source/sink of the first augmentation become ordinary nodes and "
                              "show up in returned paths", f.loc(c))
            else:
                rep.ok(RID, key, f"base graph namespace {sorted(ns)}", f.loc(c), sample={"call": norm(c)[:100], "namespace": sorted(ns)})
    return n


# ------------------------------------------------------------------------------------- strip rule
class StripFlow(Flow):
    """name -> subset of {'S' (list seeded with the synthetic source), 'E' (empty list literal), 'X' (other)}"""

    def __init__(self, f: FuncInfo):
        self.f = f
        self.exits = []

    def initial(self, func):
        return ()

    def join(self, a, b):
        da, db = dict(a), dict(b)
        return tuple(sorted((k, tuple(sorted(set(da.get(k, ("X",))) | set(db.get(k, ("X",)))))) for k in set(da) | set(db)))

    def _is_source(self, e, state) -> bool:
        if norm(e) == "self.G.source":
            return True
        if isinstance(e, ast.Name):
            return "SRC" in dict(state).get(e.id, ())
        return False

    def transfer(self, stmt, state):
        d = dict(state)
        if isinstance(stmt, ast.Assign) and len(stmt.targets) == 1 and isinstance(stmt.targets[0], ast.Name):
            nme, v = stmt.targets[0].id, stmt.value
            if isinstance(v, ast.List):
                if not v.elts:
                    d[nme] = ("E",)
                elif self._is_source(v.elts[0], state):
                    d[nme] = ("S",)
                else:
                    d[nme] = ("X",)
            elif self._is_source(v, state):
                d[nme] = ("SRC",)
            else:
                d[nme] = ("X",)
            state = tuple(sorted(d.items()))
        for n in ast.walk(stmt):
            if isinstance(n, ast.Call) and isinstance(n.func, ast.Attribute) and n.func.attr == "append" and n.args and \
                    dotted(n.func.value) in ("paths", "walks"):
                self.record(self.exits, (f"{dotted(n.func.value)}.append", n, n.args[0], state))
        return state

    def on_return(self, stmt, state):
        if stmt.value is not None:
            self.record(self.exits, ("return", stmt, stmt.value, state))


def strip_rule(prog: Program, rep, RID: str):
    targets = [("AbstractPathModelDAG", "get_solution_paths"), ("AbstractWalkModelDiGraph", "_reconstruct_eulerian_walk")]
    for cname, mname in targets:
        f = prog.own_method(cname, mname)
        fl = StripFlow(f)
        fl.run(f.node)
        body_lists = _blocks(f.node)
        n_exits = 0
        for kind, node, arg, state in fl.exits:
            d = dict(state)
            seeded = {k for k, v in d.items() if "S" in v}
            used = {x.id for x in ast.walk(arg) if isinstance(x, ast.Name)} & seeded
            if not used:
                continue
            n_exits += 1
            key = f"{cname}.{mname}:{kind}({norm(arg)})"
            if _is_strip(arg, seeded):
                rep.ok(RID, key, "first and last element (synthetic source / sink) dropped before publishing", f.loc(node),
                       sample={"exit": f"{kind} {norm(arg)}", "seeded_lists": sorted(seeded)})
            elif kind == "return" and _preceded_by_error_log(body_lists, node):
                rep.ok(RID, key, "whitelisted error exit: logged fall-back for a walk that does not end at the sink "
                       "(unreachable for a balanced assignment, C14)", f.loc(node), nontrivial=False)
            else:
                rep.violation(RID, key, f"a node list seeded with the synthetic source reaches `{kind}` as `{norm(arg)}` without dropping its first and "
                              "last element: 'source_<id>' / 'sink_<id>' leak into the returned path", f.loc(node))
        if n_exits < 1:
            raise AnalysisError(f"{cname}.{mname}: no publishing exit of a list seeded with self.G.source found")


def _is_strip(arg: ast.AST, seeded: Set[str]) -> bool:
    if isinstance(arg, ast.Subscript) and isinstance(arg.value, ast.Name) and arg.value.id in seeded and isinstance(arg.slice, ast.Slice):
        lo, hi, st = arg.slice.lower, arg.slice.upper, arg.slice.step
        return (st is None and isinstance(lo, ast.Constant) and lo.value == 1 and
                isinstance(hi, ast.UnaryOp) and isinstance(hi.op, ast.USub) and isinstance(hi.operand, ast.Constant) and hi.operand.value == 1)
    return False


def _blocks(func: ast.AST) -> List[List[ast.stmt]]:
    out = []
    for n in ast.walk(func):
        for fld in ("body", "orelse", "finalbody"):
            b = getattr(n, fld, None)
            if isinstance(b, list) and b and isinstance(b[0], ast.stmt):
                out.append(b)
    return out


def _preceded_by_error_log(blocks, ret: ast.Return) -> bool:
    for b in blocks:
        for i, s in enumerate(b):
            if s is ret and i > 0:
                p = b[i - 1]
                return isinstance(p, ast.Expr) and isinstance(p.value, ast.Call) and (dotted(p.value.func) or "").endswith("logger.error")
    return False


# ------------------------------------------------------------------------- node results condensed
class ModeFlow(WorldFlow):
    def __init__(self, prog, f, mode_attr):
        super().__init__(prog, f.module, f.cls)
        self.f = f
        self.mode = f"self.{mode_attr}"
        self.events = []

    def _restrict_const(self, state, key, tok, positive):
        if key == self.mode and not positive and tok != "None":
            def g(w: World):
                cur = w.get(key)
                if cur is None:
                    return w.set(key, ["!" + tok])
                new = frozenset(t for t in cur if t != tok)
                return w.set(key, new) if new else None
            return self._map(state, g)
        return super()._restrict_const(state, key, tok, positive)

    def transfer(self, stmt, state):
        if state is not None and isinstance(stmt, ast.Assign):
            for t in stmt.targets:
                if dotted(t) == "self._solution" and isinstance(stmt.value, ast.Dict):
                    self.record(self.events, ("dict", stmt, state))
                if isinstance(t, ast.Subscript) and dotted(t.value) == "self._solution" and isinstance(t.slice, ast.Constant) and \
                        t.slice.value in ("paths", "walks"):
                    if _is_condense(stmt.value):
                        state = self._map(state, lambda w: w.set("#condensed", ["T"]))
                    else:
                        self.record(self.events, ("store", stmt, state))
                if dotted(t) == "self._solution" and not isinstance(stmt.value, ast.Dict):
                    state = self._map(state, lambda w: w.set("#condensed", None))
                    self.record(self.events, ("adopt", stmt, state))
        return super().transfer(stmt, state)

    def on_return(self, stmt, state):
        self.record(self.events, ("return", stmt, state))


def _is_condense(v: ast.AST) -> bool:
    return isinstance(v, ast.Call) and isinstance(v.func, ast.Attribute) and v.func.attr == "get_condensed_paths" and \
        (dotted(v.func.value) or "").endswith("G_internal")


def _edge_world(w: World, mode: str) -> bool:
    v = w.get(mode)
    return v is not None and ("'node'" not in v) and (v <= {"'edge'", "!'node'"} or all(t.startswith("!") or t == "'edge'" for t in v))


def node_results_condensed(prog: Program, rep, RID: str):
    n = 0
    for cls in prog.all_classes():
        init = cls.methods.get("__init__")
        if init is None:
            continue
        mode_attr = None
        for a in ("flow_attr_origin", "cover_type"):
            if stores_to_self_attr(init.node, a):
                mode_attr = a
        if mode_attr is None or not stores_to_self_attr(init.node, "G_internal"):
            continue
        if cls.name == "MinErrorFlow":
            continue            # publishes a graph, not paths (C16.R2)
        for f in cls.methods.values():
            if not any(isinstance(x, ast.Attribute) and x.attr == "_solution" and isinstance(x.ctx, ast.Store) for x in ast.walk(f.node)) \
                    and not any(isinstance(x, ast.Subscript) and dotted(x.value) == "self._solution" and isinstance(x.ctx, ast.Store) for x in ast.walk(f.node)):
                continue
            fl = ModeFlow(prog, f, mode_attr)
            fl.run(f.node)
            adopted = False
            for kind, st, state in fl.events:
                if kind == "dict":
                    n += 1
                    d: ast.Dict = st.value
                    keys = {k.value: v for k, v in zip(d.keys, d.values) if isinstance(k, ast.Constant)}
                    pv = keys.get("paths", keys.get("walks"))
                    if pv is None:
                        continue
                    key = f"{cls.name}.{f.name}:solution-dict@{mode_attr}"
                    if _is_condense(pv):
                        rep.ok(RID, key + ":node", "paths/walks published through get_condensed_paths", f.loc(st),
                               sample={"class": cls.name, "value": norm(pv)[:90]})
                    elif state is None or all(_edge_world(w, fl.mode) for w in state):
                        rep.ok(RID, key + ":edge", "un-condensed paths published only when the mode is not 'node'", f.loc(st))
                    else:
                        rep.violation(RID, key, f"the solution dict publishes `{norm(pv)[:60]}` (expanded 'v.0','v.1' names) on a path where "
                                      f"{fl.mode} may be 'node', without get_condensed_paths", f.loc(st))
                if kind == "adopt":
                    adopted = True
                if kind == "store":
                    n += 1
                    rep.violation(RID, f"{cls.name}.{f.name}:store-paths", f"`{norm(st)[:80]}` overwrites the published paths with a value that is "
                                  "not condensed", f.loc(st))
            if adopted:
                # wrapper: a sub-model's solution is adopted; every `return True` needs condensed or not-node
                for kind, st, state in fl.events:
                    if kind == "return" and st.value is not None and fl.const_token(st.value) == "True":
                        n += 1
                        key = f"{cls.name}.{f.name}:adopted-solution"
                        bad = [w for w in (state or []) if not (w.get("#condensed") == frozenset(["T"]) or _edge_world(w, fl.mode))]
                        if not bad:
                            rep.ok(RID, key, f"adopted sub-model solution is condensed whenever {fl.mode} == 'node'", f.loc(st),
                                   sample={"class": cls.name, "rule": "return True only with #condensed or mode != 'node'"})
                        else:
                            rep.violation(RID, key, f"solve() adopts the k-model's solution over the node-expanded graph and returns True on a path where "
                                          f"{fl.mode} may be 'node' and the paths/walks were not converted by get_condensed_paths", f.loc(st))
    return n


# ------------------------------------------------------------------------------------ arity
PER_PATH_KEYS = {"paths", "walks", "weights", "slacks", "scaled_slacks", "_paths_internal", "_walks_internal"}


def _len_tested_names(test: ast.AST) -> Set[str]:
    out: Set[str] = set()
    for n in ast.walk(test):
        if isinstance(n, ast.Call) and dotted(n.func) == "len" and len(n.args) == 1 and isinstance(n.args[0], ast.Name):
            out.add(n.args[0].id)
    return out


def _min_kept_length(test: ast.AST, name: str):
    """smallest length of `name` for which the filter keeps the route (None: the test is not a plain threshold on len(name))"""
    neg = False
    while isinstance(test, ast.UnaryOp) and isinstance(test.op, ast.Not):
        test, neg = test.operand, not neg
    if isinstance(test, ast.Call) and dotted(test.func) == "len" and norm(test.args[0]) == name or (isinstance(test, ast.Name) and test.id == name):
        return None if neg else 1
    if not (isinstance(test, ast.Compare) and len(test.ops) == 1 and norm(test.left) == f"len({name})" and isinstance(test.comparators[0], ast.Constant)
            and isinstance(test.comparators[0].value, int)):
        return None
    c, op = test.comparators[0].value, test.ops[0]
    keep = {ast.Gt: c + 1, ast.GtE: c}.get(type(op))
    if isinstance(op, ast.NotEq) and c == 0:
        keep = 1
    drop = {ast.Lt: c, ast.LtE: c + 1}.get(type(op))
    if isinstance(op, ast.Eq) and c == 0:
        drop = 1
    if neg:
        keep, drop = drop, keep
    return keep      # (a `drop` form as the keeping test would be an inverted filter: not a threshold this rule judges)


def emptiness_on_internal_route(cls: ClassInfo, f: FuncInfo, per_path: Set[str], rep, RID: str) -> int:
    """In node-weighted mode the published routes are condensed: a route through one node has a single element
    but carries flow.  When the class publishes `_paths_internal` / `_walks_internal`, the length test of the
    remove-empty filter has to be made on the internal route (falling back to the published one in edge mode)."""
    internal = sorted(k for k in per_path if k.startswith("_") and k.endswith("_internal"))
    if not internal:
        return 0
    ikey = internal[0]
    pkey = ikey[1:-len("_internal")]
    defs = local_single_defs(f.node)
    key = f"{cls.name}.{f.name}:emptiness"
    sites = 0
    # filter sites: a loop over zip(...) with `if len(x) ...` inside, or a comprehension over zip(...) with that filter
    cands = []
    for loop in [n for n in ast.walk(f.node) if isinstance(n, ast.For)]:
        tests = [st.test for st in ast.walk(loop) if isinstance(st, ast.If) and _len_tested_names(st.test)]
        if tests:
            cands.append((loop.target, loop.iter, tests, loop))
    for comp in [n for n in ast.walk(f.node) if isinstance(n, (ast.ListComp, ast.GeneratorExp, ast.SetComp, ast.DictComp))]:
        for g in comp.generators:
            tests = [t for t in g.ifs if _len_tested_names(t)]
            if tests:
                cands.append((g.target, g.iter, tests, comp))
    seen_src = set()
    for target, it, tests, where in cands:
        if isinstance(it, ast.Name) and it.id in defs:
            it = defs[it.id]
        if not (isinstance(it, ast.Call) and dotted(it.func) == "zip" and isinstance(target, ast.Tuple)
                and len(target.elts) == len(it.args) and all(isinstance(e, ast.Name) for e in target.elts)):
            raise AnalysisError(f"{cls.name}.{f.name}: the filter is not over a zip of the per-route lists: {norm(it)}")
        source = {t.id: a for t, a in zip(target.elts, it.args)}
        for test in tests:
            for name in sorted(_len_tested_names(test)):
                if name not in source:
                    raise AnalysisError(f"{cls.name}.{f.name}: length test on `{name}`, which is not an element of the zipped lists")
                src = source[name]
                if isinstance(src, ast.Name) and src.id in defs:
                    src = defs[src.id]
                text = norm(src)
                if (text, norm(test)) in seen_src:
                    continue
                seen_src.add((text, norm(test)))
                sites += 1
                prefers_internal = (
                    isinstance(src, ast.Call) and isinstance(src.func, ast.Attribute) and src.func.attr == "get" and len(src.args) == 2
                    and isinstance(src.args[0], ast.Constant) and src.args[0].value == ikey
                    and isinstance(src.args[1], ast.Subscript) and isinstance(src.args[1].slice, ast.Constant) and src.args[1].slice.value == pkey
                ) or (
                    isinstance(src, ast.IfExp) and ikey in norm(src.test) and isinstance(src.body, ast.Subscript)
                    and isinstance(src.body.slice, ast.Constant) and src.body.slice.value == ikey
                    and isinstance(src.orelse, ast.Subscript) and isinstance(src.orelse.slice, ast.Constant) and src.orelse.slice.value == pkey
                )
                on_published = isinstance(src, ast.Subscript) and isinstance(src.slice, ast.Constant) and src.slice.value == pkey
                L = _min_kept_length(test, name)
                if prefers_internal and L is not None and L >= 2:
                    rep.violation(RID, key + ":threshold", f"`{norm(test)}` keeps a route only from {L} elements on: a route through a single node (an isolated node, a node "
                                  "that is both a start and an end) carries weight in the model and is dropped from the solution together with its weight", f.loc(where))
                elif prefers_internal and L == 1:
                    rep.ok(RID, key + ":threshold", f"`{norm(test)}`: only routes without any element are empty", f.loc(where))
                if prefers_internal:
                    rep.ok(RID, key, f"emptiness is decided on the internal route when there is one: `{text}`", f.loc(where))
                elif on_published:
                    rep.violation(RID, key, f"{f.name} decides emptiness on the published `{pkey}` (`{norm(test)}`) although the class publishes "
                                  f"`{ikey}`: in node-weighted mode a route through a single node condenses to one element and is dropped "
                                  f"with its weight", f.loc(where))
                else:
                    raise AnalysisError(f"{cls.name}.{f.name}: cannot tell which list the length test `{norm(test)}` reads: `{text}`")
    if sites == 0:
        raise AnalysisError(f"{cls.name}.{f.name}: no length test found in the remove-empty filter")
    return sites


def arity_rule(prog: Program, rep, RID: str, only=None):
    n = 0
    for cls in prog.all_classes():
        rm = [m for m in cls.methods if m.startswith("_remove_empty")]
        if not rm or (only is not None and cls.name not in only):
            continue
        published: Set[str] = set()
        for f in cls.methods.values():
            for st in walk_no_nested(f.node):
                if isinstance(st, ast.Assign) and any(dotted(t) == "self._solution" for t in st.targets) and isinstance(st.value, ast.Dict):
                    published |= {k.value for k in st.value.keys if isinstance(k, ast.Constant)}
                if isinstance(st, ast.Assign):
                    for t in st.targets:
                        if isinstance(t, ast.Subscript) and dotted(t.value) == "self._solution" and isinstance(t.slice, ast.Constant):
                            published.add(t.slice.value)
        per_path = published & PER_PATH_KEYS
        for m in rm:
            f = cls.methods[m]
            handled: Set[str] = set()
            for st in ast.walk(f.node):
                if isinstance(st, ast.Assign):
                    for t in st.targets:
                        if isinstance(t, ast.Subscript) and isinstance(t.slice, ast.Constant) and isinstance(t.slice.value, str):
                            handled.add(t.slice.value)
                if isinstance(st, ast.Return) and isinstance(st.value, ast.Dict):
                    handled |= {k.value for k in st.value.keys if isinstance(k, ast.Constant)}
                if isinstance(st, ast.Assign) and isinstance(st.value, ast.Dict) and all(isinstance(t, ast.Name) for t in st.targets):
                    # a dict built under a local name (and returned or completed by subscript stores)
                    handled |= {k.value for k in st.value.keys if isinstance(k, ast.Constant)}
            n += 1
            key = f"{cls.name}.{m}"
            missing = per_path - handled
            if missing:
                rep.violation(RID, key, f"{m} filters {sorted(handled)} but get_solution publishes the per-path lists {sorted(per_path)}: "
                              f"{sorted(missing)} keep(s) one entry per layer while empty paths are removed - lists of different length", f.loc())
            else:
                rep.ok(RID, key, f"filters every per-path key it publishes: {sorted(per_path)}", f.loc(),
                       sample={"class": cls.name, "published": sorted(per_path), "filtered": sorted(handled)})
            n += emptiness_on_internal_route(cls, f, per_path, rep, RID)
    # per-path lists are built over range(self.k)
    for cls in prog.all_classes():
        gs = cls.methods.get("get_solution")
        if gs is None or (only is not None and cls.name not in only):
            continue
        for st in walk_no_nested(gs.node):
            if isinstance(st, ast.Assign) and len(st.targets) == 1 and (dotted(st.targets[0]) or "").startswith("self.path_") and \
                    isinstance(st.value, ast.ListComp):
                n += 1
                it = norm(st.value.generators[0].iter)
                key = f"{cls.name}.get_solution:{dotted(st.targets[0])}"
                if it == "range(self.k)":
                    rep.ok(RID, key, "one entry per layer (range(self.k))", gs.loc(st))
                else:
                    rep.violation(RID, key, f"per-path list built over `{it}` instead of range(self.k): not one entry per path", gs.loc(st))
    return n
