"""C19 - invalid inputs are rejected with ValueError instead of being solved."""
from __future__ import annotations

import ast
import re
from typing import Dict, List, Set

from sa.pm import Program, FuncInfo, ClassInfo, dotted, norm, calls_in, walk_no_nested, AnalysisError, kwarg, is_super_call
from rules import val
from rules.ns import callee_class, K_MODELS, WRAPPERS

EXPLANATION = (
    "Decides the rejection clause structurally: (R1) for each of the ~160 frozen validation sites (function, test, enclosing conditions, "
    "enclosing loop) a `raise ValueError` guarded by an equivalent test is present, is not nested under additional conditions, and - by "
    "dataflow over control-dependence facts - every path through the function (resp. through one loop iteration) that completes normally "
    "evaluated the test with the non-raising outcome; delegations (st-graph constructors validating nodes / acyclicity / source-sink / "
    "additional start-end membership, constraint checkers, the non-negative-weight scan, base-class constructors) are must-call "
    "obligations on every normal exit; the 21x13 validation matrix (which class establishes which kind of check, locally, by delegation "
    "or through the sub-model built in solve) is re-derived and compared with the frozen cells; the wrappers forward every same-named "
    "constructor argument to the k-model they build; (R2) every raise in constructors and validation helpers is ValueError (or a bare "
    "re-raise inside `except ValueError`) and no handler between a validation site and the API boundary swallows it; (R4) the boolean validator behind every conservation "
    "site examines every node having both incoming and outgoing edges (no other exemption), compares the complete in-sum with the complete out-sum and answers True only after the last node; (R3, advisory) "
    " (R5) the construction-time edge queries keyed by the synthetic source / sink are guarded by node membership, so the no-source / no-sink ValueError cannot be bypassed by one-character node names. "
    " (R6) range checks are NaN-proof (evaluated with every ordering comparison False they still raise), the greedy route is left before paths[0] is read when the greedy decomposition is empty, the node-mode constraint translator rejects empty constraints and type-checks every element, and equality rows convert caller data to Python numbers; (R4, extended) the conservation verdict may be `not math.isclose(in, out)` with tolerances <= 1e-6. "
    "reads of loop variables after a possibly empty loop are listed as notes.  NOT decided: the converse (every well-formed input is accepted)."
    ' (R4, round 3) conservation verdict: exact under an is_integer() guard, tolerance <= 1e-6 otherwise, integral summands as Python ints; (R6) option dictionaries are None-safe, a declared k=None is replaced before validation, additional starts / ends of the node expansion must be nodes, data multiplying solver variables are converted.'
    ' (R4, round 4) the validators of graphutils are not memoised (a graph hashes by identity); (R1) validation sites are canonicalised with store forwarding (validating a parameter before it is stored = validating the attribute afterwards), `a and (b or c)` = nested ifs, `a and any(Q)` = loop with raise.'
    ' (R4, hunt 4) the non-integral branch of the conservation verdict uses a tolerance scaled by math.ulp of the sums (a fixed relative tolerance accepts whole units at 3e9).'
    ' (R6, hunt 5) the tolerance check of SolverWrapper rejects NaN; the lower-bound helpers of MinFlowDecomp, which run before any k-model validated the input, return no bound for flow values that are not >= 0 and select window constraints by tuple-guarded edge membership (ValueError from the k-model instead of a bare Exception / TypeError).'
    " (R6, hunt 6) the caller's k reaches solver rows as int(k); the guards of the lower-bound helpers are evaluated on nan / inf / -inf / -1; int() is applied to finite flow values only."
)
DECIDED = ["each documented domain violation has a ValueError rejection on every completing path", "delegated checks are always invoked",
           "exception type", "wrappers forward what the sub-model must validate"]
NOT_DECIDED = ["every input inside the documented domain is accepted (needs feasibility of every path)"]

# kinds of checks (columns of the validation matrix): name -> regex over the canonical site test
KINDS = {
    "string-nodes": r"not \(isinstance\(L0_0, str\)\).* @ (base_graph|G)\.nodes$",
    "acyclic": r"not \(nx\.is_directed_acyclic_graph\(self\.base_graph\)\)",
    "source-sink-exist": r"not \(self\.(source|sink)_edges\)",
    "weights-present-nonneg": r"LT0\[(L0_2|self\[L0_0\]\[L0_1\])\[flow_attr\]\].* @ self\.edges|not \(flow_attr in (L0_2|self\[L0_0\]\[L0_1\])\).* @ self\.edges",
    "conservation": r"satisfies_flow_conservation|check_flow_conservation",
    "constraint-shape-membership": r"not \(self\.G\.has_edge\(L1_0\[0\], L1_0\[1\]\)\).* @ L0_0",
    "coverage-range": r"LE0\[(self\.)?sub(path|set)_constraints_coverage\]",
    "k-positive": r"LE0\[k\]",
    "weight-type": r"not \(EQ0\[float - (self\.)?weight_type\]\) & not \(EQ0\[int - (self\.)?weight_type\]\)",
    "origin-or-cover-type": r"not \('edge' == (self\.)?(flow_attr_origin|cover_type)\) & not \('node' == (self\.)?(flow_attr_origin|cover_type)\)",
    "additional-start-end-membership": r"not \(self\.additional_(starts|ends)\.issubset\(base_graph\.nodes\(\)\)\)",
    "error-scaling-range": r"LT0\[L0_1\].* @ .*error_scaling\.items\(\)|not \(LE0\[-1 \+ L0_1\]\).* @ .*error_scaling\.items\(\)",
    "ignore-list-shape": r"not \(isinstance\(L0_0, str\)\).* @ elements_to_ignore|isinstance\(L\d_0, tuple\).* @ (elements_to_ignore|L0_0)",
}

# required cells (DESIGN Appendix B): class -> kinds that must be established at construction or (wrappers) in solve
REQUIRED = {
    "stDAG": ["string-nodes", "acyclic", "additional-start-end-membership"],
    "stDiGraph": ["string-nodes", "source-sink-exist", "additional-start-end-membership"],
    "NodeExpandedDiGraph": ["string-nodes"],
    "AbstractPathModelDAG": ["constraint-shape-membership", "coverage-range", "k-positive"],
    "AbstractWalkModelDiGraph": ["constraint-shape-membership", "coverage-range", "k-positive"],
    "kFlowDecomp": ["string-nodes", "acyclic", "weights-present-nonneg", "conservation", "constraint-shape-membership", "coverage-range",
                    "k-positive", "weight-type", "origin-or-cover-type", "ignore-list-shape"],
    "kFlowDecompCycles": ["string-nodes", "source-sink-exist", "weights-present-nonneg", "constraint-shape-membership", "coverage-range",
                          "k-positive", "weight-type", "origin-or-cover-type", "additional-start-end-membership", "ignore-list-shape"],
    "kLeastAbsErrors": ["string-nodes", "acyclic", "weights-present-nonneg", "constraint-shape-membership", "coverage-range", "k-positive",
                        "weight-type", "origin-or-cover-type", "additional-start-end-membership", "error-scaling-range", "ignore-list-shape"],
    "kLeastAbsErrorsCycles": ["string-nodes", "source-sink-exist", "weights-present-nonneg", "constraint-shape-membership", "coverage-range",
                              "k-positive", "weight-type", "origin-or-cover-type", "additional-start-end-membership", "error-scaling-range",
                              "ignore-list-shape"],
    "kMinPathError": ["string-nodes", "acyclic", "weights-present-nonneg", "constraint-shape-membership", "coverage-range", "k-positive",
                      "weight-type", "origin-or-cover-type", "additional-start-end-membership", "error-scaling-range", "ignore-list-shape"],
    "kMinPathErrorCycles": ["string-nodes", "source-sink-exist", "weights-present-nonneg", "constraint-shape-membership", "coverage-range",
                            "k-positive", "weight-type", "origin-or-cover-type", "additional-start-end-membership", "error-scaling-range",
                            "ignore-list-shape"],
    "kPathCover": ["string-nodes", "acyclic", "constraint-shape-membership", "coverage-range", "k-positive", "origin-or-cover-type",
                   "additional-start-end-membership", "ignore-list-shape"],
    "kPathCoverCycles": ["string-nodes", "source-sink-exist", "constraint-shape-membership", "coverage-range", "k-positive",
                         "origin-or-cover-type", "additional-start-end-membership", "ignore-list-shape"],
    "MinFlowDecomp": ["string-nodes", "acyclic", "weights-present-nonneg", "conservation", "constraint-shape-membership", "coverage-range",
                      "weight-type", "origin-or-cover-type", "ignore-list-shape"],
    "MinFlowDecompCycles": ["string-nodes", "source-sink-exist", "weights-present-nonneg", "conservation", "constraint-shape-membership",
                            "coverage-range", "weight-type", "origin-or-cover-type", "ignore-list-shape"],
    "MinPathCover": ["string-nodes", "acyclic", "constraint-shape-membership", "coverage-range", "origin-or-cover-type",
                     "additional-start-end-membership", "ignore-list-shape"],
    "MinPathCoverCycles": ["string-nodes", "source-sink-exist", "constraint-shape-membership", "coverage-range", "origin-or-cover-type",
                           "additional-start-end-membership", "ignore-list-shape"],
    "MinGenSet": ["weight-type"],
    "MinErrorFlow": ["weight-type", "origin-or-cover-type", "error-scaling-range", "ignore-list-shape"],
}

SUB_MODEL = {"MinFlowDecomp": "kFlowDecomp", "MinFlowDecompCycles": "kFlowDecompCycles", "MinPathCover": "kPathCover",
             "MinPathCoverCycles": "kPathCoverCycles"}


def constructor_functions(prog: Program, c2: ClassInfo) -> List[FuncInfo]:
    """__init__ chain of class c2 (through super().__init__) plus every self.<m>() it calls, dispatched on c2."""
    out: List[FuncInfo] = []
    init = prog.lookup_method(c2, "__init__")
    chain = []
    cur = init
    guard = 0
    while cur is not None and guard < 6:
        guard += 1
        chain.append(cur)
        nxt = None
        for c in calls_in(cur.node):
            if is_super_call(c) and c.func.attr == "__init__" and cur.cls is not None and cur.cls.bases:
                nxt = prog.lookup_method(cur.cls.bases[0], "__init__")
        cur = nxt
    for f in chain:
        out.append(f)
        for c in calls_in(f.node):
            d = dotted(c.func) or ""
            if d.startswith("self.") and d.count(".") == 1:
                m = prog.lookup_method(c2, d.split(".")[1])
                if m is not None and m not in out:
                    out.append(m)
    return out


def closure_functions(prog: Program, cls: ClassInfo, deleg: Dict[str, List[Dict[str, object]]], seen=None) -> List[str]:
    """table keys of the functions whose validation sites are established when cls is constructed (constructor chain with
    dynamically dispatched hooks, delegates) - and, for the wrappers, when solve() builds the k-model."""
    if seen is None:
        seen = set()
    out: List[str] = []

    def add_func(f: FuncInfo):
        k = f"{f.module.name}:{f.qualname}"
        if k in seen:
            return
        seen.add(k)
        out.append(k)
        for row in deleg.get(k, []):
            callee = row["callee"]
            last = callee.split(".")[-1]
            if callee == "super().__init__":
                continue            # handled by constructor_functions of the class being constructed
            if prog.has_cls(last):
                for g in constructor_functions(prog, prog.cls(last)):
                    add_func(g)
            elif callee.startswith("self.G.") or callee.startswith("self.G_internal."):
                for c in prog.all_classes():
                    if last in c.methods:
                        add_func(c.methods[last])
            elif callee.startswith("gu."):
                for m in prog.modules.values():
                    if last in m.functions:
                        add_func(m.functions[last])
    for g in constructor_functions(prog, cls):
        add_func(g)
    if cls.name in SUB_MODEL:
        out += closure_functions(prog, prog.cls(SUB_MODEL[cls.name]), deleg, seen)
    return out


def matrix_rule(prog: Program, rep, RID: str):
    table = val.load_table()
    sites, deleg = table["sites"], table["delegations"]
    cur_sites = val.current_sites(prog)
    cur_deleg = val.current_delegations(prog)
    n = 0
    for cname, kinds in sorted(REQUIRED.items()):
        cls = prog.cls(cname)
        funcs = closure_functions(prog, cls, cur_deleg)
        tests = []
        for k in funcs:
            for row in cur_sites.get(k, []):
                tests.append((k, row["test"] + (f" @ {row['loop']}" if row.get("loop") else "")))
        # kFlowDecomp's conservation flag is computed from a call, not a site test: include call names of the closure
        calls = set()
        for k in funcs:
            for row in cur_deleg.get(k, []):
                calls.add(row["callee"])
        for kind in kinds:
            n += 1
            rx = re.compile(KINDS[kind])
            hit = [(k, t) for k, t in tests if rx.search(t)] or ([("call", c) for c in calls if rx.search(c)] if kind == "conservation" else [])
            key = f"matrix[{cname} x {kind}]"
            if hit:
                where = hit[0][0].split(":")[-1]
                how = "L" if where.startswith(cname + ".") else ("S" if cname in SUB_MODEL and where.split(".")[0] in (SUB_MODEL[cname],) else "D")
                rep.ok(RID, key, f"established ({how}) by {where}: `{hit[0][1][:70]}`", "", sample={"class": cname, "check": kind, "via": where, "how": how})
            else:
                rep.violation(RID, key, f"no validation of kind `{kind}` is established when a {cname} is constructed"
                              + (" or its k-model is built in solve()" if cname in SUB_MODEL else "")
                              + f" (functions reached: {len(funcs)}): inputs violating it are accepted and solved or fail with another exception type", "")
    return n


def forwarding_rule(prog: Program, rep, RID: str):
    """The wrappers hand every same-named constructor argument to the k-model they build (otherwise its validation and its
    meaning are lost)."""
    RENAMED = {"elements_to_ignore": "edges_to_ignore", "G": "G"}
    NOT_FORWARDED = {"flow_attr_origin": "the wrapper expands the graph itself and passes the expanded graph in edge mode",
                     "cover_type": "the wrapper expands the graph itself and passes the expanded graph in edge mode",
                     "additional_starts": None, "additional_ends": None}
    for wname, kname in SUB_MODEL.items():
        w_init = prog.own_method(wname, "__init__")
        k_init = prog.own_method(kname, "__init__")
        solve = prog.own_method(wname, "solve")
        calls = [c for c in calls_in(solve.node) if callee_class(prog, solve, c) == kname]
        if not calls:
            raise AnalysisError(f"{wname}.solve: construction of {kname} not found")
        c = calls[0]
        passed = {kw.arg: norm(kw.value) for kw in c.keywords if kw.arg}
        for p in w_init.params[1:]:
            if p not in k_init.params:
                continue
            key = f"{wname}.solve:forward({p})"
            if p in ("flow_attr_origin", "cover_type"):
                rep.ok(RID, key, "tabled: " + NOT_FORWARDED[p], solve.loc(c), nontrivial=False)
                continue
            if p in ("additional_starts", "additional_ends") and wname in ("MinFlowDecomp",):
                rep.ok(RID, key, "tabled: MinFlowDecomp wires additional starts/ends inside the NodeExpandedDiGraph it builds", solve.loc(c), nontrivial=False)
                continue
            v = passed.get(p)
            want = {f"self.{p}", f"self.{RENAMED.get(p, p)}"}
            if p == "solver_options" and v not in want:
                # a private copy of the caller's options (with the remaining time): follow the local back to its origin
                seen_names = set()
                cur_name = v
                for _ in range(4):
                    if cur_name is None or cur_name in seen_names or not re.fullmatch(r"\w+", cur_name or ""):
                        break
                    seen_names.add(cur_name)
                    srcs = [norm(a.value) for a in walk_no_nested(solve.node) if isinstance(a, ast.Assign) and any(isinstance(t, ast.Name) and t.id == cur_name for t in a.targets)]
                    if any("self.solver_options" in s_ for s_ in srcs):
                        want.add(v)
                        break
                    nxt = [s_ for s_ in srcs if re.fullmatch(r"\w+", s_)]
                    cur_name = nxt[0] if nxt else None
            if v in want:
                rep.ok(RID, key, f"{p}={v}", solve.loc(c), sample={"wrapper": wname, "k-model": kname, "param": p, "value": v})
            else:
                rep.violation(RID, key, f"{wname}.solve builds {kname} without forwarding `{p}` (got `{v}`): the k-model neither validates nor applies "
                              "what the caller passed", solve.loc(c))


def exception_type_rule(prog: Program, rep, RID: str):
    n = 0
    for f in prog.all_functions():
        if not val.VALIDATION_FUNCS.match(f.name):
            continue
        for r in walk_no_nested(f.node):
            if isinstance(r, ast.Raise):
                n += 1
                ve = val.raise_is_value_error(r, f.node)
                key = f"{f.qualname}:raise@{norm(r)[:50]}"
                if ve is True:
                    rep.ok(RID, key, "ValueError", f.loc(r), nontrivial=False)
                elif ve is None:
                    rep.violation(RID, key, "bare `raise` outside an `except ValueError` handler in a validation context", f.loc(r))
                else:
                    if f.qualname == "HighsCustom.set_objective_without_solving":
                        continue
                    rep.violation(RID, key, f"validation raises `{norm(r.exc)[:50]}` instead of ValueError", f.loc(r))
        # swallowing handlers in validation contexts
        for t in walk_no_nested(f.node):
            if isinstance(t, ast.Try):
                for h in t.handlers:
                    if not any(isinstance(x, ast.Raise) for x in ast.walk(h)) and h.type is not None and norm(h.type) in ("ValueError", "Exception"):
                        n += 1
                        rep.violation(RID, f"{f.qualname}:except {norm(h.type)}", "a handler in a validation context swallows ValueError", f.loc(h))
    return n


def unbound_after_loop_notes(prog: Program, rep):
    """R3 (advisory): loop variables read after the loop (unbound if the loop is empty)."""
    cnt = 0
    for f in prog.all_functions():
        if not f.name.startswith("_encode"):
            continue
        for loop in [n for n in walk_no_nested(f.node) if isinstance(n, ast.For)]:
            names = {x.id for x in ast.walk(loop.target) if isinstance(x, ast.Name)}
            after = False
            for st in f.node.body:
                pass
        # cheap approximation: f-string names in add_constraint(name=...) that use an inner loop variable outside that loop
        for c in calls_in(f.node):
            nm = kwarg(c, "name")
            if nm is None or not isinstance(nm, ast.JoinedStr):
                continue
            used = {x.id for x in ast.walk(nm) if isinstance(x, ast.Name)}
            for v in used:
                loops = [l for l in walk_no_nested(f.node) if isinstance(l, ast.For) and v in {x.id for x in ast.walk(l.target) if isinstance(x, ast.Name)}]
                if loops and not any(any(y is c for y in ast.walk(l)) for l in loops):
                    cnt += 1
    rep.note(f"C19.R3 (advisory): {cnt} constraint names use a loop variable after its loop ended (unbound if the loop is empty, e.g. k = 0; k >= 1 is "
             "established by R1, so these reads are not reachable with an unbound variable)")


def conservation_validator(prog: Program, rep, RID: str):
    """The boolean validator behind every 'non-conserving flow -> ValueError' site: it must examine every node that has both an
    incoming and an outgoing edge, add up *all* incoming and *all* outgoing values, and answer False on any difference."""
    f = prog.function("flowpaths.utils.graphutils", "check_flow_conservation")
    G = f.node.args.args[0].arg
    A = f.node.args.args[1].arg
    key = "check_flow_conservation"
    outer = [s for s in f.node.body if isinstance(s, ast.For)]
    if len(outer) != 1 or norm(outer[0].iter) not in (f"{G}.nodes()", f"{G}.nodes", G) or not isinstance(outer[0].target, ast.Name):
        raise AnalysisError("check_flow_conservation: loop over all nodes of the graph not found")
    lp = _normalised_node_loop(outer[0])
    V = lp.target.id
    # 1. exemptions
    allowed = {f"{G}.out_degree({V}) == 0", f"{G}.in_degree({V}) == 0"}
    skips = [s for s in lp.body if isinstance(s, ast.If) and any(isinstance(b, ast.Continue) for b in s.body)]
    bad_skip = []
    seen = set()
    for s in skips:
        parts = s.test.values if isinstance(s.test, ast.BoolOp) and isinstance(s.test.op, ast.Or) else [s.test]
        for p in parts:
            (seen.add(norm(p)) if norm(p) in allowed else bad_skip.append(p))
        if isinstance(s.test, ast.BoolOp) and isinstance(s.test.op, ast.And):
            bad_skip = [x for x in bad_skip if x is not s.test]
    if any(isinstance(n, (ast.Continue, ast.Break)) for s in lp.body if s not in skips for n in ast.walk(s)):
        bad_skip.append(lp)
    if bad_skip:
        rep.violation(RID, key + ":exempt", f"a node is exempted from the conservation test under `{norm(bad_skip[0])[:80]}`: only nodes without incoming or without "
                      "outgoing edges (sources / sinks) may be skipped", f.loc(bad_skip[0]))
    else:
        rep.ok(RID, key + ":exempt", f"only sources and sinks are exempt ({sorted(seen)})", f.loc(lp))
    # 2. the two sums
    sums = {}
    for inner in [s for s in lp.body if isinstance(s, ast.For)]:
        it = inner.iter
        if not (isinstance(it, ast.Call) and dotted(it.func) in (f"{G}.out_edges", f"{G}.in_edges") and it.args and norm(it.args[0]) == V):
            raise AnalysisError(f"check_flow_conservation: inner loop `{norm(it)}` not recognised")
        direction = dotted(it.func).rsplit(".", 1)[1]
        accs = [s for s in ast.walk(inner) if isinstance(s, ast.AugAssign) and isinstance(s.op, ast.Add) and isinstance(s.target, ast.Name)]
        if len(accs) != 1:
            raise AnalysisError(f"check_flow_conservation: accumulation in the loop over {direction} not recognised")
        cond = enclosing_tests_in(inner, accs[0])
        if cond or any(isinstance(n, (ast.Continue, ast.Break)) for n in ast.walk(inner)):
            rep.violation(RID, key + f":{direction}-sum", f"the sum over {direction} is conditional or leaves the loop early: some edge values are not counted", f.loc(inner))
            continue
        summand = accs[0].value
        # `int(x) if isinstance(x, numbers.Integral) else x` is x (as a Python int where fixed-width integers could wrap around)
        if isinstance(summand, ast.IfExp) and "isinstance(" in norm(summand.test) and "Integral" in norm(summand.test) and isinstance(summand.body, ast.Call) and \
                dotted(summand.body.func) == "int" and len(summand.body.args) == 1 and norm(summand.body.args[0]) == norm(summand.orelse):
            summand = summand.orelse
        if isinstance(summand, ast.Name):
            ldefs = [st.value for st in ast.walk(inner) if isinstance(st, ast.Assign) and len(st.targets) == 1 and norm(st.targets[0]) == summand.id]
            if len(ldefs) == 1:
                summand = ldefs[0]
        if not re.search(r"\[%s\]$|\.get\(%s(, 0)?\)$" % (re.escape(A), re.escape(A)), norm(summand)):
            raise AnalysisError(f"check_flow_conservation: summand `{norm(accs[0].value)}` is not the flow attribute of the edge")
        sums.setdefault(direction, []).append(accs[0].target.id)
    if sorted(sums) == ["in_edges", "out_edges"] and all(len(v) == 1 for v in sums.values()) and sums["in_edges"] != sums["out_edges"]:
        rep.ok(RID, key + ":sums", "one sum over all in-edges, one over all out-edges of the node", f.loc(lp), sample={k: v[0] for k, v in sums.items()})
    elif sums:
        rep.violation(RID, key + ":sums", f"the two sides of the conservation test are not (all in-edges) vs (all out-edges): {sums}", f.loc(lp))
        return
    else:
        raise AnalysisError("check_flow_conservation: in/out sums not found")
    a, b = sums["in_edges"][0], sums["out_edges"][0]
    # 3. decisive comparison.  Reviewed form: integral sums are compared exactly; other sums within the rounding error of the two sums, a tolerance
    #    scaled by math.ulp of the values (`!=` alone rejects 0.3 = 0.1 + 0.2; a fixed relative tolerance accepts 2000000001 = 2000000000 among
    #    integers and 3000000002.5 = 3000000000.5 among floats)
    from rules.values import classify_guarded_comparisons, _mentions_ulp

    def returns_false(s_):
        rets_ = [n for n in s_.body if isinstance(n, ast.Return)]
        return bool(rets_) and isinstance(rets_[0].value, ast.Constant) and rets_[0].value.value is False

    def holder_if(node):
        """the `if` statement whose test contains node"""
        for st_ in ast.walk(lp):
            if isinstance(st_, ast.If) and any(x is node for x in ast.walk(st_.test)):
                return st_
        return None
    guarded, unguarded = classify_guarded_comparisons(lp)
    guarded = [g for g in guarded if isinstance(g[0], ast.If) and a in norm(g[0].test) and b in norm(g[0].test)]
    plain = [c_ for c_ in ast.walk(lp) if isinstance(c_, ast.Compare) and len(c_.ops) == 1 and {norm(c_.left), norm(c_.comparators[0])} == {a, b} and
             not any(any(x is c_ for x in ast.walk(g[0])) for g in guarded)]
    if len(guarded) == 1 and not plain and not unguarded:
        gnode, exact, kind, onode = guarded[0]
        eh = holder_if(exact) if exact is not None else None
        oh = holder_if(onode) if onode is not None else None
        exact_ok = exact is not None and {norm(exact.left), norm(exact.comparators[0])} == {a, b} and isinstance(exact.ops[0], ast.NotEq) and eh is not None and returns_false(eh)
        if not exact_ok:
            rep.violation(RID, key + ":decision", f"integral sums are not rejected on every difference (`{norm(exact) if exact is not None else norm(gnode.test)}`)", f.loc(gnode))
        elif kind == "ulp":
            # polarity: `if not abs(a - b) <= E: return False` or `if abs(a - b) > E: return False`
            t_ = oh.test if oh is not None else None
            neg = isinstance(t_, ast.UnaryOp) and isinstance(t_.op, ast.Not) and isinstance(onode.ops[0], (ast.LtE, ast.Lt))
            pos = t_ is onode and isinstance(onode.ops[0], (ast.Gt, ast.GtE))
            if oh is not None and returns_false(oh) and (neg or pos) and a in norm(onode) and b in norm(onode):
                rep.ok(RID, key + ":decision", f"integral sums: `{norm(exact)}` -> False; other sums: beyond the rounding error of the two sums (`{norm(onode)[:70]}`) -> False", f.loc(gnode))
            else:
                rep.violation(RID, key + ":decision", f"the non-integral branch `{norm(oh.test) if oh is not None else norm(onode)}` does not answer False on every difference beyond the rounding error", f.loc(onode))
        elif kind == "isclose":
            rep.violation(RID, key + ":decision", f"non-integral sums are compared by `{norm(onode)[:70]}`: a fixed relative tolerance accepts float flows that differ by whole units "
                          "at large magnitudes (s->a 3000000000.5, a->t 3000000002.5 is accepted and the greedy route reports solved with 2 units unexplained); the tolerance "
                          "has to be the rounding error of the two sums (math.ulp of the values)", f.loc(onode))
        elif kind == "exact":
            if isinstance(onode.ops[0], ast.NotEq):
                rep.violation(RID, key + ":decision", f"non-integral sums are compared exactly as well (`{norm(onode)}`): float flows that conserve flow as decimal numbers "
                              "(0.3 -> 0.1 + 0.2 = 0.30000000000000004) are rejected as non-conserving although they are inside the documented domain", f.loc(onode))
            else:
                rep.violation(RID, key + ":decision", f"`{norm(onode)}` does not answer False on every difference of inflow and outflow", f.loc(onode))
        else:
            other_cmp = [c_ for b_ in gnode.orelse for c_ in ast.walk(b_) if isinstance(c_, ast.Compare)]
            if other_cmp:
                rep.violation(RID, key + ":decision", f"`{norm(other_cmp[0])}` does not answer False on every difference of inflow and outflow", f.loc(other_cmp[0]))
            else:
                raise AnalysisError("check_flow_conservation: the non-integral branch of the comparison was not recognised")
    elif not guarded and len(plain) == 1 and not unguarded:
        d = plain[0]
        dh = holder_if(d)
        if isinstance(d.ops[0], ast.NotEq) and dh is not None and returns_false(dh):
            rep.violation(RID, key + ":decision", f"`{norm(d)}` compares two accumulated sums of flow values exactly: float flows that conserve flow as decimal numbers "
                          "(0.3 -> 0.1 + 0.2 = 0.30000000000000004) are rejected as non-conserving although they are inside the documented domain", f.loc(d))
        else:
            rep.violation(RID, key + ":decision", f"`{norm(d)}` does not answer False on every difference of inflow and outflow", f.loc(d))
    elif not guarded and not plain and len(unguarded) == 1:
        cl = unguarded[0][1]
        rep.violation(RID, key + ":decision", f"`{norm(cl)[:80]}` is the only comparison of the two sums: a relative tolerance accepts integer flows that differ by one part in 1e9 "
                      "(2000000001 vs 1500000000 + 500000000) as conserving, and the greedy decomposition then drops the leftover unit", f.loc(cl))
    else:
        raise AnalysisError("check_flow_conservation: comparison of the two sums not recognised (exact for integral sums, rounding-error tolerance otherwise - review)")
    # 4. True only after the whole loop
    trues = [r for r in ast.walk(f.node) if isinstance(r, ast.Return) and isinstance(r.value, ast.Constant) and r.value.value is True]
    last = f.node.body[-1]
    if len(trues) == 1 and trues[0] is last:
        rep.ok(RID, key + ":accept", "True is returned only after every node was examined", f.loc(last))
    else:
        rep.violation(RID, key + ":accept", "True can be returned before every node was examined", f.loc(trues[0] if trues else f.node))


def _normalised_node_loop(lp: ast.For) -> ast.For:
    """The loop over the nodes in the shape the rule reads (a copy; line numbers are kept):
    `if c: A; continue` followed by R  ->  `if c: A else: R`  (a pure `if c: continue` skip is left alone), and locals that are assigned once
    in the loop and only name a value (no accumulators, no loop targets) are written out in the tests that use them."""
    import copy
    from rules.common import substitute_locals
    lp = copy.deepcopy(lp)

    def fold(block):
        out = []
        for i, st in enumerate(block):
            if isinstance(st, ast.If) and not st.orelse and len(st.body) > 1 and isinstance(st.body[-1], ast.Continue) and \
                    not any(isinstance(n, (ast.Continue, ast.Break)) for b_ in st.body[:-1] for n in ast.walk(b_)):
                new_if = ast.copy_location(ast.If(test=st.test, body=fold(st.body[:-1]), orelse=fold(block[i + 1:])), st)
                out.append(new_if)
                return out
            out.append(st)
        return out
    lp.body = fold(lp.body)
    counts: Dict[str, int] = {}
    vals: Dict[str, ast.AST] = {}
    banned = set()
    # (locals of the inner summation loops are left to the rule that reads those loops)
    in_inner = {id(x) for inner_ in ast.walk(lp) if isinstance(inner_, (ast.For, ast.While)) and inner_ is not lp for x in ast.walk(inner_)}
    for n in ast.walk(lp):
        if isinstance(n, ast.Assign) and len(n.targets) == 1 and isinstance(n.targets[0], ast.Name) and id(n) in in_inner:
            banned.add(n.targets[0].id)
        elif isinstance(n, ast.Assign) and len(n.targets) == 1 and isinstance(n.targets[0], ast.Name):
            counts[n.targets[0].id] = counts.get(n.targets[0].id, 0) + 1
            vals[n.targets[0].id] = n.value
        elif isinstance(n, ast.AugAssign) and isinstance(n.target, ast.Name):
            banned.add(n.target.id)
        elif isinstance(n, (ast.For, ast.comprehension)):
            banned |= {x.id for x in ast.walk(n.target) if isinstance(x, ast.Name)}
        elif isinstance(n, ast.Assign):
            banned |= {x.id for t in n.targets for x in ast.walk(t) if isinstance(x, ast.Name)}
    defs = {k: v for k, v in vals.items() if counts[k] == 1 and k not in banned}
    if defs:
        for n in ast.walk(lp):
            if isinstance(n, ast.If):
                for _ in range(4):
                    n.test = substitute_locals(n.test, defs)

        def drop(block):
            return [st for st in block if not (isinstance(st, ast.Assign) and len(st.targets) == 1 and isinstance(st.targets[0], ast.Name) and st.targets[0].id in defs)]
        for n in ast.walk(lp):
            for fld in ("body", "orelse"):
                if isinstance(getattr(n, fld, None), list) and isinstance(n, (ast.If, ast.For)):
                    setattr(n, fld, drop(getattr(n, fld)) or [ast.copy_location(ast.Pass(), n)])
    return lp


def enclosing_tests_in(root, node):
    from rules.semantic import enclosing_tests
    return enclosing_tests(root, node)


def nan_proof_ranges(prog, rep, RID):
    """A range check written as `x <= 0 or x > 1` is False for NaN (every comparison with NaN is False), so NaN passes as if it
    were in range; `not (0 < x <= 1)` rejects it.  Evaluated abstractly: with every ordering comparison False the raising
    condition must be True."""
    import ast
    from sa.pm import norm, dotted, AnalysisError
    n = 0
    WHAT = re.compile(r"coverage|percentile|^value$|epsilon|^tolerance$")

    def nan_eval(t):
        if isinstance(t, ast.BoolOp):
            vals = [nan_eval(v) for v in t.values]
            if any(v is None for v in vals):
                return None
            return all(vals) if isinstance(t.op, ast.And) else any(vals)
        if isinstance(t, ast.UnaryOp) and isinstance(t.op, ast.Not):
            v = nan_eval(t.operand)
            return None if v is None else (not v)
        if isinstance(t, ast.Compare) and all(isinstance(o, (ast.Lt, ast.LtE, ast.Gt, ast.GtE)) for o in t.ops):
            return False
        return None
    for cls in prog.all_classes():
        init = cls.methods.get("__init__")
        if init is None:
            continue
        for st in ast.walk(init.node):
            if not (isinstance(st, ast.If) and any(isinstance(b, ast.Raise) for b in st.body)):
                continue
            names = {norm(x) for c in ast.walk(st.test) if isinstance(c, ast.Compare) for x in [c.left] + list(c.comparators)
                     if isinstance(x, (ast.Name, ast.Attribute))}
            if not any(WHAT.search(nm.split(".")[-1]) for nm in names):
                continue
            consts = [x.value for c in ast.walk(st.test) if isinstance(c, ast.Compare) for x in [c.left] + list(c.comparators)
                      if isinstance(x, ast.Constant) and isinstance(x.value, (int, float))]
            if not consts:
                continue
            v = nan_eval(st.test)
            if v is None:
                continue        # not a pure range check (None tests, membership, ...): other rules
            # a later test on a value whose NaN-proof range check precedes it in the constructor never sees NaN
            if not v and any(isinstance(o, ast.If) and any(isinstance(b, ast.Raise) for b in o.body) and o.lineno < st.lineno and nan_eval(o.test) is True and
                             names & {norm(x) for c in ast.walk(o.test) if isinstance(c, ast.Compare) for x in [c.left] + list(c.comparators)
                                      if isinstance(x, (ast.Name, ast.Attribute))} for o in ast.walk(init.node)):
                continue
            n += 1
            key = f"{cls.name}.__init__:nan-proof[{norm(st.test)[:50]}]"
            if v:
                rep.ok(RID, key, "the range check raises also for NaN", init.loc(st))
            else:
                rep.violation(RID, key, f"`{norm(st.test)}` is False for NaN (every comparison with NaN is False): a NaN value passes the range check and enters the "
                              "model (threshold / objective coefficient nan)", init.loc(st))
    if n < 6:
        raise AnalysisError(f"range checks of coverage / scaling / percentile parameters: only {n} found")
    return n


def lowerbound_helpers_on_unvalidated_input(prog, rep, RID):
    """MinFlowDecomp.get_lowerbound_k() runs before the first k-model validates the input, so its helpers see invalid inputs:
    (a) the min-generating-set helper leaves (returns None) before MinGenSet is built when a flow value is not >= 0 (written so that NaN fails too);
    (b) the window scan selects the constraints of a window by shape-guarded edge membership: `isinstance(e, tuple)` precedes the membership test, which
        is against the edges of the window (a list-shaped edge is unhashable: TypeError instead of the ValueError of the k-model)."""
    import ast
    from sa.pm import norm, dotted, calls_in, AnalysisError
    f = prog.own_method("MinFlowDecomp", "_get_lowerbound_with_min_gen_set")
    calls = [c for c in calls_in(f.node) if (dotted(c.func) or "").endswith("MinGenSet")]
    if not calls:
        raise AnalysisError("MinFlowDecomp._get_lowerbound_with_min_gen_set: MinGenSet call not found")

    def nan_true(t):
        """value of t when every ordering comparison is False (NaN operand)"""
        if isinstance(t, ast.BoolOp):
            vals = [nan_true(v) for v in t.values]
            if isinstance(t.op, ast.Or):
                return True if any(v is True for v in vals) else (None if any(v is None for v in vals) else False)
            return False if any(v is False for v in vals) else (None if any(v is None for v in vals) else True)
        if isinstance(t, ast.UnaryOp) and isinstance(t.op, ast.Not):
            v = nan_true(t.operand)
            return None if v is None else (not v)
        if isinstance(t, ast.Compare) and all(isinstance(o, (ast.Lt, ast.LtE, ast.Gt, ast.GtE)) for o in t.ops):
            return False
        if isinstance(t, ast.Call) and (dotted(t.func) or "") in ("math.isnan", "isnan", "np.isnan", "numpy.isnan"):
            return True
        if isinstance(t, ast.Call) and (dotted(t.func) or "") in ("math.isfinite", "isfinite", "np.isfinite", "numpy.isfinite"):
            return False
        return None
    import math as _math

    def concrete(t, x):
        """value of the guard when the flow read has the value x (None: cannot evaluate)"""
        if isinstance(t, ast.Constant):
            return t.value
        if isinstance(t, ast.Subscript) and "flow_attr" in norm(t.slice):
            return x
        if isinstance(t, ast.Call) and dotted(t.func) == "float" and len(t.args) == 1 and isinstance(t.args[0], ast.Constant) and isinstance(t.args[0].value, str):
            try:
                return float(t.args[0].value)
            except ValueError:
                return None
        if isinstance(t, ast.Attribute) and norm(t) in ("math.inf", "np.inf", "numpy.inf"):
            return _math.inf
        if isinstance(t, ast.Call) and len(t.args) == 1 and (dotted(t.func) or "") in ("math.isnan", "math.isfinite", "math.isinf", "np.isnan", "np.isfinite", "np.isinf", "float", "abs"):
            v = concrete(t.args[0], x)
            if v is None:
                return None
            fn = (dotted(t.func) or "").split(".")[-1]
            return {"isnan": _math.isnan, "isfinite": _math.isfinite, "isinf": _math.isinf, "float": float, "abs": abs}[fn](v)
        if isinstance(t, ast.UnaryOp) and isinstance(t.op, ast.Not):
            v = concrete(t.operand, x)
            return None if v is None else (not v)
        if isinstance(t, ast.UnaryOp) and isinstance(t.op, ast.USub):
            v = concrete(t.operand, x)
            return None if v is None else -v
        if isinstance(t, ast.BoolOp):
            vals = [concrete(v, x) for v in t.values]
            if any(v is None for v in vals):
                return None
            return all(vals) if isinstance(t.op, ast.And) else any(vals)
        if isinstance(t, ast.Compare):
            left = concrete(t.left, x)
            for op, right in zip(t.ops, t.comparators):
                r = concrete(right, x)
                if left is None or r is None:
                    return None
                tab = {ast.Lt: left < r, ast.LtE: left <= r, ast.Gt: left > r, ast.GtE: left >= r, ast.Eq: left == r, ast.NotEq: left != r}
                if type(op) not in tab:
                    return None
                if not tab[type(op)]:
                    return False
                left = r
            return True
        return None
    for cname in ("MinFlowDecomp", "MinFlowDecompCycles"):
        f = prog.own_method(cname, "_get_lowerbound_with_min_gen_set")
        calls = [c for c in calls_in(f.node) if (dotted(c.func) or "").endswith("MinGenSet")]
        if not calls:
            raise AnalysisError(f"{cname}._get_lowerbound_with_min_gen_set: MinGenSet call not found")
        key = f"{cname}._get_lowerbound_with_min_gen_set:invalid-flows-give-no-bound"
        guards = []
        from rules.common import split_or_return_guards, statements_before
        for st in split_or_return_guards(ast.Module(body=statements_before(f.node.body, calls[0]), type_ignores=[])).body:
            if isinstance(st, ast.If) and not st.orelse and st.body and isinstance(st.body[-1], ast.Return) and isinstance(st.test, ast.Call) and \
                    dotted(st.test.func) == "any" and st.test.args and isinstance(st.test.args[0], (ast.GeneratorExp, ast.ListComp)):
                g = st.test.args[0]
                reads_flow = any(isinstance(x_, ast.Subscript) and "flow_attr" in norm(x_.slice) for x_ in ast.walk(g.elt))
                if reads_flow and isinstance(g.elt, (ast.Compare, ast.BoolOp, ast.UnaryOp, ast.Call)) and not g.generators[0].ifs and "self.G.edges" in norm(g.generators[0].iter) and \
                        not (isinstance(g.elt, ast.Compare) and isinstance(g.elt.ops[0], (ast.In, ast.NotIn))):
                    guards.append(st)
        # the guards together: each invalid value makes one of them leave; valid values none
        vals = {"nan": _math.nan, "inf": _math.inf, "-1": -1.0, "-inf": -_math.inf}
        res = {}
        unreadable = False
        for nm, xv in vals.items():
            outs = [concrete(st.test.args[0].elt, xv) for st in guards]
            unreadable = unreadable or any(o is None for o in outs)
            res[nm] = any(o is True for o in outs)
        valid_hit = [st for st in guards for xv in (0, 5, 0.25) if concrete(st.test.args[0].elt, xv) is True]
        if unreadable:
            raise AnalysisError(f"{cname}._get_lowerbound_with_min_gen_set: a guard on the flow values could not be evaluated")
        if cname == "MinFlowDecompCycles":
            # (the constructor of the cyclic class validates negative values itself: only non-finite ones can arrive here)
            res["-1"] = True
        missed = [nm for nm, hit in res.items() if not hit]
        if valid_hit:
            # `not attr in data` style guards are told apart above; a guard that leaves for valid values switches the bound off - not a C19 matter
            pass
        if not guards or missed == list(vals):
            rep.violation(RID, key, "MinGenSet is built from the flow values before anything validated them (get_lowerbound_k precedes the first k-model): with "
                          "use_min_gen_set_lowerbound=True a negative flow value reaches MinGenSet as a negative total and solve() raises a bare "
                          "Exception('Failed to add columns to the model.') instead of the documented ValueError; no guard returns None for values that are not >= 0",
                          f.loc(calls[0]))
        elif missed:
            rep.violation(RID, key, f"the guard `{norm(guards[0].test)[:90]}` does not leave for a flow value {' / '.join(missed)} (every comparison with NaN is False; inf passes `>= 0`): "
                          "such values still reach MinGenSet and solve() raises a bare solver Exception instead of the ValueError of the k-model", f.loc(guards[0]))
        else:
            rep.ok(RID, key, f"`{norm(guards[0].test)[:90]}` -> no bound", f.loc(guards[0]))
    # (c) the count of distinct weights in get_lowerbound_k converts with int(): only finite values may get there
    f = prog.own_method("MinFlowDecomp", "get_lowerbound_k")
    key = "MinFlowDecomp.get_lowerbound_k:int-of-finite-values"
    # (accumulator loops are read as the comprehension they compute; locals naming the value are written out)
    from sa.mir import comprehensionise
    from rules.common import all_local_defs, substitute_locals
    folded = ast.Module(body=comprehensionise(f.node.body), type_ignores=[])
    ints = [c for c in ast.walk(folded) if isinstance(c, ast.Call) and dotted(c.func) == "int" and len(c.args) == 1 and
            any(isinstance(x_, ast.Subscript) and "flow_attr" in norm(x_.slice) for x_ in ast.walk(c.args[0]))]
    for c in ints:
        comp = [n for n in ast.walk(folded) if isinstance(n, (ast.SetComp, ast.ListComp, ast.GeneratorExp)) and any(x_ is c for x_ in ast.walk(n.elt))]
        if not comp:
            raise AnalysisError("MinFlowDecomp.get_lowerbound_k: int(<flow value>) outside a comprehension / accumulator loop: not recognised")
        conds = [t for n in comp for g_ in n.generators for t in g_.ifs]
        flat = []
        for t in conds:
            flat += list(t.values) if isinstance(t, ast.BoolOp) and isinstance(t.op, ast.And) else [t]
        on_value = [t for t in flat if any(isinstance(x_, ast.Subscript) and "flow_attr" in norm(x_.slice) for x_ in ast.walk(t)) and
                    not (isinstance(t, ast.Compare) and isinstance(t.ops[0], (ast.In, ast.NotIn)))]
        bad = [nm for nm, xv in (("inf", _math.inf), ("-inf", -_math.inf)) if not any(concrete(t, xv) is False for t in on_value)]
        if any(concrete(t, xv) is None for t in on_value for xv in (_math.inf,)):
            raise AnalysisError("MinFlowDecomp.get_lowerbound_k: filter of the weight count could not be evaluated")
        if bad:
            rep.violation(RID, key, f"`{norm(c)[:70]}` is evaluated for every non-ignored flow value before any k-model validated them: int({bad[0]}) raises OverflowError from "
                          "MinFlowDecomp.solve() instead of the documented ValueError (kFlowDecomp on the same graph raises ValueError)", f.loc(c))
        else:
            rep.ok(RID, key, "only finite values are converted with int()", f.loc(c))
    # (b)
    g = prog.own_method("MinFlowDecomp", "_get_lowerbound_with_subgraph_scanning")
    key = "MinFlowDecomp._get_lowerbound_with_subgraph_scanning:window-constraints"
    sel = [st for st in ast.walk(g.node) if isinstance(st, ast.Assign) and len(st.targets) == 1 and isinstance(st.targets[0], ast.Name) and
           isinstance(st.value, ast.ListComp) and len(st.value.generators) == 1 and norm(st.value.generators[0].iter) == "self.subpath_constraints"]
    if not sel:
        passed = [k for c in calls_in(g.node) if (dotted(c.func) or "") == "MinFlowDecomp" for k in c.keywords if k.arg == "subpath_constraints"]
        if passed and norm(passed[0].value) not in ("[]", "None"):
            raise AnalysisError("MinFlowDecomp._get_lowerbound_with_subgraph_scanning: selection of the window constraints not recognised")
        rep.ok(RID, key, "no constraint is handed to the window models", g.loc())
        return
    comp = sel[-1].value
    cvar = norm(comp.generators[0].target)
    conds = comp.generators[0].ifs
    inner = [c for t in conds for c in ast.walk(t) if isinstance(c, ast.Call) and dotted(c.func) == "all" and c.args and isinstance(c.args[0], (ast.GeneratorExp, ast.ListComp)) and
             norm(c.args[0].generators[0].iter) == cvar]
    if len(inner) != 1:
        raise AnalysisError("MinFlowDecomp._get_lowerbound_with_subgraph_scanning: the filter of the window constraints is not `all(... for e in constraint)`")
    ev = norm(inner[0].args[0].generators[0].target)
    elt = inner[0].args[0].elt
    parts = elt.values if isinstance(elt, ast.BoolOp) and isinstance(elt.op, ast.And) else [elt]
    texts = [norm(p_) for p_ in parts]
    member = [i for i, t in enumerate(texts) if re.search(r"\bin \w+\.(nodes|edges)\b|\.has_edge\(|\.has_node\(", t)]
    shape = [i for i, t in enumerate(texts) if t == f"isinstance({ev}, tuple)"]
    if not member:
        raise AnalysisError("MinFlowDecomp._get_lowerbound_with_subgraph_scanning: membership test of the window filter not recognised")
    mt = texts[member[0]]
    if re.search(r"\bin \w+\.nodes\b|\.has_node\(", mt) and ev in mt:
        rep.violation(RID, key, f"`{mt}` tests the elements of a constraint - edges - for membership among the *nodes* of the window: for a malformed constraint with "
                      "list-shaped edges ([['a', 'b']]) the test raises TypeError('unhashable type') from solve() before the k-model can reject the input with ValueError "
                      "(and no well-formed constraint is ever selected)", g.loc(sel[-1]), self_contained=True)
    elif not shape or shape[0] > member[0]:
        rep.violation(RID, key, f"`{mt}` is evaluated on elements that were not checked to be tuples: a list-shaped edge is unhashable and raises TypeError from solve() "
                      "instead of the ValueError of the k-model", g.loc(sel[-1]), self_contained=True)
    else:
        rep.ok(RID, key, f"`isinstance({ev}, tuple)` precedes `{mt}`", g.loc(sel[-1]))


def greedy_padding_guard(prog, rep, RID):
    """The greedy decomposition of an all-zero (valid, non-negative) flow has no path: `paths[0]` used for padding must be
    preceded by a test that leaves the greedy route when there is no path."""
    import ast
    from sa.pm import norm, walk_no_nested, AnalysisError
    f = prog.own_method("kFlowDecomp", "_get_solution_with_greedy")
    subs = [n for n in ast.walk(f.node) if isinstance(n, ast.Subscript) and isinstance(n.value, ast.Name) and isinstance(n.slice, ast.Constant) and n.slice.value == 0]
    key = "kFlowDecomp._get_solution_with_greedy:padding-needs-a-path"
    if not subs:
        rep.ok(RID, key, "no first-element access on the greedy paths", f.loc())
        return
    nm = subs[0].value.id
    guard = None
    for st in walk_no_nested(f.node):
        if isinstance(st, ast.If) and st.lineno < subs[0].lineno and any(isinstance(b, ast.Return) for b in st.body):
            t = norm(st.test).replace(" ", "")
            if t in (f"len({nm})==0", f"not{nm}", f"0==len({nm})", f"len({nm})<1"):
                guard = st
    if guard is not None:
        rep.ok(RID, key, f"`{norm(guard.test)}` leaves the greedy route before `{nm}[0]` is read", f.loc(guard))
    else:
        rep.violation(RID, key, f"`{nm}[0]` is read to pad the decomposition up to k although the greedy decomposition of an all-zero flow is empty: "
                      "kFlowDecomp(G, k=1) and MinFlowDecomp raise IndexError for s->a 0, a->t 0, which the MILP route solves with a path of weight 0", f.loc(subs[0]))


def node_mode_constraint_shapes(prog, rep, RID):
    """In node-weighted mode the constraints are translated by NodeExpandedDiGraph before any model class validates them: the
    translator itself has to reject an empty constraint and constraints whose elements are not all nodes or all 2-tuples."""
    import ast
    from sa.pm import norm, AnalysisError
    f = prog.own_method("NodeExpandedDiGraph", "get_expanded_subpath_constraints")
    first = [n for n in ast.walk(f.node) if isinstance(n, ast.Subscript) and norm(n).endswith("[0][0]")]
    key = "NodeExpandedDiGraph.get_expanded_subpath_constraints"
    if not first:
        raise AnalysisError("get_expanded_subpath_constraints: the dispatch on the first element was not found")
    line = min(n.lineno for n in first)
    raises = [st for st in ast.walk(f.node) if isinstance(st, ast.If) and any(isinstance(b, ast.Raise) for b in st.body) and st.lineno < line]
    empties = [st for st in raises if re.search(r"len\(\w+\) == 0 for|not \w+ for|len\(\w+\) < 1 for", norm(st.test))]
    if empties:
        rep.ok(RID, key + ":empty", "an empty constraint is rejected before the first element is read", f.loc(empties[0]))
    else:
        rep.violation(RID, key + ":empty", "`subpath_constraints[0][0]` is read without a test that every constraint is non-empty: [[]] raises IndexError instead "
                      "of ValueError", f.loc(first[0]))
    # all elements typed
    whole = [st for st in ast.walk(f.node) if isinstance(st, (ast.Assign, ast.If)) and st.lineno < line and
             re.search(r"isinstance\(\w+, (str|tuple)\).* for \w+ in \w+ for \w+ in \w+", norm(st))]
    if len(whole) >= 2 or any("str" in norm(w) and "tuple" in norm(w) for w in whole):
        rep.ok(RID, key + ":all-elements", "every element of every constraint is type-checked (all nodes or all 2-tuples) before the translation", f.loc(whole[0]))
    else:
        rep.violation(RID, key + ":all-elements", "only the first element of the first constraint decides between the node and the edge translation, and the other elements "
                      "are never type-checked: [[('s','a')], ['ab']] is translated as the edge (a, b), the model is built and reports solved", f.loc(first[0]))


def synthetic_endpoint_queries(prog, rep, RID):
    """While the source-sink graph is being built the synthetic source (sink) exists only if some node was wired to it.  An
    out_edges / in_edges / successors / predecessors / degree query with a string that is not a node makes networkx iterate the
    string - the characters of 'source_<id>' - so graphs with one-character node names get bogus source edges and slip through
    the 'at least one source' ValueError."""
    import ast
    from sa.pm import dotted, norm, calls_in, AnalysisError
    from rules.semantic import enclosing_tests
    f = prog.own_method("AbstractSourceSinkGraph", "_augment_with_source_sink")
    n = 0
    from rules.common import local_single_defs
    alias = {k: norm(v) for k, v in local_single_defs(f.node).items() if norm(v) in ("self.source", "self.sink")}
    for c in calls_in(f.node):
        d = dotted(c.func) or ""
        if d in ("self.out_edges", "self.in_edges", "self.edges", "self.successors", "self.predecessors", "self.out_degree", "self.in_degree") and \
                c.args and (norm(c.args[0]) in ("self.source", "self.sink") or norm(c.args[0]) in alias):
            n += 1
            x = norm(c.args[0])
            key = f"AbstractSourceSinkGraph._augment_with_source_sink:{d[5:]}({x})"
            tests = [(norm(t), pol) for t, pol in enclosing_tests(f.node, c)]
            # conditional expressions are not statements: look for an enclosing IfExp as well
            guarded = any(pol and t in (f"{x} in self", f"self.has_node({x})", f"{x} in self.nodes", f"{x} in self.nodes()") for t, pol in tests)
            for ie in [m for m in ast.walk(f.node) if isinstance(m, ast.IfExp)]:
                if any(y is c for y in ast.walk(ie.body)) and norm(ie.test) in (f"{x} in self", f"self.has_node({x})", f"{x} in self.nodes", f"{x} in self.nodes()"):
                    guarded = True
            added = any((dotted(k.func) or "") == "self.add_node" and k.args and norm(k.args[0]) == x and not enclosing_tests(f.node, k)
                        and k.lineno < c.lineno for k in calls_in(f.node))
            if guarded or added:
                rep.ok(RID, key, f"queried only when {x} is a node of the graph", f.loc(c))
            else:
                rep.violation(RID, key, f"`{norm(c)}` is evaluated although {x} is a node only if some start (end) was wired to it: for a graph without source "
                              "(sink) networkx iterates the characters of the name, a cycle over nodes 's', 'o', 'u' gets bogus source edges, passes the "
                              "'at least one source' check and fails later with OverflowError instead of ValueError", f.loc(c))
    if n == 0:
        raise AnalysisError("_augment_with_source_sink: the source / sink edge queries were not found")
    return n


def check(prog: Program, rep):
    rep.rule("C19.R1", "validation sites: presence, context and dominance (dataflow)", floor=120)
    val.check_sites(prog, rep, "C19.R1", skip_funcs=lambda k: k.endswith(":read_graph"))
    rep.rule("C19.R1d", "delegated validation is always invoked (must-call)", floor=60)
    val.check_delegations(prog, rep, "C19.R1d")
    rep.rule("C19.R1m", "validation matrix: which class establishes which kind of check", floor=100)
    matrix_rule(prog, rep, "C19.R1m")
    rep.rule("C19.R1f", "wrappers forward constructor arguments to the k-model", floor=20)
    forwarding_rule(prog, rep, "C19.R1f")
    rep.rule("C19.R2", "exception type of validation raises; no swallowing handler", floor=100)
    exception_type_rule(prog, rep, "C19.R2")
    rep.rule("C19.R4", "the flow-conservation validator examines every inner node with complete in/out sums", floor=4)
    conservation_validator(prog, rep, "C19.R4")
    unbound_after_loop_notes(prog, rep)
    rep.rule("C19.R5", "the 'no source / no sink' validation reads real edges: construction-time edge queries keyed by the synthetic source / sink are "
             "guarded by node membership (networkx takes a non-node string for a container of nodes)", floor=2)
    synthetic_endpoint_queries(prog, rep, "C19.R5")
    rep.rule("C19.R6", "range checks reject NaN; the greedy route is left for an empty decomposition; node-mode constraints are shape-checked by the translator", floor=9)
    nan_proof_ranges(prog, rep, "C19.R6")
    greedy_padding_guard(prog, rep, "C19.R6")
    node_mode_constraint_shapes(prog, rep, "C19.R6")
    lowerbound_helpers_on_unvalidated_input(prog, rep, "C19.R6")
    from rules.values import k_as_python_int_in_rows
    k_as_python_int_in_rows(prog, rep, "C19.R6", ["kFlowDecomp", "kLeastAbsErrors", "kMinPathError"])
    from rules.plumb import options_none_safe
    options_none_safe(prog, rep, "C19.R6")
    from rules.plumb import default_k_handled, additional_nodes_typed
    default_k_handled(prog, rep, "C19.R6")
    additional_nodes_typed(prog, rep, "C19.R6")
    from rules.values import coefficients_converted
    from rules.common import RuleProxy
    coefficients_converted(prog, RuleProxy(rep, "C19.R6"), "C07.R8", ["kLeastAbsErrors", "kLeastAbsErrorsCycles", "kMinPathError", "kMinPathErrorCycles", "AbstractPathModelDAG", "MinErrorFlow"])
    from rules.values import data_rhs_converted
    from rules.common import RuleProxy
    data_rhs_converted(prog, RuleProxy(rep, "C19.R6"), "C02.R11", {"kFlowDecomp": ["_encode_flow_decomposition", "_encode_flow_decomposition_with_given_weights"],
                                                                   "kFlowDecompCycles": ["_encode_flow_decomposition"], "MinGenSet": ["_create_solver", "_encode_partition_constraints"]})
    from rules.values import python_arithmetic
    if python_arithmetic(prog, rep, "C19.R4", [prog.function("flowpaths.utils.graphutils", "check_flow_conservation")],
                         "a non-conserving flow (200 + 100 into a node, 44 out of it) passes the conservation check and is decomposed") < 2:
        raise AnalysisError("check_flow_conservation: the sums of in- and out-flow were not found")
    from rules.values import no_memoised_functions_of_caller_objects
    no_memoised_functions_of_caller_objects(prog, rep, "C19.R4", ["flowpaths.utils.graphutils"])
