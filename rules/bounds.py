"""Bound soundness: every a-priori bound a model places on a solver variable is justified by an argument, and the
premises of that argument are facts of the code.  A bound that is too small silently cuts off feasible (or optimal)
solutions; none of the tests notices, because they compare a model with itself.

cap_premises     the per-walk repetition cap of the cyclic models (C04.R5, C08.R8, C10.R8)
"""
from __future__ import annotations

import ast
from typing import Dict, List, Optional, Set, Tuple

from sa.pm import Program, FuncInfo, dotted, norm, calls_in, is_super_call, kwarg, walk_no_nested, AnalysisError
from sa import boolnf as B
from rules.common import local_single_defs, stores_to_self_attr


def _resolve(cls_init: FuncInfo, e: ast.AST, depth: int = 3) -> ast.AST:
    """Follow a local name or a self attribute stored exactly once in the constructor to the stored expression."""
    for _ in range(depth):
        if isinstance(e, ast.Name):
            d = local_single_defs(cls_init.node)
            if e.id in d:
                e = d[e.id]
                continue
        dn = dotted(e) if isinstance(e, ast.Attribute) else None
        if dn and dn.startswith("self.") and dn.count(".") == 1:
            st = [s for s in stores_to_self_attr(cls_init.node, dn[5:]) if isinstance(s, ast.Assign)]
            if len(st) == 1:
                e = st[0].value
                continue
        break
    return e


class _ExpandGet(ast.NodeTransformer):
    """D.get(k, d)  ->  (D[k] if k in D else d)"""

    def visit_Call(self, node):
        self.generic_visit(node)
        if isinstance(node.func, ast.Attribute) and node.func.attr == "get" and len(node.args) == 2 and not node.keywords:
            d, k, dflt = node.func.value, node.args[0], node.args[1]
            return ast.IfExp(test=ast.Compare(left=k, ops=[ast.In()], comparators=[d]),
                             body=ast.Subscript(value=d, slice=k, ctx=ast.Load()), orelse=dflt)
        return node


def expand_get(e: ast.AST) -> ast.AST:
    import copy
    out = _ExpandGet().visit(copy.deepcopy(e))
    ast.fix_missing_locations(out)
    return ast.parse(ast.unparse(out), mode="eval").body


def _flow_reads(e: ast.AST) -> List[ast.Subscript]:
    """Reads of an edge's own flow value: data[self.flow_attr] / G[u][v][flow_attr] / .edges[e][flow_attr]."""
    out = []
    for n in ast.walk(e):
        if isinstance(n, ast.Subscript) and "flow_attr" in norm(n.slice):
            out.append(n)
    return out


def _guards_of(root: ast.AST, target: ast.AST) -> List[Tuple[ast.AST, bool]]:
    """(test, polarity) of the conditional expressions and comprehension filters of `root` that dominate `target`."""
    out: List[Tuple[ast.AST, bool]] = []

    def go(n, acc):
        if n is target:
            out.extend(acc)
            return True
        if isinstance(n, ast.IfExp):
            return go(n.test, acc) or go(n.body, acc + [(n.test, True)]) or go(n.orelse, acc + [(n.test, False)])
        if isinstance(n, (ast.DictComp, ast.ListComp, ast.SetComp, ast.GeneratorExp)):
            filt = [(c, True) for g in n.generators for c in g.ifs]
            parts = ([n.key, n.value] if isinstance(n, ast.DictComp) else [n.elt])
            for p_ in parts:
                if go(p_, acc + filt):
                    return True
            for g in n.generators:
                if go(g.iter, acc):
                    return True
            return False
        for c in ast.iter_child_nodes(n):
            if go(c, acc):
                return True
        return False
    go(root, [])
    return out


def _excludes_ignored(guards: List[Tuple[ast.AST, bool]]) -> bool:
    """Do the guards imply `<edge> not in <...edges_to_ignore>`?"""
    f = B.mk_and([B.parse_pol(t, pol) for t, pol in guards]) if guards else None
    if f is None:
        return False
    for a in B.atoms_of(f):
        if "edges_to_ignore" in a and " in " in a:
            if B.implies(f, B.mk_not(B.atom(a))):
                return True
    return False


def _weights_admit_continuous(prog: Program, cname: str) -> Optional[Tuple[FuncInfo, ast.Call]]:
    """The add_variables call creating the walk weights, if its var_type can be 'continuous' (None if always integer)."""
    cls = prog.cls(cname)
    for m in cls.methods.values():
        for c in calls_in(m.node):
            if isinstance(c.func, ast.Attribute) and c.func.attr == "add_variables":
                pref = kwarg(c, "name_prefix")
                if pref is not None and isinstance(pref, ast.Constant) and pref.value == "weights":
                    vt = kwarg(c, "var_type")
                    if vt is None:
                        raise AnalysisError(f"{cname}.{m.name}: weights created without var_type")
                    if isinstance(vt, ast.Name):
                        vt = local_single_defs(m.node).get(vt.id, vt)
                    txt = norm(vt)
                    if "'continuous'" in txt or '"continuous"' in txt:
                        return m, c
                    if txt in ("'integer'", '"integer"'):
                        return None
                    raise AnalysisError(f"{cname}.{m.name}: cannot read the var_type of the weights: {txt}")
    raise AnalysisError(f"{cname}: the add_variables call of the walk weights (name_prefix='weights') was not found")


def _exact_flow_row(prog: Program, cname: str) -> bool:
    """Does the class state sum_i pi[(u,v,i)] == f(u,v) for its non-ignored edges (an exact decomposition)?"""
    cls = prog.cls(cname)
    for m in cls.methods.values():
        for c in calls_in(m.node):
            if isinstance(c.func, ast.Attribute) and c.func.attr == "add_constraint" and c.args:
                e = c.args[0]
                if isinstance(e, ast.Compare) and len(e.ops) == 1 and isinstance(e.ops[0], ast.Eq) and "pi_vars" in norm(e) and \
                        ("f_u_v" in norm(e) or "flow_attr" in norm(e)):
                    return True
    return False


def cap_premises(prog: Program, rep, RID: str, cname: str, which=("P1", "P2", "P3", "P4")) -> int:
    """The repetition cap of a cyclic model is a number of traversals; when it is derived from flow values the argument is
    x * w <= f(e) and w >= 1, which needs (P1) the edge's flow row to be in the model (edge not ignored), (P2) an exact flow
    row (no slack / error term absorbing an overshoot) and (P3) weights that are at least 1 when positive (integer type)."""
    g = prog.own_method(cname, "__init__")
    sup = [c for c in calls_in(g.node) if is_super_call(c) and c.func.attr == "__init__"]
    if not sup:
        raise AnalysisError(f"{cname}.__init__: super().__init__ not found")
    v = kwarg(sup[0], "max_edge_repetition_dict") or kwarg(sup[0], "max_edge_repetition")
    if v is None:
        raise AnalysisError(f"{cname}.__init__: no repetition cap is passed to the walk base class")
    e = _resolve(g, v)
    if isinstance(e, ast.Name):
        # a dict that is computed once and then patched item by item (`d = f(...)`, `d[k] = ...`): its description is the computation
        name_defs = [st for st in ast.walk(g.node) if isinstance(st, ast.Assign) and any(isinstance(t, ast.Name) and t.id == e.id for t in st.targets)]
        if len(name_defs) == 1:
            e = name_defs[0].value
    # canonical form where it can be computed: accumulator loops become comprehensions, D.get(k, d) becomes `D[k] if k in D else d`, the
    # edge-data idioms (edges(data=True), G[u][v], G.edges[u, v]) become one
    try:
        from rules.common import canonical_value
        e2 = ast.parse(canonical_value(g.node, v), mode="eval").body
        # (a dict that is computed and then patched item by item has no closed canonical form: the canonical value is its bare name -
        # the resolved definition is the better description then)
        if not (isinstance(e2, ast.Name) and not isinstance(e, ast.Name)):
            e = e2
    except (SyntaxError, AnalysisError):
        pass
    e = expand_get(e)
    txt = norm(e)
    n = 0
    from_flow_values = bool(_flow_reads(e)) or "compute_edge_max_reachable_value" in txt or "w_max" in txt
    key = f"{cname}.__init__:cap"
    if not from_flow_values:
        rep.ok(RID, f"{key}-units", f"the cap `{txt[:80]}` is a count (no flow value enters it)", g.loc(sup[0]))
        return 1
    # P1: own-flow reads only for edges whose flow row is in the model
    for r in (_flow_reads(e) if "P1" in which else []):
        n += 1
        guards = _guards_of(e, r)
        if _excludes_ignored(guards):
            rep.ok(RID, f"{key}-ignored", f"the flow value `{norm(r)}` caps only edges that are not ignored", g.loc(sup[0]),
                   sample={"guards": [("" if p_ else "not ") + norm(t) for t, p_ in guards]})
        else:
            rep.violation(RID, f"{key}-ignored", f"the repetition cap reads the flow value `{norm(r)}` also for ignored edges "
                          f"(guards: {[('' if p_ else 'not ') + norm(t) for t, p_ in guards]}): the flow row of an ignored edge is not in "
                          "the model, so its value bounds nothing - a small value on an ignored cycle edge makes the model infeasible", g.loc(sup[0]))
    # P2: exact flow row
    n += 1
    if "P2" not in which:
        pass
    elif _exact_flow_row(prog, cname):
        rep.ok(RID, f"{key}-exact", "the model states sum_i pi == f for every non-ignored edge: x * w <= f(e) holds in every solution", g.loc(sup[0]))
    else:
        rep.violation(RID, f"{key}-exact", f"the repetition cap `{txt[:90]}` is derived from flow values, but {cname} has no exact flow row "
                      "(errors / slacks absorb an overshoot): x * w may exceed every flow value in an optimal solution, and covering all "
                      "edges of a cycle may need more traversals than the largest flow value: optimal solutions are cut off", g.loc(sup[0]))
    # P3: weights >= 1 when positive
    n += 1
    wc = _weights_admit_continuous(prog, cname) if "P3" in which else None
    if "P3" not in which:
        pass
    elif wc is None:
        rep.ok(RID, f"{key}-units", "walk weights are integer: a used walk has weight >= 1, so x <= x * w", g.loc(sup[0]))
    else:
        m, c = wc
        rep.violation(RID, f"{key}-units", f"the repetition cap `{txt[:90]}` is a flow value, which bounds the number of traversals only if "
                      f"every positive weight is >= 1; the walk weights can be continuous ({cname}.{m.name}: var_type={norm(kwarg(c, 'var_type'))}): "
                      "multiplying all flow values by a factor below 1 makes a solvable instance infeasible", m.loc(c))
    # P4: the product x * w is bounded like w only if the exact flow row bounds it
    if "P4" in which:
        n += 1
        cls = prog.cls(cname)
        w_ub = pi_ub = None
        where = None
        for m in cls.methods.values():
            for c in calls_in(m.node):
                if isinstance(c.func, ast.Attribute) and c.func.attr == "add_variables":
                    pref = kwarg(c, "name_prefix")
                    if isinstance(pref, ast.Constant) and pref.value == "weights":
                        w_ub = kwarg(c, "ub")
                    if isinstance(pref, ast.Constant) and pref.value == "pi":
                        pi_ub = kwarg(c, "ub")
                        where = (m, c)
        if w_ub is None or pi_ub is None:
            raise AnalysisError(f"{cname}: the add_variables calls of the weights and of the products (name_prefix 'weights' / 'pi') were not found")
        if _exact_flow_row(prog, cname):
            rep.ok(RID, f"{key}-product", f"pi = x * w is bounded by the flow value through the exact flow row; ub = {norm(pi_ub)}", where[0].loc(where[1]))
        elif norm(pi_ub) == norm(w_ub):
            rep.violation(RID, f"{key}-product", f"the products pi = x * w have the upper bound of a single weight (`{norm(pi_ub)}`) although x can be up to the "
                          f"repetition cap and no exact flow row bounds the product: solutions with x * w above that bound are cut off", where[0].loc(where[1]))
        else:
            rep.ok(RID, f"{key}-product", f"the product bound `{norm(pi_ub)}` differs from the weight bound `{norm(w_ub)}` (conformance rows decide its value)",
                   where[0].loc(where[1]))
    return n


def _covers_collection(e: ast.AST, coll: str) -> bool:
    """Is `e` a max(...) one of whose arguments ranges over the collection `coll` (max(coll), max([a] + coll), max(a, max(coll)), *coll)?"""
    if isinstance(e, ast.Call) and dotted(e.func) == "max":
        for a in e.args:
            t = a.value if isinstance(a, ast.Starred) else a
            if coll in norm(t) and not (isinstance(t, ast.Call) and dotted(t.func) in ("len", "min", "sum")):
                if isinstance(t, ast.Call) and dotted(t.func) == "max":
                    if _covers_collection(t, coll):
                        return True
                    continue
                return True
    return False


def product_covers_rhs(prog: Program, rep, RID: str, cname: str = "MinGenSet", mname: str = "_create_solver",
                       family_prefix: str = "pi", rhs_coll: str = "self.numbers") -> int:
    """sum_i pi[(i, j)] == numbers[j] with pi = x * g: as soon as multiplicities above 1 are allowed a single product can be as large as
    the number itself, which can exceed the total (9 = 3 * 3, total 3).  The bound of the product variables and of the integer
    product helper therefore has to cover max(numbers), not only the total."""
    f = prog.own_method(cname, mname) if mname in prog.cls(cname).methods else None
    n = 0
    sites = []
    # the whole class is scanned (nested functions included): a restructuring may move the declarations into helpers
    for m_ in prog.cls(cname).methods.values():
        mdefs = local_single_defs(m_.node)
        for fn_ in [x for x in ast.walk(m_.node) if isinstance(x, (ast.FunctionDef, ast.AsyncFunctionDef))]:
            for k_, v_ in local_single_defs(fn_).items():
                mdefs.setdefault(k_, v_)
        # a name bound several times to the same expression (a definition repeated in two inlined helpers) has that value
        multi: Dict[str, List[ast.AST]] = {}
        for st_ in ast.walk(m_.node):
            if isinstance(st_, ast.Assign) and len(st_.targets) == 1 and isinstance(st_.targets[0], ast.Name):
                multi.setdefault(st_.targets[0].id, []).append(st_.value)
        for k_, vs_ in multi.items():
            if k_ not in mdefs and len({norm(v_) for v_ in vs_}) == 1:
                mdefs[k_] = vs_[0]
        for c in [x for x in ast.walk(m_.node) if isinstance(x, ast.Call)]:
            if not isinstance(c.func, ast.Attribute):
                continue
            if c.func.attr == "add_variables":
                pref = kwarg(c, "name_prefix")
                if isinstance(pref, ast.Constant) and pref.value == family_prefix:
                    sites.append(("variables " + family_prefix, c, kwarg(c, "ub"), m_, mdefs))
            if c.func.attr == "add_integer_continuous_product_constraint":
                pv = kwarg(c, "product_var")
                starred = any(k.arg is None for k in c.keywords)
                if (pv is not None and f"{family_prefix}_vars" in norm(pv)) or (pv is None and starred):
                    sites.append(("integer product helper", c, kwarg(c, "ub"), m_, mdefs))
    if len(sites) < 2:
        raise AnalysisError(f"{cname}.{mname}: product variables `{family_prefix}` and their integer product helper not found")
    for what, c, ub, f, defs in sites:
        n += 1
        key = f"{cname}.{mname}:{what.replace(' ', '-')}:ub"
        if ub is None:
            raise AnalysisError(f"{cname}.{mname}: {what} without ub")
        e = ub
        for _ in range(3):
            if isinstance(e, ast.Name) and e.id in defs:
                e = defs[e.id]
        if _covers_collection(e, rhs_coll):
            rep.ok(RID, key, f"ub = `{norm(e)}` covers every number to be generated", f.loc(c))
        else:
            rep.violation(RID, key, f"the {what} is bounded by `{norm(e)}`, which does not cover max({rhs_coll}): with multiplicities a number (hence one "
                          "product x*g) can exceed the total - MinGenSet([9], total=3, max_multiplicity=9) is unsolved and small generating sets are "
                          "wrongly infeasible, so the min-gen-set lower bound of MinFlowDecompCycles exceeds the optimum", f.loc(c))
    return n


def given_weights_error_bound(prog: Program, rep, RID: str, cname: str = "kLeastAbsErrors",
                              mname: str = "_encode_leastabserrors_decomposition_with_given_weights") -> int:
    """With prescribed weights the load of an edge is sum_i w_i * x_i and can reach sum(w): the error variable, which must be able
    to take load - flow, needs an upper bound that covers the sum of the given weights (not only w_max = max(k * max flow, max w))."""
    f = prog.own_method(cname, mname)
    for c in calls_in(f.node):
        if isinstance(c.func, ast.Attribute) and c.func.attr == "add_variables":
            pref = kwarg(c, "name_prefix")
            if isinstance(pref, ast.Constant) and pref.value == "ee":
                ub = kwarg(c, "ub")
                key = f"{cname}.{mname}:error-bound"
                if ub is None:
                    raise AnalysisError(f"{cname}.{mname}: error variables without ub")
                if isinstance(ub, ast.Name):
                    ldefs_ = local_single_defs(f.node)
                    if ub.id in ldefs_:
                        ub = ldefs_[ub.id]
                txt = norm(ub)
                covers = any(isinstance(n, ast.Call) and dotted(n.func) == "sum" and n.args and "solution_weights_superset" in norm(n.args[0]) for n in ast.walk(ub))
                if covers and (not isinstance(ub, ast.Call) or dotted(ub.func) in ("max", "sum")):
                    rep.ok(RID, key, f"ub = `{txt}` covers the load of all given weights on one edge", f.loc(c))
                elif covers:
                    raise AnalysisError(f"{cname}.{mname}: cannot tell whether `{txt}` is at least the sum of the given weights")
                else:
                    rep.violation(RID, key, f"the error variables of the given-weights model are bounded by `{txt}`, which does not cover sum(solution_weights_superset): "
                                  "all given weights can go through one edge, and load - flow <= error then cuts off optimal solutions (s->a with flow 0 before two "
                                  "branches of flow 6, superset [10, 10]: objective 70 reported, optimum 68) or makes the model infeasible", f.loc(c))
                return 1
    raise AnalysisError(f"{cname}.{mname}: add_variables of the error variables (name_prefix 'ee') not found")
