"""C07 - k-Least-Absolute-Errors returns a true optimum with a consistent objective."""
from __future__ import annotations

import ast
import re

from sa.pm import Program, dotted, norm, walk_no_nested, calls_in, AnalysisError
from rules.formulation import conformance, method_effects
from rules import semantic, providers

EXPLANATION = (
    "Decides: (R1) both error rows 9aa/9ab (f - sum pi <= eps and sum pi - f <= eps; with sum_i w_i x for given weights) exist for every "
    "non-ignored edge with the frozen normal forms, eps is declared over exactly the non-ignored edges with lb 0, pi is linked to (x, w) "
    "exactly (flag consumers, helper kind and bounds); (R2) the objective is min sum over non-ignored edges of scale(e)*eps(e) with "
    "scale = error_scaling.get(e, 1); (R3) reader = writer: get_objective_value recomputes the objective with the same per-edge factors the "
    "encoder uses (is_valid_solution compares the two); (R4) the bound w_max is at least the largest non-ignored weight and weights have the "
    "requested numeric type; (R5) the constructor never writes to the caller's ignore list / options / "
    "(R7) for the cyclic model the walks handed out traverse every edge as often as the solver decided (linear-use rule of C14.R1).  "
    " (R8) cyclic model: the repetition cap and the product bound are checked against the premises that justify a flow-valued cap (exact flow row, weights >= 1) - all three fail for kLeastAbsErrorsCycles and are reported as known findings (modelling limitation); the error variables of the given-weights model are bounded by at least sum(given weights); a non-integral superset is rejected for integer weights; filters decide emptiness on the internal route (C01.R5). "
    "constraints or to their shared defaults, so the set of ignored (zero-scaled) edges is exactly what this call's arguments say.  NOT decided: optimality; sufficiency of w_max = k*max f as a bound for every optimum."
    ' (R8, round 3) data multiplying solver variables are float()-converted; error variables are integer (and errors rounded) only when the flow values are integral too; the error bound of the cyclic model covers k products; w_max is not truncated; validity check on Python numbers.'
    ' (R8, hunt 4) constraint edges are trusted under length coverage only with positive length; the superset sum of the error bound is taken on Python numbers.'
    ' (R8, hunt 5) the sums of edge lengths behind the length-coverage threshold, the position / path-length bounds and the greedy check are computed on Python numbers; given weights up to 1e-9 are replaced by 0 before they become matrix coefficients; the w_max provider accepts int(self.k).'
    ' (R8, seeds 5) every store of the given weights is the parameter, a value-preserving conversion or the constant-threshold normalisation - no other replacement.'
)
DECIDED = ["two-sided error rows and scaled objective present and complete", "reported objective recomputed with the same scaling as the model's objective",
           "product linking exact", "numeric type and weight bound provider"]
NOT_DECIDED = ["the returned solution is a global optimum", "w_max never cuts an optimum (numeric argument)"]

MODELS = ["kLeastAbsErrors", "kLeastAbsErrorsCycles"]


def reader_writer(prog: Program, rep, RID: str):
    for cname in MODELS:
        cls = prog.cls(cname)
        enc = prog.own_method(cname, "_encode_objective")
        objs = [e for e in method_effects(prog, cls, enc) if e["kind"] == "set_objective"]
        if len(objs) != 1:
            raise AnalysisError(f"{cname}._encode_objective: expected one set_objective")
        nf = objs[0]["nf"]
        writer_scaled = "self.edge_error_scaling.get(" in nf
        rd = prog.own_method(cname, "get_objective_value")
        rets = [r for r in walk_no_nested(rd.node) if isinstance(r, ast.Return) and r.value is not None]
        if not rets:
            raise AnalysisError(f"{cname}.get_objective_value: no return")
        rt = norm(rets[-1].value)
        reader_scaled = "self.edge_error_scaling.get(" in rt and ("*" in rt)
        key = f"{cname}.get_objective_value:reader=writer"
        if writer_scaled == reader_scaled:
            rep.ok(RID, key, f"objective {'scaled' if writer_scaled else 'unscaled'} by error_scaling in both the encoder and the recomputation", rd.loc(rets[-1]),
                   sample={"writer": nf[:160], "reader": rt[:120]})
        else:
            rep.violation(RID, key, f"the encoder {'scales' if writer_scaled else 'does not scale'} the per-edge errors by error_scaling but get_objective_value "
                          f"{'does' if reader_scaled else 'does not'} (`{rt[:80]}`): with a factor != 1 the reported objective differs from the optimum and "
                          "is_valid_solution() rejects the model's own optimal solution", rd.loc(rets[-1]))
        iv = prog.own_method(cname, "is_valid_solution")
        t = norm(iv.node)
        key2 = f"{cname}.is_valid_solution:objective-compared"
        if "self.get_objective_value()" in t and "self.solver.get_objective_value()" in t:
            rep.ok(RID, key2, "validity check compares the recomputed objective with the solver's", iv.loc())
        else:
            rep.violation(RID, key2, "is_valid_solution no longer compares the recomputed objective with the solver's objective", iv.loc())


def error_variables_rule(prog, rep, RID):
    """The error of an edge is |flow - load|: (a) it is an integer only if the weights *and* the flow values are, so the error variables
    are integer (and the published errors rounded) only under both conditions; (b) in the cyclic model the load is a sum of k products each
    bounded by w_max, so the error needs the bound k * w_max."""
    import ast
    from sa.pm import calls_in, kwarg, norm, AnalysisError
    for cname in ("kLeastAbsErrors", "kLeastAbsErrorsCycles"):
        cls = prog.cls(cname)
        n = 0
        for m in cls.methods.values():
            for c in calls_in(m.node):
                if isinstance(c.func, ast.Attribute) and c.func.attr == "add_variables" and isinstance(kwarg(c, "name_prefix"), ast.Constant) and kwarg(c, "name_prefix").value == "ee":
                    n += 1
                    vt = norm(kwarg(c, "var_type"))
                    key = f"{cname}.{m.name}:error-variables"
                    if "'integer'" in vt and "integral" not in vt and "is_integer" not in vt:
                        rep.violation(RID, key + ":type", f"the error variables are integer whenever weight_type is int (`{vt[:80]}`), although |flow - load| is not an integer for a "
                                      "non-integral flow value: the model minimises rounded-up errors and reports an objective that differs from the one recomputed from its own "
                                      "paths (flows 2.2, 2.2, 2.2, 3.0: weight 3 / objective 3 reported, recomputed 2.4; best integer weight 2 with 1.6)", m.loc(c))
                    else:
                        rep.ok(RID, key + ":type", f"integer only if the flow values are integral too (`{vt[:80]}`)", m.loc(c))
                    if cname.endswith("Cycles") and "given_weights" not in m.name:
                        ub = norm(kwarg(c, "ub"))
                        if ub == "self.w_max":
                            rep.violation(RID, key + ":ub", "the error variables of the cyclic model are bounded by w_max, the bound of one product x*w, although the load of an edge is "
                                          "the sum of k such products: the error of one edge can exceed w_max and the optimum is cut off (hub edge with flow 0 and five petals "
                                          "of flow 2, k=2: 8 reported, 6 reachable)", m.loc(c))
                        elif "self.k" in ub and "self.w_max" in ub:
                            rep.ok(RID, key + ":ub", f"ub = `{ub}` covers the sum of k products", m.loc(c))
                        else:
                            raise AnalysisError(f"{cname}.{m.name}: cannot classify the bound `{ub}` of the error variables")
        if n == 0:
            raise AnalysisError(f"{cname}: error variables (name_prefix 'ee') not found")


def check(prog: Program, rep):
    rep.rule("C07.R1", "least-absolute-errors families conform to the frozen formulation table", floor=20)
    conformance(prog, rep, "C07.R1", "C07")
    rep.rule("C07.R2", "product linking: flag consumers and helper preconditions", floor=6)
    semantic.flag_consumers(prog, rep, "C07.R2", MODELS)
    for c in MODELS:
        semantic.helper_preconditions(prog, rep, "C07.R2", c)
    from rules.common import helpers_exact
    helpers_exact(prog, rep, "C07.R2")
    rep.rule("C07.R3", "objective reader = writer", floor=4)
    reader_writer(prog, rep, "C07.R3")
    rep.rule("C07.R4", "weight bound provider and numeric type", floor=6)
    providers.wmax_provider(prog, rep, "C07.R4", MODELS)
    providers.numeric_type(prog, rep, "C07.R4", MODELS)
    rep.rule("C07.R5", "the ignore set and options derive only from this call's arguments (no write to caller objects or shared defaults)", floor=6)
    from rules.c18 import class_inputs_not_mutated
    class_inputs_not_mutated(prog, rep, "C07.R5", MODELS)
    rep.rule("C07.R6", "node-weighted input: expansion scheme, attribute handling (missing => ignored, present incl. 0 => weighted)", floor=12)
    from rules.common import node_mode_plumbing
    node_mode_plumbing(prog, rep, "C07.R6")
    rep.rule("C07.R8", "cyclic model: the repetition cap and the product bound are justified (exact flow row, weights >= 1); filters decide emptiness on the "
             "internal route (C01.R5); given-weights error bound covers the sum of the given weights", floor=6)
    from rules.bounds import cap_premises, given_weights_error_bound
    cap_premises(prog, rep, "C07.R8", "kLeastAbsErrorsCycles", which=("P2", "P3", "P4"))
    given_weights_error_bound(prog, rep, "C07.R8")
    from rules.common import RuleProxy as _RP
    from rules import ns as _ns
    _ns.arity_rule(prog, _RP(rep, "C07.R8"), "C01.R5", only=("kLeastAbsErrors", "kLeastAbsErrorsCycles"))
    rep.rule("C07.R7", "cyclic model: the walks handed out traverse every edge exactly as often as the solver decided (linear-use rule of C14.R1)", floor=6)
    from rules import c14
    from rules.common import RuleProxy
    px = RuleProxy(rep, "C07.R7")
    c14.trail_loop_rule(prog, px, "C14.R1", prog.own_method("AbstractWalkModelDiGraph", "_reconstruct_eulerian_walk"), ("walk",))
    c14.trail_loop_rule(prog, px, "C14.R1", prog.own_method("AbstractWalkModelDiGraph", "_build_closed_walk_from_vertex"), ("closed_walk",))
    c14.residual_rule(prog, px, "C14.R1")
    c14.splice_rule(prog, px, "C14.R1")
    from rules.providers import given_weights_integral
    given_weights_integral(prog, rep, "C07.R8", ["kLeastAbsErrors"])
    from rules.c04 import repetition_caps as _rc_caps
    from rules.common import RuleProxy as _RPcaps
    _rc_caps(prog, _RPcaps(rep, "C07.R8"), "C04.R5")
    from rules.providers import given_weights_above_coefficient_threshold
    given_weights_above_coefficient_threshold(prog, rep, "C07.R8", ["kLeastAbsErrors"])
    from rules.values import coefficients_converted
    coefficients_converted(prog, rep, "C07.R8", ["kLeastAbsErrors", "kLeastAbsErrorsCycles"])
    error_variables_rule(prog, rep, "C07.R8")
    from rules.values import scaling_factors_converted_in_readers
    scaling_factors_converted_in_readers(prog, rep, "C07.R3", [("kLeastAbsErrors", "get_objective_value"), ("kLeastAbsErrorsCycles", "get_objective_value")])
    from rules.values import python_arithmetic as _pa
    from sa.pm import AnalysisError as _AE
    if _pa(prog, rep, "C07.R8", [prog.own_method(c, "is_valid_solution") for c in ['kLeastAbsErrors', 'kLeastAbsErrorsCycles']],
           "is_valid_solution() reports the model's own optimal solution invalid (5 - 7 = 254 for np.uint8)") < 2:
        raise _AE("is_valid_solution: the comparison of the flow values with the load of the routes was not found")
    # the thresholds of the length-coverage rows (and of the greedy check against them) are sums of the caller's edge lengths
    if _pa(prog, rep, "C07.R8", [prog.own_method("AbstractPathModelDAG", m) for m in ("_encode_paths", "verify_edge_position", "verify_path_length")] +
           [prog.own_method("kFlowDecomp", "_get_solution_with_greedy")],
           "the total length of a constraint wraps around (np.uint16 40000 + 30000 = 4464) while the coefficients of the same row are float(): a path covering 30000 of 70000 "
           "passes the coverage 0.5 and the optimum 0 is reported instead of 10") < 3:
        raise _AE("_encode_paths: the sums of the edge lengths were not found")
    # the consumers replace the product of an edge flagged `= 1` / `= 0` by the weight / by 0: the flag has to be set exactly where the matching constraint
    # (or queued fix) is stated (C05.R1)
    from rules.common import RuleProxy as _RPf
    semantic.flag_pairing(prog, _RPf(rep, "C07.R2"), "C05.R1")
    from rules.plumb import constraint_edges_trusted_rule, constraints_as_safe_sequences_rule
    constraint_edges_trusted_rule(prog, rep, "C07.R8")
    constraints_as_safe_sequences_rule(prog, _RPf(rep, "C07.R8"), "C05.R10")
