"""C09 - minimum path/walk covers cover everything with fewest routes; width equals it."""
from __future__ import annotations

import ast
import re

from sa.pm import Program, FuncInfo, dotted, norm, calls_in, walk_no_nested, AnalysisError, kwarg
from sa.worlds import WorldFlow, passed
from rules.formulation import conformance
from rules.c13 import k_loop_protocol
from rules.search import range_rule, width_call_ok, lowerbound_rule

EXPLANATION = (
    "Decides: (R1) the cover family sum_i x[u,v,i] >= 1 exists for every non-ignored edge in both cover encoders, the only additional skip "
    "being the documented one (full coverage and the edge belongs to a constraint), including how the skip set is built; (R2) the search "
    "protocol of MinPathCover.solve / MinPathCoverCycles.solve on all paths (start at the lower bound, ascend by one, next k only after "
    "infeasible, True only with a proven model, publish that model's solution); (R3) the k-range reaches |E|; (R4) every get_width call "
    "that feeds k or a lower bound ignores the receiver's synthetic source/sink edges together with the model's ignore set (the convention "
    "the property states); (R5) the cached width is stored and returned only under the 'no edges to ignore' test; (R6) the per-walk repetition cap of the walk cover model is the tabled provider "
    "|E|*|V| and caps are only lowered to 1 for non-SCC edges (a smaller cap makes k = width infeasible); (R7) the demands fed to the width computation are "
    "1 per non-ignored edge (DAG), the un-capped multiplicity per condensation edge lowered by 1 per ignored edge, and 1 per non-trivial SCC "
    "(R8) the safety optimisations both cover searches run under conform to the frozen table (rows serving C05, including how the protection sets are built).  "
    " (R3, extended) the k-range reaches |E| + number of constraints; (R2, extended) max(1, lower bound) is accepted as start; (R9) the lower-bound graph of both cover searches is built with the additional starts / ends of the model (C10.R8), and the antichain network tests the weight function against None (an empty weight function means all weights 0, C17.R6). "
    "(0 iff all member edges are ignored).  NOT decided: cover "
    "optimality, width == minimum (min-max identity), correctness of the min-cost-flow reduction."
    ' (R9, round 3) no recursion in the dominator / safe-sequence traversals.'
)
DECIDED = ["cover constraints present for every non-ignored edge", "search protocol and range of both minimum cover searches",
           "width call convention", "width cache keyed by 'nothing ignored'"]
NOT_DECIDED = ["no cover with fewer paths/walks exists", "reported width equals the minimum cover size (Dilworth-type identity)"]

STATS_ONLY = {("AbstractWalkModelDiGraph", "create_solver_and_walks"): "statistic `graph_width` only, never used as k or bound"}


def width_calls(prog: Program, rep, RID: str):
    n = 0
    for f in prog.all_functions():
        if f.cls is None:
            continue
        for c in calls_in(f.node):
            if not (isinstance(c.func, ast.Attribute) and c.func.attr == "get_width"):
                continue
            n += 1
            key = f"{f.qualname}:{norm(c)[:70]}"
            if (f.cls.name, f.name) in STATS_ONLY:
                rep.ok(RID, key, "tabled: " + STATS_ONLY[(f.cls.name, f.name)], f.loc(c), nontrivial=False)
                continue
            ok, why = width_call_ok(prog, f, c, f.cls)
            if ok:
                rep.ok(RID, key, why, f.loc(c), sample={"site": f.qualname, "call": norm(c)[:90]})
            else:
                rep.violation(RID, key, f"width query feeding k / a lower bound: {why}", f.loc(c))
    return n


class CacheFlow(WorldFlow):
    FACT_PATTERNS = (r"edges_to_ignore",)

    def __init__(self, prog, f, attr):
        super().__init__(prog, f.module, f.cls)
        self.attr = attr
        self.events = []

    def on_assign(self, stmt, target, value, state):
        if target == f"self.{self.attr}":
            self.record(self.events, ("store", stmt, state))

    def on_return(self, stmt, state):
        if stmt.value is not None and norm(stmt.value) == f"self.{self.attr}":
            self.record(self.events, ("return-cached", stmt, state))


def width_cache(prog: Program, rep, RID: str):
    for cname, attr in (("stDAG", "width"), ("stDiGraph", "condensation_width")):
        f = prog.own_method(cname, "get_width")
        fl = CacheFlow(prog, f, attr)
        fl.run(f.node)
        if not fl.events:
            raise AnalysisError(f"{cname}.get_width: cache sites not found")
        for kind, st, state in fl.events:
            key = f"{cname}.get_width:{kind}"
            good = True
            for w in (state or []):
                okw = False
                for k, v in w.d.items():
                    kk = k[5:] if k.startswith("?was:") else k[1:]
                    if k.startswith("?") and kk.replace(" ", "") in ("len(edges_to_ignore)==0", "0==len(edges_to_ignore)") and v == frozenset(["True"]):
                        okw = True
                    if k.startswith("?") and kk.replace(" ", "") in ("len(edges_to_ignore)>0", "len(edges_to_ignore)!=0") and v == frozenset(["False"]):
                        okw = True
                tv = w.get("edges_to_ignore")
                if tv is not None and tv <= {"<falsy>", "None", "[]"}:
                    okw = True
                nn = w.get("N:edges_to_ignore")
                if nn is not None and nn <= {"None"}:
                    okw = True
                if not okw:
                    good = False
            if good:
                rep.ok(RID, key, f"self.{attr} is {'written' if kind == 'store' else 'returned'} only when nothing is ignored", f.loc(st))
            else:
                rep.violation(RID, key, f"the cached width self.{attr} is {'stored' if kind == 'store' else 'returned'} on a path where edges_to_ignore may be "
                              "non-empty: a width computed for one ignore set answers queries for another", f.loc(st))


def width_demands(prog: Program, rep, RID: str):
    """The demand every element places on the width computation is what the property's mechanism states: 1 per non-ignored edge
    (stDAG); per condensation edge the number of original inter-SCC edges minus the ignored ones, un-capped; 1 per non-trivial SCC
    unless all its member edges are ignored (stDiGraph)."""
    f = prog.own_method("stDAG", "get_width")
    from sa.mir import comprehensionise
    ok = False
    seen_dc = []
    for st in walk_no_nested(ast.Module(body=comprehensionise(f.node.body), type_ignores=[])):
        if isinstance(st, ast.Assign) and isinstance(st.value, ast.DictComp):
            dc = st.value
            seen_dc.append(dc)
            if norm(dc.value) == "1" and norm(dc.key) == norm(dc.generators[0].target) and norm(dc.generators[0].iter) in ("self.edges()", "self.edges") \
                    and len(dc.generators[0].ifs) == 1 and isinstance(dc.generators[0].ifs[0], ast.Compare) and isinstance(dc.generators[0].ifs[0].ops[0], ast.NotIn):
                ok = True
    key = "stDAG.get_width:demand"
    if ok:
        rep.ok(RID, key, "weight 1 for every edge outside the ignore set, nothing else", f.loc())
    elif seen_dc:
        rep.violation(RID, key, f"the weight function of the antichain computation is `{norm(seen_dc[0])[:90]}`, not {{e: 1 for every non-ignored edge}}", f.loc())
    else:
        raise AnalysisError("stDAG.get_width: the weight function of the antichain computation (a dict over self.edges()) was not found")
    g = prog.own_method("stDiGraph", "get_width")
    hit = None
    for lp in [n for n in walk_no_nested(g.node) if isinstance(n, ast.For)]:
        if norm(lp.iter) in ("self._condensation.edges", "self._condensation.edges()"):
            for st in lp.body:
                if isinstance(st, ast.Assign) and isinstance(st.targets[0], ast.Subscript) and "weight_function" in norm(st.targets[0].value):
                    hit = (lp, st)
    key = "stDiGraph.get_width:inter-SCC-demand"
    if hit is None:
        rep.violation(RID, key, "no per-condensation-edge demand is set in the width computation", g.loc())
    else:
        lp, st = hit
        from rules.common import all_local_defs, bind_loop_target, canon_in_loop
        ldefs = all_local_defs(g.node)
        binding = bind_loop_target(lp.target)
        tv = "E0, E1"
        val = canon_in_loop(st.value, ldefs, binding, lp)
        slc = canon_in_loop(st.targets[0].slice, ldefs, binding, lp)
        if val in ("edge_multiplicity[E0, E1]", "edge_multiplicity[(E0, E1)]") and \
                re.fullmatch(r"self\._condensation_edge_to_condensation_expanded_edge\(E0, E1\)", slc):
            rep.ok(RID, key, "demand of a condensation edge = number of original edges between the two SCCs (after removing ignored ones), un-capped", g.loc(st),
                   sample={"stmt": norm(st)})
        else:
            rep.violation(RID, key, f"`{norm(st)[:110]}`: the demand of a condensation edge is not its multiplicity `edge_multiplicity[{tv}]` - parallel edges "
                          "between two SCCs are under- or over-counted and the reported width differs from the minimum cover", g.loc(st))
    dec = [st for st in ast.walk(g.node) if isinstance(st, ast.AugAssign) and "edge_multiplicity[" in norm(st.target)]
    key = "stDiGraph.get_width:ignored-decrement"
    from rules.semantic import enclosing_tests
    good = len(dec) == 1 and isinstance(dec[0].op, ast.Sub) and norm(dec[0].value) == "1" and \
        any(("is_scc_edge" in norm(t)) and ((norm(t).startswith("not") and pol) or (not norm(t).startswith("not") and not pol)) for t, pol in enclosing_tests(g.node, dec[0]))
    if good:
        rep.ok(RID, key, "each ignored inter-SCC edge lowers the demand of its condensation edge by exactly 1", g.loc(dec[0]))
    else:
        rep.violation(RID, key, "ignored inter-SCC edges do not lower the condensation-edge demand by exactly 1 each", g.loc(dec[0]) if dec else g.loc())
    scc = [st for st in ast.walk(g.node) if isinstance(st, ast.Assign) and isinstance(st.targets[0], ast.Subscript) and "weight_function" in norm(st.targets[0].value)
           and "self._expanded(" in norm(st.targets[0].slice)]
    vals = sorted(norm(st.value) for st in scc)
    key = "stDiGraph.get_width:SCC-demand"
    if vals == ["0", "1"]:
        rep.ok(RID, key, "a non-trivial SCC demands 1 walk unless all of its member edges are ignored (then 0)", g.loc(scc[0]))
    else:
        rep.violation(RID, key, f"SCC demands are {vals} (expected 1, and 0 only when every member edge is ignored)", g.loc())


def check(prog: Program, rep):
    rep.rule("C09.R1", "cover families conform to the frozen formulation table", floor=3)
    conformance(prog, rep, "C09.R1", "C09")
    rep.rule("C09.R2", "search protocol of the two minimum cover searches", floor=8)
    k_loop_protocol(prog, rep, "C09.R2", "MinPathCover", "solve", {"self.get_lowerbound_k()"})
    k_loop_protocol(prog, rep, "C09.R2", "MinPathCoverCycles", "solve", {"self.get_lowerbound_k()"})
    rep.rule("C09.R3", "k-range reaches the largest attainable optimum", floor=2)
    range_rule(prog, rep, "C09.R3", "MinPathCover", "solve")
    range_rule(prog, rep, "C09.R3", "MinPathCoverCycles", "solve")
    rep.rule("C09.R4", "width call convention", floor=10)
    width_calls(prog, rep, "C09.R4")
    rep.rule("C09.R5", "width cache key", floor=4)
    width_cache(prog, rep, "C09.R5")
    rep.rule("C09.R6", "walk covers: per-edge repetition cap provider and overwrite discipline (shared with C04.R5); walk-shape rows", floor=5)
    from rules.c04 import repetition_caps
    from rules.common import RuleProxy
    repetition_caps(prog, RuleProxy(rep, "C09.R6"), "C04.R5")
    rep.rule("C09.R7", "demands entering the width computation (per edge / per condensation edge / per SCC)", floor=4)
    width_demands(prog, rep, "C09.R7")
    rep.rule("C09.R8", "the safety optimisations both cover searches run under (fixing to 1 / >= m / 0, protection sets) conform to the frozen table (C05.R4)", floor=10)
    from rules.common import RuleProxy
    conformance(prog, RuleProxy(rep, "C09.R8"), "C05.R4", "C05")
    rep.rule("C09.R9", "the lower-bound graph of a minimum cover search gets the model's additional starts / ends (C10.R8); the antichain network "
             "distinguishes an empty weight function from none (C17.R6)", floor=6)
    from rules import plumb
    from rules.c17 import antichain_network
    from rules.common import RuleProxy
    plumb.stgraph_starts_rule(prog, RuleProxy(rep, "C09.R9"), "C10.R8")
    antichain_network(prog, RuleProxy(rep, "C09.R9"), "C17.R6")
    from rules.values import no_recursion
    no_recursion(prog, RuleProxy(rep, "C09.R9"), "C06.R7", ["flowpaths.utils.dominators", "flowpaths.utils.safetypathcoverscycles"])
