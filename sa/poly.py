"""Polynomials with rational coefficients over opaque atoms (normalised sub-expressions).

Used for comparing bounds, big-M constants and coefficients by *normal form* rather than by text:
`a + 1`, `1 + a`, `(a + 2) - 1` are equal; `2 * (U - L)` and `(U - L) * 2` are equal.
Anything that is not +, -, *, /const, **const, a number or a parenthesised combination of those is an atom,
keyed by its whitespace-normalised source text (after caller-side local substitution).
"""
from __future__ import annotations

import ast
from fractions import Fraction
from typing import Callable, Dict, Optional, Tuple

from .pm import norm

Mono = Tuple[str, ...]


class Poly:
    __slots__ = ("t",)

    def __init__(self, t: Optional[Dict[Mono, Fraction]] = None):
        self.t = {m: c for m, c in (t or {}).items() if c != 0}

    @staticmethod
    def const(c) -> "Poly":
        return Poly({(): Fraction(c)})

    @staticmethod
    def atom(a: str) -> "Poly":
        return Poly({(a,): Fraction(1)})

    def __add__(self, o: "Poly") -> "Poly":
        t = dict(self.t)
        for m, c in o.t.items():
            t[m] = t.get(m, 0) + c
        return Poly(t)

    def __neg__(self) -> "Poly":
        return Poly({m: -c for m, c in self.t.items()})

    def __sub__(self, o: "Poly") -> "Poly":
        return self + (-o)

    def __mul__(self, o: "Poly") -> "Poly":
        t: Dict[Mono, Fraction] = {}
        for m1, c1 in self.t.items():
            for m2, c2 in o.t.items():
                m = tuple(sorted(m1 + m2))
                t[m] = t.get(m, 0) + c1 * c2
        return Poly(t)

    def scale(self, c) -> "Poly":
        return Poly({m: v * Fraction(c) for m, v in self.t.items()})

    def is_const(self) -> bool:
        return all(m == () for m in self.t)

    def const_value(self) -> Optional[Fraction]:
        if self.is_const():
            return self.t.get((), Fraction(0))
        return None

    def is_zero(self) -> bool:
        return not self.t

    def atoms(self):
        return {a for m in self.t for a in m}

    def __eq__(self, o):
        return isinstance(o, Poly) and self.t == o.t

    def __hash__(self):
        return hash(frozenset(self.t.items()))

    def coeff(self, mono: Mono) -> Fraction:
        return self.t.get(tuple(sorted(mono)), Fraction(0))

    def __repr__(self):
        if not self.t:
            return "0"
        parts = []
        for m, c in sorted(self.t.items()):
            if m == ():
                parts.append(str(c))
            else:
                body = "*".join(m)
                parts.append(body if c == 1 else (f"-{body}" if c == -1 else f"{c}*{body}"))
        return " + ".join(parts).replace("+ -", "- ")


def to_poly(node: ast.AST, atom_of: Optional[Callable[[ast.AST], Optional[str]]] = None) -> Poly:
    """atom_of may map a node to a canonical atom name (return None to fall back to the default)."""
    if atom_of is not None:
        a = atom_of(node)
        if a is not None:
            return Poly.atom(a)
    if isinstance(node, ast.Constant) and isinstance(node.value, (int, float)) and not isinstance(node.value, bool):
        return Poly.const(Fraction(str(node.value)) if isinstance(node.value, float) else Fraction(node.value))
    if isinstance(node, ast.Constant) and isinstance(node.value, bool):
        return Poly.const(int(node.value))
    if isinstance(node, ast.UnaryOp) and isinstance(node.op, ast.USub):
        return -to_poly(node.operand, atom_of)
    if isinstance(node, ast.UnaryOp) and isinstance(node.op, ast.UAdd):
        return to_poly(node.operand, atom_of)
    if isinstance(node, ast.BinOp):
        if isinstance(node.op, ast.Add):
            return to_poly(node.left, atom_of) + to_poly(node.right, atom_of)
        if isinstance(node.op, ast.Sub):
            return to_poly(node.left, atom_of) - to_poly(node.right, atom_of)
        if isinstance(node.op, ast.Mult):
            return to_poly(node.left, atom_of) * to_poly(node.right, atom_of)
        if isinstance(node.op, ast.Div):
            r = to_poly(node.right, atom_of)
            cv = r.const_value()
            if cv is not None and cv != 0:
                return to_poly(node.left, atom_of).scale(1 / cv)
        if isinstance(node.op, ast.Pow):
            e = to_poly(node.right, atom_of).const_value()
            b = to_poly(node.left, atom_of)
            if e is not None and e.denominator == 1 and 0 <= e <= 8:
                out = Poly.const(1)
                for _ in range(int(e)):
                    out = out * b
                return out
    # int(x) / float(x) around a polynomial keep the value for our purposes only when x is constant
    return Poly.atom(norm(node))


def nonneg_given(p: Poly, nonneg_atoms=None) -> Optional[bool]:
    """True if p >= 0 whenever all atoms are >= 0 (all coefficients >= 0); False if p < 0 under that assumption for
    sure (all coefficients <= 0 and not all zero); None if undetermined."""
    if p.is_zero():
        return True
    if nonneg_atoms is not None and not p.atoms() <= set(nonneg_atoms):
        return None
    cs = list(p.t.values())
    if all(c >= 0 for c in cs):
        return True
    if all(c <= 0 for c in cs):
        return False
    return None
