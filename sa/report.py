"""Reporting: obligations, violations, known findings, evidence and replay files."""
from __future__ import annotations

import json
import os
import re
import sys
import time
from typing import Any, Dict, List, Optional

VERIF = os.path.dirname(os.path.dirname(os.path.abspath(__file__)))
KNOWN_FILE = os.path.join(VERIF, "KNOWN_FINDINGS.txt")

TRUSTED_BASE = [
    "CPython's ast parser (same minor version as the code under analysis)",
    "HiGHS / Gurobi and the highspy binding behave as documented (external contracts table, DESIGN.md 2.7)",
    "networkx graph primitives",
    "the published formulations cited in the code (arXiv 2201.10923, 2209.00042) are the intended models",
    "the checker itself (audited by selftest/: break-variants must fire, benign variants must stay silent)",
]


class KnownFindings:
    """finding: property=<id> rule=<rule> key=<key> :: text     (suppresses exactly that instance)
       fixed:   property=<id> <commit> <text>                   (suppresses nothing)"""

    def __init__(self, path: str = KNOWN_FILE):
        self.findings: Dict[tuple, str] = {}
        self.fixed: List[str] = []
        if not os.path.exists(path):
            return
        for line in open(path, encoding="utf-8"):
            line = line.strip()
            if not line or line.startswith("#"):
                continue
            if line.startswith("finding:"):
                m = re.match(r"finding:\s*property=(\S+)\s+rule=(\S+)\s+key=(.+?)\s+::\s*(.*)$", line)
                if not m:
                    raise SystemExit(f"ANALYSIS-ERROR malformed line in KNOWN_FINDINGS.txt: {line}")
                self.findings[(m.group(1), m.group(2), m.group(3))] = m.group(4)
            elif line.startswith("fixed:"):
                self.fixed.append(line)

    def lookup(self, pid: str, rule: str, key: str) -> Optional[str]:
        return self.findings.get((pid, rule, key))


class Report:
    def __init__(self, pid: str, tier: str = "quick"):
        self.pid = pid
        self.tier = tier
        self.t0 = time.time()
        self.rules: Dict[str, Dict[str, Any]] = {}
        self.violations: List[Dict[str, Any]] = []
        self.notes: List[str] = []
        self.samples: List[Any] = []
        self.not_decided: List[str] = []
        self.decided: List[str] = []
        self.extra: Dict[str, Any] = {}
        self.keys_seen = set()

    # ---------------------------------------------------------------- rules
    def rule(self, rid: str, text: str, floor: int = 1):
        self.rules.setdefault(rid, {"text": text, "floor": floor, "instances": 0, "violations": 0,
                                    "known_findings": 0, "nontrivial": 0})

    def ok(self, rid: str, key: str, detail: str = "", loc: str = "", sample: Any = None, nontrivial: bool = True):
        r = self.rules[rid]
        r["instances"] += 1
        k = (rid, key)
        if nontrivial and k not in self.keys_seen:
            r["nontrivial"] += 1
        self.keys_seen.add(k)
        if sample is not None or len(self.samples) < 6:
            if len(self.samples) < 40:
                self.samples.append({"rule": rid, "instance": key, "at": loc, "verdict": "holds",
                                     "detail": sample if sample is not None else detail})

    def violation(self, rid: str, key: str, msg: str, loc: str = "", detail: Any = None, self_contained: bool = False):
        """self_contained: the verdict rests on the reported construct alone (e.g. 'this function calls itself') and stays true however the
        enclosing function was decomposed into helpers, so it is not withheld when the decomposition could not be restored."""
        if any(v["rule"] == rid and v["key"] == key and v["at"] == loc for v in self.violations):
            return
        r = self.rules[rid]
        r["instances"] += 1
        r["violations"] += 1
        k = (rid, key)
        if k not in self.keys_seen:
            r["nontrivial"] += 1
        self.keys_seen.add(k)
        self.violations.append({"rule": rid, "key": key, "msg": msg, "at": loc, "detail": detail, "self_contained": self_contained})

    def note(self, text: str):
        self.notes.append(text)

    # --------------------------------------------------------------- finish
    def finish(self, prog=None, explanation: str = "", aborted: bool = False) -> int:
        known = KnownFindings()
        code = 2 if aborted else 0      # (aborted: the analysis ended with an ANALYSIS-ERROR after something was reported; never exit 0)
        # vacuity: a rule matching fewer instances than confirmed by hand is analysis-broken
        for rid, r in self.rules.items():
            # a rule that reports a violation explains its own missing instances (the violating construct is what vanished)
            if r["instances"] < r["floor"] and r["violations"] == 0:
                print(f"ANALYSIS-ERROR property={self.pid} rule={rid}: matched {r['instances']} instance(s), "
                      f"floor is {r['floor']} (the rule has gone vacuous or its anchors moved)")
                code = 2
        real = []
        unjudged = []
        tainted = list(getattr(prog, "not_restored", []) or []) if prog is not None else []
        for v in self.violations:
            m_ = re.match(r"^(.*?):(\d+)$", str(v.get("at") or ""))
            hit_ = None
            if m_ and tainted and not v.get("self_contained"):
                for rel, a_, b_, why in tainted:
                    if rel == m_.group(1) and a_ <= int(m_.group(2)) <= max(a_, b_):
                        hit_ = why
                        break
            if hit_ is not None:
                unjudged.append((v, hit_))
                self.rules[v["rule"]]["violations"] -= 1
                continue
            txt = known.lookup(self.pid, v["rule"], v["key"])
            if txt is not None:
                self.rules[v["rule"]]["known_findings"] += 1
                self.rules[v["rule"]]["violations"] -= 1
                print(f"KNOWN-FINDING: property={self.pid} rule={v['rule']} key={v['key']} at {v['at']} :: {v['msg']}")
            else:
                real.append(v)
        # listed findings that this run did not reproduce: repaired upstream (the line should become `fixed:`), or the rule no longer reaches the construct
        reproduced = {(v["rule"], v["key"]) for v in self.violations}
        for (pid_, rule_, key_), _txt in known.findings.items():
            if pid_ == self.pid and (rule_, key_) not in reproduced:
                print(f"NOTE: known finding not reproduced on this tree: property={pid_} rule={rule_} key={key_} (repaired - then the line should read `fixed:` - or no longer reached by the rule)")
                self.extra.setdefault("known_findings_not_reproduced", []).append(f"{rule_} {key_}")
        os.makedirs(os.path.join(VERIF, "replays"), exist_ok=True)
        for i, v in enumerate(real):
            path = os.path.join(VERIF, "replays", f"{self.pid}_{i}.json")
            with open(path, "w") as fh:
                json.dump({"property": self.pid, **v}, fh, indent=1, default=str)
            print(f"  {v['at']}: [{v['rule']}] {v['key']}: {v['msg']}")
            print(f"VIOLATION property={self.pid} replay={path}")
        if real:
            code = 1
        for v, why in unjudged:
            print(f"ANALYSIS-ERROR property={self.pid} rule={v['rule']} at {v['at']}: a difference was seen ({v['key']}) but cannot be judged: {why}; "
                  "review the new helper and extend sa/inline.py or re-freeze after confirming")
            if code == 0:
                code = 2
        for n in self.notes:
            print(f"note: {n}")
        self._write_evidence(prog, explanation, len(real))
        obligations = sum(r["instances"] for r in self.rules.values())
        print(f"{self.pid}: {len(self.rules)} rules, {obligations} obligations, {len(real)} violation(s), "
              f"{sum(r['known_findings'] for r in self.rules.values())} known finding(s), exit {code}")
        return code

    def _write_evidence(self, prog, explanation: str, nviol: int):
        obligations = sum(r["instances"] for r in self.rules.values())
        discharged = obligations - sum(r["violations"] + r["known_findings"] for r in self.rules.values())
        nontrivial = sum(r["nontrivial"] for r in self.rules.values())
        cov: Dict[str, Any] = {
            "explanation": explanation or "static analysis of the current /repo working tree",
            "evaluations": max(obligations, 1),
            "distinct_nontrivial": max(nontrivial, 0),
            "rule": "one evaluation per rule instance (a construct of the current tree that the rule's slots bind to); "
                    "distinct = de-duplicated by (rule, construct key); non-trivial = the rule matched a real construct "
                    "and had to compare it against its oracle (no vacuous passes are counted)",
            "samples": self.samples[:40] or [{"note": "no instance"}],
            "obligations": obligations,
            "discharged": discharged,
            "checker_cmd": f"./check {self.pid} --tier {self.tier}",
            "trusted_base": TRUSTED_BASE,
            "exhaustive": True,
            "rules": self.rules,
            "decided_clauses": self.decided,
            "not_decided_clauses": self.not_decided,
            "notes": self.notes,
        }
        if prog is not None:
            cov["modules"] = len(prog.modules)
            cov["functions"] = sum(1 for _ in prog.all_functions())
            cov["classes"] = len(prog.all_classes())
            cov["call_sites_resolved"] = prog.resolved_calls
            cov["call_sites_unresolved"] = prog.unresolved_calls
            cov["tree_digest"] = prog.digest()
            cov["repo_root"] = prog.root
            cov["normalisation"] = list(getattr(prog, "normalisation_notes", []))[:30] or ["the tree has the reviewed decomposition into functions: nothing was inlined or renamed back"]
        cov.update(self.extra)
        ev = {
            "property_id": self.pid,
            "tier": self.tier,
            "seed": int(os.environ.get("VERIF_SEED", "0") or 0),
            "level": "other",
            "coverage": cov,
            "assumptions": TRUSTED_BASE + [f"not decided: {c}" for c in self.not_decided],
            "wall_s": round(time.time() - self.t0, 3),
            "violations": nviol,
        }
        out_dir = os.environ.get("VERIF_EVIDENCE_DIR", os.path.join(VERIF, "evidence"))
        os.makedirs(out_dir, exist_ok=True)
        with open(os.path.join(out_dir, f"{self.pid}.json"), "w") as fh:
            json.dump(ev, fh, indent=1, default=str)
