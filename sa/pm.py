"""PM - program model ("the resolved program") of /repo/flowpaths.

Pure standard library.  Parses every module of the package from the *current
working tree* on every run and offers: import-alias resolution, a class table
with linearised bases (single inheritance is asserted), MRO method lookup,
call-target resolution for the idioms the repository uses, and the list of
exported names (read from the import statements of flowpaths/__init__.py).

Nothing of /repo is imported or executed.
"""
from __future__ import annotations

import ast
import hashlib
import os
from dataclasses import dataclass, field
from typing import Dict, Iterator, List, Optional, Tuple

PKG = "flowpaths"


class AnalysisError(Exception):
    """The analysis cannot run (anchor vanished, unparsable tree, ...): exit 2."""


class AnchorVanished(AnalysisError):
    """A function of the reviewed decomposition is gone and could not be restored: whatever was judged so far in this run was
    judged against a different decomposition and is not reported as a violation."""


def repo_root() -> str:
    return os.environ.get("VERIF_REPO", "/repo")


@dataclass
class FuncInfo:
    name: str
    qualname: str            # "Class.method", "func", "Class.method.<nested>"
    module: "ModuleInfo"
    cls: Optional["ClassInfo"]
    node: ast.AST            # FunctionDef / AsyncFunctionDef
    parent: Optional["FuncInfo"] = None

    @property
    def params(self) -> List[str]:
        a = self.node.args
        names = [x.arg for x in a.posonlyargs + a.args]
        if a.vararg:
            names.append(a.vararg.arg)
        names += [x.arg for x in a.kwonlyargs]
        if a.kwarg:
            names.append(a.kwarg.arg)
        return names

    def defaults(self) -> Dict[str, ast.AST]:
        a = self.node.args
        pos = a.posonlyargs + a.args
        out = {}
        for p, d in zip(pos[len(pos) - len(a.defaults):], a.defaults):
            out[p.arg] = d
        for p, d in zip(a.kwonlyargs, a.kw_defaults):
            if d is not None:
                out[p.arg] = d
        return out

    def loc(self, node: Optional[ast.AST] = None) -> str:
        n = node if node is not None else self.node
        return f"{self.module.relpath}:{getattr(n, 'lineno', 0)}"

    def __repr__(self):
        return f"<Func {self.module.name}:{self.qualname}>"


@dataclass
class ClassInfo:
    name: str
    module: "ModuleInfo"
    node: ast.ClassDef
    base_exprs: List[ast.AST]
    methods: Dict[str, FuncInfo] = field(default_factory=dict)
    class_attrs: Dict[str, ast.AST] = field(default_factory=dict)
    bases: List["ClassInfo"] = field(default_factory=list)       # resolved, in-package
    ext_bases: List[str] = field(default_factory=list)           # dotted names of external bases

    def __repr__(self):
        return f"<Class {self.module.name}.{self.name}>"

    def __hash__(self):
        return hash((self.module.name, self.name))

    def __eq__(self, o):
        return isinstance(o, ClassInfo) and (o.module.name, o.name) == (self.module.name, self.name)


@dataclass
class ModuleInfo:
    name: str                 # dotted, e.g. flowpaths.utils.solverwrapper
    path: str
    relpath: str
    src: str
    tree: ast.Module
    imports: Dict[str, str] = field(default_factory=dict)   # local alias -> dotted target
    classes: Dict[str, ClassInfo] = field(default_factory=dict)
    functions: Dict[str, FuncInfo] = field(default_factory=dict)
    globals_: Dict[str, ast.AST] = field(default_factory=dict)

    def __repr__(self):
        return f"<Module {self.name}>"


def dotted(node: ast.AST) -> Optional[str]:
    """a.b.c for Name/Attribute chains, else None."""
    parts = []
    while isinstance(node, ast.Attribute):
        parts.append(node.attr)
        node = node.value
    if isinstance(node, ast.Name):
        parts.append(node.id)
        return ".".join(reversed(parts))
    return None


def unparse(node: ast.AST) -> str:
    try:
        return ast.unparse(node)
    except Exception:  # pragma: no cover
        return ast.dump(node)


def norm(node: ast.AST) -> str:
    """Whitespace/quote-normalised text of a node (for construct keys)."""
    return " ".join(unparse(node).split())


class Program:
    def __init__(self, root: Optional[str] = None):
        self.root = root or repo_root()
        self.pkgdir = os.path.join(self.root, PKG)
        if not os.path.isdir(self.pkgdir):
            raise AnalysisError(f"package directory {self.pkgdir} not found")
        self.modules: Dict[str, ModuleInfo] = {}
        self.unresolved_calls = 0
        self.resolved_calls = 0
        self._load()
        self._link()

    # ------------------------------------------------------------------ load
    def _load(self):
        for dirpath, dirnames, filenames in os.walk(self.pkgdir):
            dirnames[:] = sorted(d for d in dirnames if d != "__pycache__")
            for fn in sorted(filenames):
                if not fn.endswith(".py"):
                    continue
                path = os.path.join(dirpath, fn)
                rel = os.path.relpath(path, self.root)
                modname = rel[:-3].replace(os.sep, ".")
                if modname.endswith(".__init__"):
                    modname = modname[: -len(".__init__")]
                try:
                    src = open(path, encoding="utf-8").read()
                    import warnings
                    with warnings.catch_warnings():
                        warnings.simplefilter("ignore")
                        tree = ast.parse(src, filename=path)
                except SyntaxError as e:
                    raise AnalysisError(f"cannot parse {rel}: {e}")
                self.modules[modname] = ModuleInfo(modname, path, rel, src, tree)
        if not self.modules:
            raise AnalysisError("no modules found")

    def digest(self) -> str:
        h = hashlib.sha256()
        for name in sorted(self.modules):
            h.update(name.encode())
            h.update(self.modules[name].src.encode())
        return h.hexdigest()[:16]

    def _resolve_relative(self, mod: ModuleInfo, level: int, target: Optional[str]) -> str:
        is_pkg = mod.path.endswith("__init__.py")
        parts = mod.name.split(".")
        base = parts if is_pkg else parts[:-1]
        if level > 1:
            base = base[: len(base) - (level - 1)]
        return ".".join(base + ([target] if target else []))

    def _link(self):
        # restore the reviewed decomposition into functions (new helpers are inlined back into their callers)
        from . import inline as _inline
        self.normalisation_notes = _inline.normalise(self.modules)
        self.not_restored = list(_inline.LEFTOVER)
        for mod in self.modules.values():
            for st in mod.tree.body:
                self._scan_toplevel(mod, st)
        # resolve bases
        for mod in self.modules.values():
            for cls in mod.classes.values():
                for b in cls.base_exprs:
                    tgt = self.resolve_class_expr(mod, b)
                    if tgt is not None:
                        cls.bases.append(tgt)
                    else:
                        d = dotted(b)
                        cls.ext_bases.append(self.expand_alias(mod, d) if d else unparse(b))
                if len(cls.bases) > 1:
                    raise AnalysisError(f"multiple in-package inheritance in {cls}: not modelled")

    def _scan_toplevel(self, mod: ModuleInfo, st: ast.stmt):
        if isinstance(st, ast.Import):
            for a in st.names:
                if a.asname:
                    mod.imports[a.asname] = a.name
                else:
                    mod.imports[a.name.split(".")[0]] = a.name.split(".")[0]
        elif isinstance(st, ast.ImportFrom):
            base = self._resolve_relative(mod, st.level, st.module) if st.level else (st.module or "")
            for a in st.names:
                mod.imports[a.asname or a.name] = f"{base}.{a.name}" if base else a.name
        elif isinstance(st, ast.ClassDef):
            ci = ClassInfo(st.name, mod, st, list(st.bases))
            mod.classes[st.name] = ci
            for b in st.body:
                if isinstance(b, (ast.FunctionDef, ast.AsyncFunctionDef)):
                    fi = FuncInfo(b.name, f"{st.name}.{b.name}", mod, ci, b)
                    ci.methods[b.name] = fi
                elif isinstance(b, ast.Assign):
                    for t in b.targets:
                        if isinstance(t, ast.Name):
                            ci.class_attrs[t.id] = b.value
                elif isinstance(b, ast.AnnAssign) and isinstance(b.target, ast.Name) and b.value is not None:
                    ci.class_attrs[b.target.id] = b.value
        elif isinstance(st, (ast.FunctionDef, ast.AsyncFunctionDef)):
            mod.functions[st.name] = FuncInfo(st.name, st.name, mod, None, st)
        elif isinstance(st, ast.Assign):
            for t in st.targets:
                if isinstance(t, ast.Name):
                    mod.globals_[t.id] = st.value
        elif isinstance(st, (ast.If, ast.Try)):
            for sub in ast.iter_child_nodes(st):
                if isinstance(sub, ast.stmt):
                    self._scan_toplevel(mod, sub)

    # --------------------------------------------------------------- queries
    def expand_alias(self, mod: ModuleInfo, name: Optional[str]) -> Optional[str]:
        """Replace the leading import alias of a dotted name by its target."""
        if not name:
            return name
        head, _, rest = name.partition(".")
        if head in mod.imports:
            full = mod.imports[head]
            return f"{full}.{rest}" if rest else full
        return name

    def find_dotted(self, full: Optional[str]):
        """Resolve a fully qualified dotted name to ModuleInfo / ClassInfo / FuncInfo."""
        if not full:
            return None
        parts = full.split(".")
        for i in range(len(parts), 0, -1):
            mname = ".".join(parts[:i])
            if mname in self.modules:
                mod = self.modules[mname]
                rest = parts[i:]
                if not rest:
                    return mod
                obj = None
                if rest[0] in mod.classes:
                    obj = mod.classes[rest[0]]
                elif rest[0] in mod.functions:
                    obj = mod.functions[rest[0]]
                elif rest[0] in mod.imports:
                    return self.find_dotted(".".join([mod.imports[rest[0]]] + rest[1:]))
                if obj is None:
                    return None
                if len(rest) == 1:
                    return obj
                if isinstance(obj, ClassInfo) and len(rest) == 2:
                    return self.lookup_method(obj, rest[1])
                return None
        return None

    def resolve_class_expr(self, mod: ModuleInfo, expr: ast.AST) -> Optional[ClassInfo]:
        d = dotted(expr)
        if d is None:
            return None
        if d in mod.classes:
            return mod.classes[d]
        obj = self.find_dotted(self.expand_alias(mod, d))
        return obj if isinstance(obj, ClassInfo) else None

    def cls(self, name: str) -> ClassInfo:
        hits = [c for m in self.modules.values() for c in m.classes.values() if c.name == name]
        if len(hits) != 1:
            raise AnalysisError(f"class {name!r}: expected exactly one definition, found {len(hits)}")
        return hits[0]

    def has_cls(self, name: str) -> bool:
        return sum(1 for m in self.modules.values() for c in m.classes.values() if c.name == name) == 1

    def all_classes(self) -> List[ClassInfo]:
        return [c for m in sorted(self.modules.values(), key=lambda m: m.name) for c in m.classes.values()]

    def mro(self, cls: ClassInfo) -> List[ClassInfo]:
        out, cur, seen = [], cls, set()
        while cur is not None and cur not in seen:
            out.append(cur)
            seen.add(cur)
            cur = cur.bases[0] if cur.bases else None
        return out

    def is_subclass(self, cls: ClassInfo, base_name: str) -> bool:
        return any(c.name == base_name for c in self.mro(cls))

    def subclasses(self, base_name: str) -> List[ClassInfo]:
        return [c for c in self.all_classes() if c.name != base_name and self.is_subclass(c, base_name)]

    def lookup_method(self, cls: ClassInfo, name: str) -> Optional[FuncInfo]:
        for c in self.mro(cls):
            if name in c.methods:
                return c.methods[name]
        return None

    def lookup_class_attr(self, cls: ClassInfo, name: str) -> Optional[ast.AST]:
        for c in self.mro(cls):
            if name in c.class_attrs:
                return c.class_attrs[name]
        return None

    def method(self, cls_name: str, meth: str) -> FuncInfo:
        """Own-or-inherited method; AnalysisError if it vanished (anchor check)."""
        f = self.lookup_method(self.cls(cls_name), meth)
        if f is None:
            raise AnchorVanished(f"anchor vanished: {cls_name}.{meth}")
        return f

    def own_method(self, cls_name: str, meth: str) -> FuncInfo:
        c = self.cls(cls_name)
        if meth not in c.methods:
            raise AnchorVanished(f"anchor vanished: {cls_name}.{meth} (own method)")
        return c.methods[meth]

    def function(self, mod_name: str, fn: str) -> FuncInfo:
        m = self.modules.get(mod_name)
        if m is None or fn not in m.functions:
            raise AnchorVanished(f"anchor vanished: {mod_name}.{fn}")
        return m.functions[fn]

    def all_functions(self) -> Iterator[FuncInfo]:
        for m in sorted(self.modules.values(), key=lambda m: m.name):
            for f in m.functions.values():
                yield f
            for c in m.classes.values():
                for f in c.methods.values():
                    yield f

    def exported_names(self) -> Dict[str, object]:
        """Names imported into flowpaths/__init__.py -> resolved object (or None)."""
        init = self.modules.get(PKG)
        if init is None:
            raise AnalysisError("flowpaths/__init__.py not found")
        out = {}
        for alias, full in init.imports.items():
            out[alias] = self.find_dotted(full)
        return out

    def exported_classes(self) -> List[ClassInfo]:
        return [o for o in self.exported_names().values() if isinstance(o, ClassInfo)]

    # ------------------------------------------------------- call resolution
    def resolve_call(self, call: ast.Call, mod: ModuleInfo, ctx_cls: Optional[ClassInfo],
                     self_name: str = "self", local_types: Optional[Dict[str, ClassInfo]] = None):
        """Return FuncInfo (function or method; a class call resolves to its __init__ when defined,
        else the ClassInfo) or None.  `ctx_cls` is the class *under analysis* (MRO start for self.m())."""
        f = call.func
        tgt = None
        # super().m(...)
        if isinstance(f, ast.Attribute) and isinstance(f.value, ast.Call) and dotted(f.value.func) == "super":
            if ctx_cls is not None:
                # the class lexically containing is unknown here; callers pass def_cls via ctx when needed
                tgt = None
        elif isinstance(f, ast.Attribute) and isinstance(f.value, ast.Name) and f.value.id == self_name and ctx_cls is not None:
            tgt = self.lookup_method(ctx_cls, f.attr)
        else:
            d = dotted(f)
            if d is not None:
                head = d.split(".")[0]
                if local_types and head in local_types and d.count(".") == 1:
                    tgt = self.lookup_method(local_types[head], d.split(".")[1])
                elif d in mod.classes:
                    tgt = mod.classes[d]
                elif d in mod.functions:
                    tgt = mod.functions[d]
                else:
                    tgt = self.find_dotted(self.expand_alias(mod, d))
                    if isinstance(tgt, ModuleInfo):
                        tgt = None
        if isinstance(tgt, ClassInfo):
            init = self.lookup_method(tgt, "__init__")
            tgt = init if init is not None else tgt
        if tgt is None:
            self.unresolved_calls += 1
        else:
            self.resolved_calls += 1
        return tgt

    def resolve_super_call(self, call: ast.Call, def_cls: ClassInfo) -> Optional[FuncInfo]:
        """super().m(...) lexically inside class def_cls."""
        f = call.func
        if isinstance(f, ast.Attribute) and isinstance(f.value, ast.Call) and dotted(f.value.func) == "super":
            if def_cls.bases:
                return self.lookup_method(def_cls.bases[0], f.attr)
        return None


def is_super_call(call: ast.Call) -> bool:
    f = call.func
    return isinstance(f, ast.Attribute) and isinstance(f.value, ast.Call) and dotted(f.value.func) == "super"


def walk_no_nested(node: ast.AST) -> Iterator[ast.AST]:
    """ast.walk that does not descend into nested function / class / lambda bodies."""
    stack = [node]
    first = True
    while stack:
        n = stack.pop()
        if not first and isinstance(n, (ast.FunctionDef, ast.AsyncFunctionDef, ast.ClassDef, ast.Lambda)):
            continue
        first = False
        yield n
        stack.extend(reversed(list(ast.iter_child_nodes(n))))


def calls_in(node: ast.AST, nested: bool = False) -> Iterator[ast.Call]:
    it = ast.walk(node) if nested else walk_no_nested(node)
    for n in it:
        if isinstance(n, ast.Call):
            yield n


def kwarg(call: ast.Call, name: str, pos: Optional[int] = None) -> Optional[ast.AST]:
    for k in call.keywords:
        if k.arg == name:
            return k.value
    if pos is not None and pos < len(call.args) and not any(isinstance(a, ast.Starred) for a in call.args[: pos + 1]):
        return call.args[pos]
    return None
